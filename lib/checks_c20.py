# Stages for property C20: the fstest conformance suite accepts the reference and rejects deviants.
FS_LEVEL = ("mkdir", "mkdirall", "create", "open", "remove", "rename", "stat", "chmod", "chtimes")


def c20_go_test(ctx, extra_args=(), only=None, label="suite"):
    out = os.path.join(ctx.scratch, "c20-fired-%s.json" % label)
    env = dict(ENV, VERIF_C20_OUT=out)
    if only:
        env["VERIF_C20_ONLY"] = ",".join(only)
    cmd = ["go", "test", "-tags", "verif", "-count=1", "-json"] + list(extra_args) + ["./c20"]
    p = subprocess.run(cmd, cwd=os.path.join(VERIF, "harness"), env=env, capture_output=True, text=True, timeout=1800)
    res = {}
    for line in p.stdout.splitlines():
        try:
            e = json.loads(line)
        except Exception:
            continue
        if e.get("Action") in ("pass", "fail", "skip") and e.get("Test"):
            res[e["Test"]] = e["Action"]
    if not res:
        raise Inconclusive("go test ./c20 produced no results:\n" + p.stdout[-800:] + p.stderr[-800:])
    fired = json.load(open(out)) if os.path.exists(out) else {}
    ctx.cov["checker_cmd"].append(" ".join(cmd))
    return res, fired


def c20_div(ctx, sig, detail, call="go test ./c20"):
    ex = {"history": [], "call": call, "expected": "reference accepted; every exercised deviant rejected", "detail": detail, "state": "", "init": ""}
    ctx.divs.append({"prop": "C20", "sig": sig, "count": 1, "example": ex, "stage": "c20-suite", "module": "c20", "adapter": "fstest", "vh_args": [], "init": ""})


def c20_stages(ctx):
    vh = ctx.build()
    deviants = subprocess.run([vh, "c20-deviants"], capture_output=True, text=True, env=ENV).stdout.split()
    rnd = __import__("random").Random(ctx.seed)
    # (1) the suite itself: reference and the whole catalogue
    res, fired = c20_go_test(ctx)
    for ref in ("TestReference_mem", "TestReference_os"):
        if res.get(ref) != "pass":
            failing = sorted(t for t, v in res.items() if t.startswith(ref + "/") and v == "fail")[:3]
            c20_div(ctx, "c20 reference-rejected %s" % ref, "failing: %s" % failing)
    if res.get("TestDeviant/identity") != "pass":
        c20_div(ctx, "c20 identity-wrapper-rejected", "the wrapper without deviation must be accepted")
    detected, undetected, unexercised = [], [], []
    floor_lines = [l.strip() for l in open(os.path.join(VERIF, "lib", "c20_detected_floor.txt")) if l.strip() and not l.startswith("#")]
    floor_commit = [l.split(":", 1)[1].strip() for l in floor_lines if l.startswith("floor_commit:")][0]
    floor = set(l for l in floor_lines if not l.startswith("floor_commit:"))
    # the floor binds the suite, not the library: it applies when the suite's own files differ from the floor commit
    gd = subprocess.run(["git", "-C", REPO, "diff", "--quiet", floor_commit, "--", "fstest", "internal/assert"], capture_output=True)
    suite_changed = gd.returncode == 1
    if gd.returncode not in (0, 1):
        ctx.notes.append("the floor commit %s is unknown to the repository: the detection floor was not applied" % floor_commit[:10])
    for d in deviants:
        if d == "identity":
            continue
        r = res.get("TestDeviant/" + d)
        if fired.get(d, 0) == 0:
            unexercised.append(d)
            if d in floor and suite_changed:
                c20_div(ctx, "c20 no-longer-exercised %s" % d, "the suite rejected this deviant at the pinned commit (lib/c20_detected_floor.txt); now no scenario reaches the deviating sub-case, so the deviation passes unnoticed",
                        call="VERIF_C20_ONLY=%s go test -tags verif -run TestDeviant ./c20" % d)
        elif r == "fail":
            detected.append(d)
        else:
            undetected.append(d)
            c20_div(ctx, "c20 undetected %s" % d, "deviation fired %d times during the suite, which reported no failure" % fired.get(d, 0), call="VERIF_C20_ONLY=%s go test -tags verif -run TestDeviant ./c20" % d)
    lost = [d for d in unexercised if d in floor]
    if lost and not suite_changed:
        ctx.notes.append("no longer exercised although rejected at the floor commit, with fstest/ and internal/assert unchanged since (a library change): %s" % lost)
    nsub = sum(1 for t in res if t.count("/") >= 3)
    ctx.cov["stages"].append({"stage": "c20-suite", "deviants": len(deviants) - 1, "detected": len(detected), "undetected": undetected,
                              "not_exercised_by_the_suite": unexercised, "suite_subtests_run": nsub})
    ctx.cov["traces_validated_against_impl"] += len(deviants) + 2
    ctx.cov["samples"].append({"deviant": detected[0] if detected else None, "fired": fired.get(detected[0]) if detected else 0,
                               "failing_subtests": sorted(t for t, v in res.items() if detected and t.startswith("TestDeviant/" + detected[0] + "/") and v == "fail")[:4]})
    # (2) the catalogue is certified against the specification: every deviant must be an observable deviation from
    #     FSCore / Handles (TLC-generated transitions replayed on the wrapper), the identity wrapper must conform
    fs_devs = [d for d in deviants if d.split("-")[0] in FS_LEVEL and d != "identity"]
    file_devs = [d for d in deviants if d not in fs_devs and d != "identity" and not d.startswith("readdir")]
    if ctx.tier == "quick":
        fs_devs = rnd.sample(fs_devs, 8)
        file_devs = rnd.sample(file_devs, 4)
    before = len(ctx.divs)
    sums = graph_stage(ctx, "c20-certify-fs", "MC_FSCore.tla", "FSCore.fault2.cfg", "fscore", ["dev=identity"] + ["dev=" + d for d in fs_devs],
                       ["--names", "a,b", "--depth", "3", "--attr", "state:DEV,err:DEV,errpath:DEV,wf:DEV,list:DEV"], workers=8)
    sums += graph_stage(ctx, "c20-certify-file", "MC_Handles.tla", "Handles.quick.cfg", "handles", ["dev=identity"] + ["dev=" + d for d in file_devs],
                        ["--attr", "io:DEV,closed:DEV"], workers=8, sample=0.15)
    ctx.cov["exhaustive"] = False
    for s in sums:
        n = sum(d["count"] for d in (s.get("divs") or []) if d["prop"] == "DEV")
        name = s["adapter"].split("=", 1)[1]
        known_base = {"readfile readfile/dir exp=EISDIR got=ok", "readbytes read/directory exp=FAIL got=EOF"}
        real = [d for d in (s.get("divs") or []) if d["prop"] == "DEV" and d["sig"].split(" ", 1)[1] not in known_base]
        if name == "identity" and real:
            ctx.inconclusive.append("the identity wrapper diverges from the specification: %s" % real[0]["sig"])
        if name != "identity" and not real and not s["unbuildable_states"]:
            ctx.notes.append("deviant %s shows no divergence from the specification in the bounded model (not certified as observable there)" % name)
    ctx.divs = [d for d in ctx.divs if d["prop"] != "DEV"]
    # (3) verdict stability: the reference must be accepted under shuffling, repetition and different parallelism
    if ctx.tier != "quick":
        res2, _ = c20_go_test(ctx, ["-run", "TestReference", "-count=3", "-shuffle=on", "-cpu", "1,16"], label="stability")
        bad = sorted(t for t, v in res2.items() if v == "fail")[:3]
        if bad:
            c20_div(ctx, "c20 reference-verdict-unstable", "failing under -count=3 -shuffle=on -cpu 1,16: %s" % bad)


CHECKS["C20"] = c20_stages
