# Stages for NameGate.tla (C04): invalid names are refused by every file system and change nothing.
NAMEGATE_ADAPTERS = ["mem", "kvplain", "nomkdirall", "oshp", "mnt:a", "subview:d", "cache", "tar", "tarcut"]


def namegate_stages(ctx, adapters=None, attr=None):
    cfgs = ["NameGate.t2.cfg"] if ctx.tier == "quick" else ["NameGate.t2.cfg", "NameGate.t3.cfg"]
    for cfg in cfgs:
        graph_stage(ctx, "namegate-" + cfg.split(".")[1], "MC_NameGate.tla", cfg, "namegate", adapters or NAMEGATE_ADAPTERS,
                    ["--names", "a,f,a\\b,c:d,..x", "--depth", "2" if "t2" in cfg else "3"] + (["--attr", attr] if attr else []), workers=4, frontier=True)


CHECKS["C04"] = namegate_stages
