# Mechanism B, sequential: the repository's own conformance scenarios run on the real file systems behind a logging
# wrapper (harness/tracefs); TLC replays the log through FSCore!Eval and Handles!Eval (spec/FSTrace.tla) and reports
# every record that the specification does not explain.


def trace_stage(ctx, fs_prop="C01", h_prop="C02", closed_prop="C17", sub_prop="C07"):
    work = tempfile.mkdtemp(prefix="trace-", dir=ctx.scratch)
    data = os.path.join(work, "TraceData.tla")
    reps = 1 if ctx.tier == "quick" else 3
    cmd = ["go", "test", "-tags", "verif", "-count=%d" % reps, "-v", "./tracefs"]
    r = subprocess.run(cmd, cwd=os.path.join(VERIF, "harness"), env=dict(ENV, VERIF_TRACE_OUT=data), capture_output=True, text=True, timeout=1200)
    m = re.search(r"TRACES traces=(\d+) events=(\d+) dropped_concurrent=(\d+)", r.stdout)
    if not m or not os.path.exists(data):
        raise Inconclusive("trace recording failed:\n" + r.stdout[-1500:] + r.stderr[-1500:])
    suite_failed = sorted(set(re.findall(r"^\s*--- FAIL: (\S+)", r.stdout, re.M)))[:5]
    sd = ctx.specdir()
    for f in ("FSTrace.tla", "FSTrace.cfg", "FSCore.tla", "Handles.tla"):
        shutil.copy(os.path.join(sd, f), work)
    tlc = subprocess.run(["timeout", "1500", "tlc", "-workers", "1", "-metadir", os.path.join(work, "meta"), "-config", "FSTrace.cfg", "FSTrace.tla"],
                         cwd=work, capture_output=True, text=True, env=ENV)
    gen, dist, ok = parse_tlc_tail(tlc.stdout)
    if not ok:
        raise Inconclusive("trace stage: TLC did not complete cleanly on the recorded log:\n" + tlc.stdout[-2000:])
    # id -> (name, base) and the text of every record, for the report
    lines = open(data).read().split("\n")
    recs = [l.strip().rstrip(",") for l in lines if l.strip().startswith("[k |->")]
    info = {}
    for l in recs:
        mm = re.match(r'\[k \|-> "reset", id \|-> (\d+), name \|-> "(.*)", base \|-> "(\w+)"\]', l)
        if mm:
            info[int(mm.group(1))] = (mm.group(2), mm.group(3))
    rejects = re.findall(r'<<\s*"REJECT",\s*(\d+),\s*(\d+),\s*"(\w+)",\s*"([^"]*)",\s*"([^"]*)",\s*"expected",\s*"([^"]*)",\s*"observed",\s*"([^"]*)"\s*>>', tlc.stdout, re.S)
    branches = re.search(r'<<\s*"BRANCHES",\s*\{(.*?)\}\s*>>', tlc.stdout, re.S)
    nb = len(re.findall(r'"[^"]+"', branches.group(1))) if branches else 0
    ctx.cov["states"] += dist
    ctx.cov["transitions"] += gen
    ctx.cov["traces_validated_against_impl"] += int(m.group(1))
    ctx.cov["checker_cmd"].append(" ".join(cmd) + " ; tlc -config FSTrace.cfg FSTrace.tla")
    ctx.cov["stages"].append({"stage": "trace-fstest", "file_systems_traced": int(m.group(1)), "records_checked_by_tlc": int(m.group(2)),
                              "dropped_because_calls_overlapped": int(m.group(3)), "rejected_records": len(rejects), "spec_branches_taken": nb,
                              "bases": ["mem", "kvplain", "hackpadfs os.FS", "the os package (reference)", "Sub view of mem", "Sub of Sub of os.FS"], "suite_failures_seen": suite_failed})
    if len(ctx.cov["samples"]) < 4 and len(recs) > 12:
        ctx.cov["samples"].append({"trace": recs[0][:200], "records": [x[:160] for x in recs[1:6]], "verdict": "every record explained by FSCore!Eval / Handles!Eval"})
    ctx.cov["exhaustive"] = False
    # what the plain file systems themselves do differently from the specification is not the Sub view's doing
    plain = set((op, b, exp, got) for tid, idx, kind, op, b, exp, got in rejects if not info.get(int(tid), ("?", "?"))[1].startswith("sub"))
    # what the os package itself does differently from the specification is a specification error, also where hackpadfs os.FS shows it
    truth = set((op, b, exp, got) for tid, idx, kind, op, b, exp, got in rejects if info.get(int(tid), ("?", "?"))[1] == "rawos")
    for tid, idx, kind, op, b, exp, got in rejects:
        name, base = info.get(int(tid), ("?", "?"))
        if base.startswith("sub") and (op, b, exp, got) in plain:
            continue
        prop = fs_prop if kind == "fs" else (closed_prop if "/closed" in b else h_prop)
        if base == "rawos" or (base in ("os", "subos") and (op, b, exp, got) in truth):
            prop = "SPEC"
        elif base.startswith("sub"):
            prop = sub_prop   # the view of a directory behaves like a file system of its own
        rec = recs[int(idx) - 1] if int(idx) - 1 < len(recs) else ""
        # the history: the records of this file system up to the rejected one
        start = int(idx) - 1
        while start > 0 and not recs[start].startswith('[k |-> "reset"'):
            start -= 1
        ex = {"history": recs[start:int(idx) - 1][-12:], "call": rec, "expected": "%s (%s)" % (exp, b), "detail": "observed %s in %s" % (got, name), "state": "", "init": ""}
        ctx.divs.append({"prop": prop, "sig": "trace %s %s %s exp=%s got=%s" % (base, op, b, exp, got), "count": 1, "example": ex, "stage": "trace-fstest",
                         "module": "trace", "adapter": base, "vh_args": [], "init": "", "trace": {"name": name, "index": int(idx)}})
    shutil.rmtree(work, ignore_errors=True)


# one-line rendering of trace records in reports
_short_before_trace = short


def short(call):
    if not call.startswith("[k |-> "):
        return _short_before_trace(call)
    f = dict(re.findall(r'(\w+) \|-> ("[^"]*"|-?\d+|<<[^\]]*?>>)', call))
    if f.get("k") == '"fs"':
        m = re.search(r'op \|-> "(\w+)", p \|-> (<<.*?>>), q \|-> (<<.*?>>)', call)
        e = re.search(r'\], e \|-> "(\w+)"', call)
        return "%s(%s%s) => %s" % (m.group(1), m.group(2), "" if m.group(3) == "<< >>" else "," + m.group(3), e.group(1) if e else "?") if m else call[:120]
    if f.get("k") == '"h"':
        return "h%s.%s(n=%s,off=%s) => %s cnt=%s" % (f.get("h"), f.get("op", "").strip('"'), f.get("n"), f.get("off"), f.get("e", "").strip('"'), f.get("cnt"))
    return call[:120]
