# Stages for property C15: systematic schedule enumeration on the real in-memory file system (vh conc-explore),
# linearizability of every recorded history decided by TLC on Lin.tla (sequential oracle: FSCore), plus a
# free-running stress under the race detector.


def conc_sig2(o):
    """signature of a two-goroutine, one-operation-each history: start, operations, results"""
    th = o["program"]["threads"]
    ops = []
    for i, t in enumerate(th):
        op = t[0]
        s = op["op"] + "(" + op["p"] + ("," + op["q"] if op.get("q") else "") + ("," + "".join(map(str, op["d"])) if False else "") + ")"
        ops.append(s)
    res = [r.split(" => ", 1)[1].replace('"-"', "").strip() for r in o["results"]]
    return "conc2 %s %s => %s" % (o["program"]["start"], " || ".join(ops), " , ".join(res))


def kind_pairs(o):
    kinds = sorted(op["op"] for t in o["program"]["threads"] for op in t)
    return set((a, b) for i, a in enumerate(kinds) for b in kinds[i + 1:])


def conc_stage(ctx, name, tier, gate_blobs=False, max_schedules=400, txn_ops=False, only=None, txn_end=False, tagged=False):
    vh = ctx.build()
    sd = ctx.specdir()
    work = tempfile.mkdtemp(prefix="conc-", dir=ctx.scratch)
    cmd = [vh, "conc-explore", "--tier", tier, "--seed", str(ctx.seed), "--out", work, "--max-schedules", str(max_schedules)]
    cmd += ["--par", "8"]
    if gate_blobs:
        cmd.append("--gate-blobs")
    if txn_ops:
        cmd.append("--gate-txn-ops")
    if only:
        cmd += ["--only", only]
    if txn_end:
        cmd.append("--gate-txn-end")
    if tagged:
        cmd.append("--tagged")
    r = subprocess.run(cmd, capture_output=True, text=True, env=ENV, timeout=3000)
    if r.returncode != 0:
        raise Inconclusive("conc-explore failed: " + r.stdout[-500:] + r.stderr[-1500:])
    meta = json.load(open(os.path.join(work, "conc-meta.json")))
    for f in ("Lin.tla", "Lin.cfg", "FSCore.tla"):
        shutil.copy(os.path.join(sd, f), work)
    tlc = subprocess.run(["timeout", "3000", "tlc", "-workers", "8", "-metadir", os.path.join(work, "meta"), "-config", "Lin.cfg", "Lin.tla"],
                         cwd=work, capture_output=True, text=True, env=ENV)
    gen, dist, ok = parse_tlc_tail(tlc.stdout)
    if not ok:
        raise Inconclusive("stage %s: TLC on Lin.tla did not complete cleanly:\n%s" % (name, tlc.stdout[-1500:]))
    accepted = set(int(m) for m in re.findall(r'<<"ACCEPT", (\d+)>>', tlc.stdout))
    ctx.cov["states"] += dist
    ctx.cov["transitions"] += gen
    ctx.cov["traces_validated_against_impl"] += meta["schedules"]
    ctx.cov["checker_cmd"].append("vh " + " ".join(cmd[1:]) + " ; tlc -config Lin.cfg Lin.tla")
    st = {"stage": name, "programs": meta["programs"], "schedules_executed_on_real_code": meta["schedules"], "distinct_histories": meta["histories"],
          "histories_linearizable": len(accepted), "programs_truncated_at_max_schedules": meta["truncated_programs"], "gate_blobs": gate_blobs, "gate_txn_ops": txn_ops, "only_programs_with": only or "all"}
    ctx.cov["stages"].append(st)
    if meta["truncated_programs"]:
        ctx.cov["exhaustive"] = False
    known_pairs = ctx.__dict__.setdefault("conc_known_pairs", set())
    for o in meta["outcomes"]:
        if len(ctx.cov["samples"]) < 3 and not o["hang"] and o["history"] in accepted and len(o["schedule"]) > 5:
            ctx.cov["samples"].append({"program": o["program"], "schedule": o["schedule"], "steps": o["steps"], "results": o["results"], "verdict": "linearizable (TLC)"})
    rejected = [o for o in meta["outcomes"] if o["hang"] or o["history"] not in accepted]
    two = [o for o in rejected if len(o["program"]["threads"]) == 2 and all(len(t) == 1 for t in o["program"]["threads"])]
    rest = [o for o in rejected if o not in two]
    for o in two:
        if not o["hang"]:
            known_pairs |= kind_pairs(o)
    def add(o, sig):
        ex = {"history": ["%s" % s for s in o["steps"]], "call": json.dumps(o["program"]), "expected": "a sequential order of the operations reproducing results and final tree (FSCore)",
              "detail": "; ".join(o["results"]) + (" HANG" if o["hang"] else ""), "state": "", "init": ""}
        ctx.divs.append({"prop": "C15", "sig": sig, "count": 1, "example": ex, "stage": name, "module": "conc", "adapter": "mem",
                         "vh_args": [], "init": "", "conc": {"program": o["program"], "schedule": o["schedule"], "gate_blobs": gate_blobs, "gate_txn_ops": txn_ops, "gate_txn_end": txn_end}})
    for o in two:
        add(o, ("conc-hang " if o["hang"] else "") + conc_sig2(o))
    def prog_sig(o):
        th = [";".join(op["op"] + "(" + op["p"] + ("," + op["q"] if op.get("q") else "") + ")" for op in t) for t in o["program"]["threads"]]
        res = [r.split(" => ", 1)[1].replace('"-"', "").strip() for r in o["results"]]
        files = re.findall(r'<<([^>]*)>> :> \[k \|-> "file", perm \|-> -?\d+, mt \|-> "\*", d \|-> (<<[^>]*>>)\]', o.get("final", ""))
        fin = " ".join("%s=%s" % (p.replace('"', "").replace(", ", "/"), d.replace(" ", "")) for p, d in files)
        return "conc-prog %s %s => %s ; final %s" % (o["program"]["start"], " || ".join(th), " , ".join(res), fin)
    tagged = [o for o in rest if o["program"].get("tag")]
    rest = [o for o in rest if not o["program"].get("tag")]
    for o in tagged:
        # hand-picked programs: every rejected history is identified by itself
        add(o, ("conc-hang " if o["hang"] else "") + prog_sig(o))
    for o in rest:
        # programs beyond two single operations: attributed to the known non-atomic operation pairs they contain
        pairs = kind_pairs(o)
        kp = sorted(p for p in pairs if ("C15", "conc-pair %s||%s" % p) in load_known()[0])
        if o["hang"]:
            add(o, "conc-hang multi " + " ".join(sorted(set(op["op"] for t in o["program"]["threads"] for op in t))))
        elif kp:
            add(o, "conc-pair %s||%s" % kp[0])
        else:
            add(o, "conc-multi " + " ".join(sorted(set(op["op"] for t in o["program"]["threads"] for op in t))))
    shutil.rmtree(work, ignore_errors=True)


def race_stage(ctx, seconds):
    """free-running goroutines on one mem.FS under the race detector"""
    out = os.path.join(ctx.scratch, "vh-race")
    r = subprocess.run(["go", "build", "-race", "-tags", "verif", "-o", out, "./cmd/vh"], cwd=os.path.join(VERIF, "harness"), env=ENV, capture_output=True, text=True)
    if r.returncode != 0:
        raise Inconclusive("race build failed: " + r.stderr[-1500:])
    p = subprocess.run([out, "conc-stress", "--seconds", str(seconds), "--seed", str(ctx.seed)], capture_output=True, text=True, env=dict(ENV, GORACE="halt_on_error=0"), timeout=seconds * 10 + 120)
    ctx.cov["checker_cmd"].append("vh(-race) conc-stress --seconds %d" % seconds)
    races = p.stderr.count("WARNING: DATA RACE")
    m = re.search(r"runs=(\d+) panics=(\d+) hangs=(\d+)", p.stdout)
    st = {"stage": "race-stress", "seconds": seconds, "data_races": races, "output": p.stdout.strip()[-300:]}
    ctx.cov["stages"].append(st)
    if m:
        ctx.cov["traces_validated_against_impl"] += int(m.group(1))
    if races or (m and (int(m.group(2)) or int(m.group(3)))) or p.returncode != 0:
        first = re.search(r"WARNING: DATA RACE.*?(?=\n\n|\Z)", p.stderr, re.S)
        frames = re.findall(r"\n\s+(github.com/hack-pad/hackpadfs[^\s(]+)", first.group(0) if first else "")
        where = frames[0] if frames else "unknown"
        ex = {"history": [], "call": "conc-stress", "expected": "no data race, panic or hang", "detail": (first.group(0)[:1500] if first else p.stdout[-500:] + p.stderr[-1000:]), "state": "", "init": ""}
        ctx.divs.append({"prop": "C15", "sig": "race-stress %s" % ("data-race " + where if races else "panic-or-hang"), "count": max(races, 1), "example": ex,
                         "stage": "race-stress", "module": "conc", "adapter": "mem", "vh_args": [], "init": ""})


def kvhandle_stage(ctx):
    """spec/KVHandle.tla: keyvalue.FS at store-transaction grain. TLC enumerates every interleaving of the steps of eleven (thorough: thirteen)
    two-goroutine programs (and checks that a write-back only ever replaces the handle's own file); every complete behaviour is
    forced onto the real code through the controlled store's scheduling points and its results and final contents compared."""
    vh = ctx.build()
    sd = ctx.specdir()
    for prog in (("p1", "p2", "p3", "p4", "p5", "p6", "p8", "p9", "p10", "p12", "p13") if ctx.tier == "quick"
                 else ("p1", "p2", "p3", "p4", "p5", "p6", "p7", "p8", "p9", "p10", "p11", "p12", "p13")):
        meta = tempfile.mkdtemp(prefix="meta-", dir=ctx.scratch)
        out = os.path.join(ctx.scratch, "kvhandle-%s.json" % prog)
        tlc_cmd = ["timeout", "900", "tlc", "-workers", "4", "-metadir", meta, "-config", "KVHandle.%s.cfg" % prog, "MC_KVHandle.tla"]
        vh_cmd = [vh, "kvhandle", "--prog", prog, "--out", out]
        ctx.cov["checker_cmd"].append(" ".join(tlc_cmd[2:]) + " | vh " + " ".join(vh_cmd[1:]))
        tlc = subprocess.Popen(tlc_cmd, cwd=sd, stdout=subprocess.PIPE, stderr=subprocess.STDOUT, env=ENV)
        h = subprocess.Popen(vh_cmd, stdin=tlc.stdout, stdout=subprocess.PIPE, stderr=subprocess.PIPE, env=ENV, text=True)
        tlc.stdout.close()
        try:
            _, herr = h.communicate(timeout=1500)
        except subprocess.TimeoutExpired:
            h.kill()
            tlc.kill()
            raise Inconclusive("stage kvhandle-%s: the replay did not finish" % prog)
        tlc.wait()
        shutil.rmtree(meta, ignore_errors=True)
        if not os.path.exists(out):
            raise Inconclusive("stage kvhandle-%s: no summary (exit %s): %s" % (prog, h.returncode, herr[-1500:]))
        sm = json.load(open(out))
        gen, dist, ok = parse_tlc_tail(sm.get("tlc_tail", ""))
        if not ok:
            raise Inconclusive("stage kvhandle-%s: TLC did not complete cleanly (an invariant of the step model failed or it did not finish):\n%s" % (prog, sm.get("tlc_tail", "")[-1500:]))
        if sm["schedules"] == 0:
            raise Inconclusive("stage kvhandle-%s: TLC printed no behaviour" % prog)
        ctx.cov["states"] += dist
        ctx.cov["transitions"] += gen
        ctx.cov["traces_validated_against_impl"] += sm["schedules"]
        ctx.cov["stages"].append({"stage": "kvhandle-" + prog, "program": sm["text"], "model_states": dist, "behaviours_of_the_model": sm["schedules"],
                                  "behaviours_forced_onto_the_real_code": sm["schedules"], "steps_forced": sm["steps"], "disagreements": sm["counts"]})
        for cls, n in sorted(sm["counts"].items()):
            e = sm["examples"][cls]
            ex = {"history": ["t%d" % t for t in (e.get("schedule") or [])], "call": json.dumps(e["program"]), "expected": "results and final contents of the step model KVHandle.tla under this schedule",
                  "detail": e["detail"][:1500], "state": "", "init": ""}
            # drift: the code stops at other scheduling points than the model (another transaction structure): the model is wrong for this code
            prop = "SPEC" if cls in ("drift", "unparsable") else "C15"
            ctx.divs.append({"prop": prop, "sig": "kvhandle %s %s %s" % (prog, sm["text"].split(": ", 1)[-1], cls), "count": n, "example": ex, "stage": "kvhandle-" + prog,
                             "module": "conc", "adapter": "mem", "vh_args": [], "init": "",
                             "conc": {"program": e["program"], "schedule": e.get("schedule") or [], "gate_blobs": False, "gate_txn_ops": False, "gate_txn_end": True}})


def c15_stages(ctx):
    if ctx.tier == "quick":
        conc_stage(ctx, "conc-2x1", "quick")
        conc_stage(ctx, "conc-2x1-txnops", "quick", txn_ops=True, only="rename")
        # the hand-picked programs with the return of every Commit as a further scheduling point
        conc_stage(ctx, "conc-tagged-txnend", "quick", txn_end=True, tagged=True, max_schedules=3000)
        kvhandle_stage(ctx)
        race_stage(ctx, 5)
    else:
        conc_stage(ctx, "conc-2x1", "quick")
        conc_stage(ctx, "conc-2x1-txnops", "quick", txn_ops=True, max_schedules=600)
        conc_stage(ctx, "conc-tagged-txnend", "quick", txn_end=True, tagged=True, max_schedules=20000)
        kvhandle_stage(ctx)
        conc_stage(ctx, "conc-2x1-blobs", "quick", gate_blobs=True, max_schedules=1500)
        conc_stage(ctx, "conc-3x1-2x2", "thorough", max_schedules=600)
        race_stage(ctx, 30)


CHECKS["C15"] = c15_stages
