# Stages for the read-only cache (Cache.tla): C10 transparency, C11 failed / concurrent fills.
CACHE_STORES = ["mem", "min", "wb"]   # full mem.FS | Open+OpenFile+Mkdir only | the latter committing on Close


def c10_stages(ctx):
    ads = ["cache=%s" % s for s in CACHE_STORES]
    t = "quick" if ctx.tier == "quick" else "thorough"
    # open / stat / list / read-all / close sequences over every name, all RetainData policies, both source kinds
    graph_stage(ctx, "cache-opens", "MC_Cache.tla", "Cache.opens.%s.cfg" % t, "cache", ads, workers=8, vh_workers=8)
    if ctx.tier == "quick":  # (the thorough opens configuration contains the depth-3 trees)
        graph_stage(ctx, "cache-deep", "MC_Cache.tla", "Cache.deep.quick.cfg", "cache", ads, workers=8, vh_workers=8)
    # handle I/O: reads around the copy-buffer size, seeks, paged directory reads, two interleaved handles
    graph_stage(ctx, "cache-io", "MC_Cache.tla", "Cache.io.%s.cfg" % t, "cache", ads, workers=8, vh_workers=8)


def c11_stages(ctx):
    t = "quick" if ctx.tier == "quick" else "thorough"
    # a failure at every primitive call of every Open of an uncached file, then two fault-free re-opens
    sums = graph_stage(ctx, "cache-faults", "MC_Cache.tla", "Cache.fault.%s.cfg" % t, "cache", ["cachefault=%s" % s for s in CACHE_STORES],
                       workers=4, vh_workers=8)
    runs = sum((s.get("extra") or {}).get("fault_runs", 0) for s in sums)
    if runs == 0:
        ctx.inconclusive.append("stage cache-faults: no Open was executed with an injected failure")
    ctx.notes.append("cache-faults: %d Opens executed with an injected failure (each followed by two fault-free re-opens)" % runs)
    # concurrent first opens of one name, released gate by gate (few replay workers: blocked openers are
    # recognised in stop-the-world stack snapshots, which serialise the workers)
    if ctx.tier == "quick":
        plan = [("conc2", ["conc=mem", "conc=min"]), ("conc3", ["conc=mem"])]
    else:
        plan = [("conc2", ["conc=mem", "conc=min", "conc=wb"]), ("conc3", ["conc=mem"]), ("conc3", ["conc=min"]),
                ("conc4", ["conc=mem"]), ("conc4", ["conc=min"])]
    forced = 0
    for name, ads in plan:
      # the store with Remove cleans a failed fill up in a gated step of its own; the others have nothing to gate there
      for group, suffix in (([a for a in ads if a == "conc=mem"], ""), ([a for a in ads if a != "conc=mem"], ".norm")):
        if not group:
            continue
        sums = graph_stage(ctx, "cache-%s-%s" % (name, group[0].split("=")[1]), "MC_Cache.tla", "Cache.%s.%s%s.cfg" % (name, t, suffix), "cacheconc", group,
                           workers=2, vh_workers=4)
        for s in sums:
            x = s.get("extra") or {}
            forced += x.get("steps_forced", 0)
            if x.get("max_concurrent_copies_seen", 0) > 1:
                ctx.notes.append("stage %s/%s: %d copies of one name were in progress at the same time" % (name, s["adapter"], x["max_concurrent_copies_seen"]))
    ctx.notes.append("cache-conc: %d opener steps forced through the gates" % forced)
    # free-running openers on fresh caches (every round's first opens of a name are truly parallel): fewer rounds in the quick tier
    cache_stress_stage(ctx, rounds=120 if ctx.tier == "quick" else 400)


def cache_stress_stage(ctx, rounds=400):
    """free-running goroutines on one cache.ReadOnlyFS in a -race build (no gates): every successful Open serves the complete bytes,
    at most one copy of a name at a time; a data race report is a violation of its own"""
    out = os.path.join(ctx.scratch, "vh-race")
    r = subprocess.run(["go", "build", "-race", "-tags", "verif", "-o", out, "./cmd/vh"], cwd=os.path.join(VERIF, "harness"), env=ENV, capture_output=True, text=True)
    if r.returncode != 0:
        ctx.notes.append("cache-stress: no -race build in this environment (%s); stage skipped" % (r.stderr.strip().splitlines() or ["?"])[-1][:120])
        return
    total = 0
    stuck = False
    for store in ("mem", "min"):
        for faults in (False, True):
            if stuck:
                continue   # one stuck run is a verdict; the other variants would only wait out their limits
            cmd = [out, "cache-stress", "--seed", str(ctx.seed), "--rounds", str(rounds), "--store", store] + (["--faults"] if faults else [])
            ctx.cov["checker_cmd"].append("vh(-race) " + " ".join(cmd[1:]))
            ad = "stress=%s%s" % (store, "+faults" if faults else "")
            limit = 120 if rounds <= 150 else 600   # (a run takes a few seconds)
            try:
                p = subprocess.run(cmd, env=dict(ENV, GORACE="halt_on_error=0"), capture_output=True, text=True, timeout=limit)
            except subprocess.TimeoutExpired:
                # free-running openers that never return: the real code is stuck (a lost wake-up or a lock nobody releases)
                ctx.divs.append({"prop": ctx.prop, "sig": "%s open free-running hang" % ad, "count": 1, "stage": "cache-stress", "module": "cachestress", "adapter": ad,
                                 "vh_args": cmd[2:], "init": "", "example": {"history": [], "call": " ".join(cmd[1:]), "expected": "every Open returns",
                                                                             "detail": "the stress run did not finish within %d s (it takes seconds): openers are stuck" % limit}})
                stuck = True
                continue
            def div(sig, detail):
                ctx.divs.append({"prop": ctx.prop, "sig": "%s open free-running %s" % (ad, sig), "count": 1, "stage": "cache-stress", "module": "cachestress", "adapter": ad,
                                 "vh_args": cmd[2:], "init": "", "example": {"history": [], "call": " ".join(cmd[1:]), "expected": "every successful Open serves the complete bytes", "detail": detail}})
            if "WARNING: DATA RACE" in p.stderr:
                i = p.stderr.index("WARNING: DATA RACE")
                div("data-race", p.stderr[i:i + 1500])
            if "fatal error:" in p.stderr and "hackpadfs" in p.stderr:
                # the Go runtime stopped the process inside the library (e.g. "sync: unlock of unlocked mutex"): a crash of the real code
                i = p.stderr.index("fatal error:")
                div("fatal-error " + p.stderr[i + 13:i + 60].split("\n")[0].strip().replace(" ", "-"), p.stderr[i:i + 1500])
                continue
            try:
                res = json.loads(p.stdout.strip().splitlines()[-1])
            except Exception:
                ctx.inconclusive.append("stage cache-stress/%s: no summary (exit %s): %s" % (ad, p.returncode, p.stderr[-300:]))
                continue
            total += res["opens"]
            for cls, n in sorted(res["violations"].items()):
                div(cls, "x%d; %s" % (n, res["examples"].get(cls, "")))
            ctx.cov["stages"].append({"stage": "cache-stress", "adapter": ad, "rounds": res["rounds"], "opens": res["opens"], "errors_after_faults": res["errors"],
                                      "faults_fired": res["faults_injected"], "max_concurrent_copies_of_one_name": res["max_concurrent_copies_of_one_name"]})
    ctx.cov["traces_validated_against_impl"] += total
    ctx.notes.append("cache-stress: %d free-running Opens in a -race build" % total)


CHECKS.update({"C10": c10_stages, "C11": c11_stages})

# one-line rendering of Cache.tla calls in reports
_short_before_cache = short


def short(call):
    m = re.search(r'op \|-> "(open|stat|list|read|seek|readdir|hstat|close|step|fail)"', call)
    if not m or not re.search(r'\bwh \|-> ', call) or not re.search(r'\bname \|-> ', call):
        return _short_before_cache(call)   # Handles.tla calls have wh too, but no name
    f = dict(re.findall(r'(\w+) \|-> "?([^",\]]*)"?', call))
    op = m.group(1)
    if op == "open":
        return "h%s=Open(%s)" % (f["h"], f["name"])
    if op in ("stat", "list"):
        return "%s(%s)" % ({"stat": "Stat", "list": "ReadDir"}[op], f["name"])
    if op in ("read", "readdir"):
        return "h%s.%s(%s)" % (f["h"], {"read": "Read", "readdir": "ReadDir"}[op], f["n"])
    if op == "seek":
        return "h%s.Seek(%s,%s)" % (f["h"], f["off"], f["wh"])
    if op in ("step", "fail"):
        return "%s(T%s)" % (op, f["t"])
    return "h%s.%s()" % (f["h"], {"hstat": "Stat", "close": "Close"}[op])
