# Stages for the os.FS path mapping specification (OSPath.tla): property C09.


def c09_stages(ctx):
    cfg = "OSPath.quick.cfg" if ctx.tier == "quick" else "OSPath.thorough.cfg"
    # pure mapping functions: TLC enumerates FS configurations x names x OS paths with the required result
    graph_stage(ctx, "ospath-map", "MC_OSPath.tla", cfg, "ospath", ["ospath"], workers=8)
    # failing real system calls through os.FS rooted in a temp directory (0..2 nested Sub roots); oserr0: the same calls
    # on NewFS() itself, with no root at all until the first Sub
    graph_stage(ctx, "ospath-oserr", "MC_OSPath.tla", "OSPath.oserr.cfg", "ospath", ["oserr", "oserr0"], workers=4)


CHECKS.update({
    "C09": c09_stages,
})
