# Stages for tar.ReaderFS (Tar.tla: TarReq / TarImpl; PubSub.tla; BufferPool.tla): properties C12 and C13.
#
#   graph_stage(... "tarreq" ...)   one line per archive (SpecReq) / per stream fault (SpecCut, module "tarcut"): engine replay
#   tar_sched_stage                 the gate-level graph of TarImpl (SpecGate) forced onto a gated ReaderFS by `vh tar-sched`
#   tlc_only_stage                  model checking of the implementation-shaped models (safety, liveness, predictions)
#   tar_prims_stage                 the real pubsub / bufferPool under seeded stress (`vh tar-prims`)


def tar_variant(ctx):
    """Tar.tla describes tar/fs.go either as it is ("unrepaired", constant Fixed = FALSE) or with the proposed repairs of
    docs/tar-proposed-repair.diff applied ("repaired", Fixed = TRUE). spec/Tar.variant names the variant that matches /repo
    (VERIF_TAR_VARIANT overrides it); the cfg files are committed with Fixed = FALSE and rewritten in the scratch copy."""
    v = os.environ.get("VERIF_TAR_VARIANT") or open(os.path.join(VERIF, "spec", "Tar.variant")).read().strip()
    if v not in ("unrepaired", "repaired"):
        raise Inconclusive("spec/Tar.variant must be 'unrepaired' or 'repaired'")
    sd = ctx.specdir()
    if v == "repaired" and not getattr(ctx, "_tar_fixed", False):
        for f in glob.glob(os.path.join(sd, "Tar.*.cfg")):
            t = open(f).read().replace("Fixed = FALSE", "Fixed = TRUE")
            open(f, "w").write(t)
        ctx._tar_fixed = True
    ctx.notes.append("Tar.tla variant: %s (constant Fixed = %s)" % (v, "TRUE" if v == "repaired" else "FALSE"))
    return v


def _summaries_into_ctx(ctx, name, sums, vh_module, vh_args, dist, gen, exhaustive_states=True):
    ctx.cov["states"] += dist
    ctx.cov["transitions"] += max(gen, sums[0]["transitions"])
    for s in sums:
        st = {"stage": name, "adapter": s["adapter"], "model_states": s["states"], "model_transitions": s["transitions"],
              "replayed_on_real_code": s["replayed"], "state_changing": s["state_changing"], "skipped_out_of_bounds": s["skipped"],
              "unbuildable_states": s["unbuildable_states"], "sampled_fraction": s["sampled_fraction"],
              "branches_covered": len(s.get("branches") or {}), "wall_s": round(s["wall_s"], 1)}
        if s.get("extra"):
            st["extra"] = s["extra"]
        ctx.cov["stages"].append(st)
        ctx.cov["traces_validated_against_impl"] += s["replayed"]
        for b, n in (s.get("branches") or {}).items():
            ctx.cov["branches"][b] = ctx.cov["branches"].get(b, 0) + n
        if exhaustive_states and s["states"] != dist:
            ctx.inconclusive.append("stage %s/%s: harness saw %d state lines, TLC reports %d distinct states" % (name, s["adapter"], s["states"], dist))
        if s["unbuildable_states"]:
            ctx.inconclusive.append("stage %s/%s: %d model states could not be rebuilt on the real code: %s"
                                    % (name, s["adapter"], s["unbuildable_states"], (s.get("unbuildable_examples") or [""])[0][:300]))
        if s.get("parse_errors"):
            ctx.inconclusive.append("stage %s: %d unparsable TLC lines" % (name, s["parse_errors"]))
        for d in s.get("divs") or []:
            ctx.divs.append({"prop": d["prop"], "sig": d["sig"], "count": d["count"], "example": d["example"],
                             "stage": name, "module": vh_module, "adapter": s["adapter"], "vh_args": list(vh_args), "init": s.get("init", "")})
        for ex in (s.get("samples") or [])[:1]:
            if len(ctx.cov["samples"]) < 4:
                ctx.cov["samples"].append({"adapter": s["adapter"], "history": [short(h) for h in ex["history"]], "call": short(ex["call"]),
                                           "expected_by_spec": "one of the configurations the model predicts for this release", "observed": ex["detail"][:400]})


def tar_sched_stage(ctx, name, cfg, workers=8, vh_workers=8, sample=1.0, race_reps=0, budget=0, timeout=1500):
    """TLC prints the gate-level graph of TarImpl; vh tar-sched forces every transition onto a gated tar.ReaderFS."""
    vh = ctx.build()
    sd = ctx.specdir()
    meta = tempfile.mkdtemp(prefix="meta-", dir=ctx.scratch)
    out = os.path.join(ctx.scratch, "sum-%s.json" % name)
    tlc_cmd = ["timeout", str(timeout), "tlc", "-workers", str(workers), "-metadir", meta, "-config", cfg, "MC_Tar.tla"]
    vh_cmd = [vh, "tar-sched", "--out", out, "--seed", str(ctx.seed), "--sample", str(sample), "--workers", str(vh_workers),
              "--race-reps", str(race_reps)] + (["--budget", "%ds" % budget] if budget else [])
    ctx.cov["checker_cmd"].append(" ".join(tlc_cmd[2:]) + " | vh " + " ".join(vh_cmd[1:]))
    tlc = subprocess.Popen(tlc_cmd, cwd=sd, stdout=subprocess.PIPE, stderr=subprocess.STDOUT, env=ENV)
    h = subprocess.Popen(vh_cmd, stdin=tlc.stdout, stdout=subprocess.PIPE, stderr=subprocess.PIPE, env=ENV, text=True)
    tlc.stdout.close()
    try:
        hout, herr = h.communicate(timeout=timeout + 300)
    except subprocess.TimeoutExpired:
        h.kill()
        tlc.kill()
        hout, herr = h.communicate()
        raise Inconclusive("stage %s: vh tar-sched did not finish within %d s" % (name, timeout + 300))
    tlc.wait()
    shutil.rmtree(meta, ignore_errors=True)
    if not os.path.exists(out):
        raise Inconclusive("stage %s: vh tar-sched produced no summary (exit %s)\n%s" % (name, h.returncode, herr[-2000:]))
    sums = json.load(open(out))
    gen, dist, ok = parse_tlc_tail(sums[0].get("tlc_tail", ""))
    if not ok:
        raise Inconclusive("stage %s: TLC did not complete cleanly (exit %s):\n%s" % (name, tlc.returncode, sums[0].get("tlc_tail", "")[-1500:]))
    ex = sums[0].get("extra") or {}
    if sample < 1.0 or ex.get("states_not_replayed"):
        ctx.cov["exhaustive"] = False
        ctx.notes.append("stage %s: %d model states were not replayed (sample %.2f / time budget)" % (name, ex.get("states_not_replayed", 0), sample))
    if ex.get("states_behind_a_race_outcome_not_observed"):
        ctx.notes.append("stage %s: %d model states lie behind an outcome of a race between internal steps (no gate can force it) that the real code "
                         "did not take in any attempt; their transitions were not replayed" % (name, ex["states_behind_a_race_outcome_not_observed"]))
    _summaries_into_ctx(ctx, name, sums, "tarimpl", [], dist, gen)
    return sums


def tar_prims_stage(ctx, n):
    vh = ctx.build()
    out = os.path.join(ctx.scratch, "sum-prims.json")
    cmd = [vh, "tar-prims", "--n", str(n), "--seed", str(ctx.seed), "--out", out]
    ctx.cov["checker_cmd"].append("vh " + " ".join(cmd[1:]))
    r = subprocess.run(cmd, env=ENV, capture_output=True, text=True)
    if not os.path.exists(out):
        raise Inconclusive("tar-prims produced no summary (exit %s)\n%s" % (r.returncode, r.stderr[-1500:]))
    sums = json.load(open(out))
    ctx.cov["exhaustive"] = False
    _summaries_into_ctx(ctx, "tar-prims", sums, "tarprims", [], 0, 0, exhaustive_states=False)


def tlc_only_stage(ctx, name, mc_module, cfg, expect=None, workers=8, timeout=1500):
    """Model checking only. expect=None: TLC must finish without error. expect="<Invariant>": TLC must report exactly
    that invariant violated: a PREDICTION of the implementation-shaped model (recorded in the notes, never a verdict)."""
    sd = ctx.specdir()
    meta = tempfile.mkdtemp(prefix="meta-", dir=ctx.scratch)
    cmd = ["timeout", str(timeout), "tlc", "-workers", str(workers), "-metadir", meta, "-config", cfg, mc_module]
    ctx.cov["checker_cmd"].append(" ".join(cmd[2:]))
    t0 = time.time()
    r = subprocess.run(cmd, cwd=sd, env=ENV, capture_output=True, text=True)
    shutil.rmtree(meta, ignore_errors=True)
    outp = r.stdout + r.stderr
    gen, dist, ok = parse_tlc_tail(outp)
    st = {"stage": name, "adapter": "tlc", "model_states": dist, "model_transitions": gen, "replayed_on_real_code": 0, "wall_s": round(time.time() - t0, 1)}
    ctx.cov["stages"].append(st)
    ctx.cov["states"] += dist
    ctx.cov["transitions"] += gen
    if expect is None:
        if not ok:
            raise Inconclusive("stage %s: TLC reports an error in %s:\n%s" % (name, cfg, outp[-1500:]))
        return
    m = re.search(r"Invariant (\w+) is violated", outp)
    steps = len(re.findall(r"^State \d+:", outp, re.M))
    if m and m.group(1) == expect:
        st["predicted_violation"] = {"invariant": expect, "trace_steps": steps}
        ctx.notes.append("prediction (%s): TLC finds a %d-state behaviour of the implementation-shaped model that violates %s; "
                         "a verdict only where the harness reproduced it on the real code" % (cfg, steps, expect))
    else:
        ctx.notes.append("prediction (%s): TLC no longer finds a violation of %s on the model (the model still describes the unrepaired code; "
                         "the forced schedules above are what judges the real code)" % (cfg, expect))


REQ_ADAPTERS = ["tar:default", "tar:mem", "tar:min"]


def c12_stages(ctx):
    quick = ctx.tier == "quick"
    repaired = tar_variant(ctx) == "repaired"
    # TarReq: every archive over the entry alphabet, every order; free-running unpack x3 into three destinations
    graph_stage(ctx, "tarreq", "MC_Tar.tla", "Tar.req.quick.cfg" if quick else "Tar.req.thorough.cfg", "tarreq", REQ_ADAPTERS, workers=4, vh_workers=8)
    if not quick:
        graph_stage(ctx, "tarreq-four", "MC_Tar.tla", "Tar.req.four.cfg", "tarreq", REQ_ADAPTERS, workers=4, vh_workers=8)
    # more entries than the small-buffer pool holds; writers held until the pool is exhausted
    graph_stage(ctx, "tarreq-many", "MC_Tar.tla", "Tar.req.many.cfg", "tarreq", ["tar:poolgate"] + REQ_ADAPTERS, workers=2, vh_workers=4)
    # schedules, destination calls atomic (gates in a destination exposing only Open/OpenFile/Chmod/Mkdir)
    tar_sched_stage(ctx, "tarimpl-c12", "Tar.gate.c12.cfg" if quick else "Tar.gate.c12t.cfg")
    if not quick:
        # a file larger than the 4 MiB copy buffer (two copy chunks) next to background writers
        tar_sched_stage(ctx, "tarimpl-c12-big", "Tar.gate.c12big.cfg", workers=2, vh_workers=4)
    # an entry named ".." fails in a background writer: the reader's final select races (repeated from fresh instances)
    tar_sched_stage(ctx, "tarimpl-c12-escape", "Tar.gate.c12esc.cfg", workers=2, race_reps=400 if quick else 2000)
    # schedules at store-transaction granularity on the in-memory file system (what mem.FS is)
    graph_stage(ctx, "tarreq-memsched", "MC_Tar.tla", "Tar.req.sched.cfg" if quick else "Tar.req.sched3.cfg", "tarreq", ["tar:memsched"],
                ["--opt", "400" if quick else "250"], workers=2, vh_workers=1)
    for s in ctx.cov["stages"]:
        if s["stage"] == "tarreq-memsched" and (s.get("extra") or {}).get("archives_with_capped_exploration"):
            ctx.cov["exhaustive"] = False
            ctx.notes.append("tarreq-memsched: the depth-first enumeration of store-transaction schedules was capped for %d archives" % s["extra"]["archives_with_capped_exploration"])
    # the model itself: requirement invariants on every interleaving of the implementation-shaped model
    tlc_only_stage(ctx, "tarimpl-model", "MC_Tar.tla", "Tar.fine.clean.cfg")
    tlc_only_stage(ctx, "tarimpl-pred-escape", "MC_Tar.tla", "Tar.pred.esc.cfg", expect=None if repaired else "EscapingNameFails", workers=2)
    tlc_only_stage(ctx, "bufferpool-model", "MC_BufferPool.tla", "BufferPool.cfg", workers=4)


def c13_stages(ctx):
    quick = ctx.tier == "quick"
    repaired = tar_variant(ctx) == "repaired"
    # TarImpl gate graph: stream progress x writers x openers x {cut, reader error, cancel, destination fault}
    tar_sched_stage(ctx, "tarimpl-2x1", "Tar.gate.t2.cfg", race_reps=10 if quick else 40)
    if quick:
        tar_sched_stage(ctx, "tarimpl-3x1", "Tar.gate.t3.cfg", sample=0.12, race_reps=0)
    else:
        tar_sched_stage(ctx, "tarimpl-3x1", "Tar.gate.t3.cfg", race_reps=10)
        tar_sched_stage(ctx, "tarimpl-2x2", "Tar.gate.t2b.cfg", race_reps=5)
        tar_sched_stage(ctx, "tarimpl-2x3", "Tar.gate.more.cfg", race_reps=2)
        tar_sched_stage(ctx, "tarimpl-kinds", "Tar.gate.kinds.cfg", race_reps=10)
        tar_sched_stage(ctx, "tarimpl-3x2", "Tar.gate.t3b.cfg", race_reps=0)
        tar_sched_stage(ctx, "tarimpl-2x2-env2", "Tar.gate.env2.cfg", race_reps=0)
        tar_sched_stage(ctx, "tarimpl-4m", "Tar.gate.big.cfg", workers=2, vh_workers=4, race_reps=3)
    # every 512-byte block boundary of a fixed archive: EOF / reader error / corrupt header / cancel, 1..8 free-running openers
    # every destination write fails once the stream has ended (several background writers fail together): Done closes, the
    # failure is reported
    graph_stage(ctx, "tarreq-writefail", "MC_Tar.tla", "Tar.req.wf.cfg", "tarreq", ["tar:writefail"], ["--attr", "tar:C13"], workers=2, vh_workers=8)
    graph_stage(ctx, "tarcut", "MC_Tar.tla", "Tar.cut.std.cfg", "tarcut", ["tarcut"], ["--opt", "2" if quick else "12"], workers=2, vh_workers=8)
    tar_prims_stage(ctx, 400 if quick else 6000)
    # the models: liveness under weak fairness, lock/CAS-level primitives, and the predictions
    tlc_only_stage(ctx, "tarimpl-live", "MC_Tar.tla", "Tar.live.quick.cfg" if quick else "Tar.live.cfg")
    tlc_only_stage(ctx, "pubsub-model", "MC_PubSub.tla", "PubSub.quick.cfg" if quick else "PubSub.cfg", workers=4)
    tlc_only_stage(ctx, "bufferpool-model", "MC_BufferPool.tla", "BufferPool.cfg", workers=4)
    tlc_only_stage(ctx, "tarimpl-pred-cancel", "MC_Tar.tla", "Tar.pred.cancel.cfg", expect=None if repaired else "NoSuccessOnIncomplete", workers=2)
    tlc_only_stage(ctx, "tarimpl-pred-cut", "MC_Tar.tla", "Tar.pred.cut.cfg", expect=None if repaired else "AtomicVisibilityCut", workers=2)
    tlc_only_stage(ctx, "tarimpl-pred-fault", "MC_Tar.tla", "Tar.pred.fault.cfg", expect=None if repaired else "FaultSurfaces", workers=2)


CHECKS.update({"C12": c12_stages, "C13": c13_stages})

# one-line rendering of gate-level transitions and tar calls in reports
_short_before_tar = short


def short(call):
    m = re.match(r'\[a \|-> "(\w+)", ns \|-> .*, t \|-> (-?\d+)\]$', call, re.S)
    m2 = re.match(r'\[t \|-> (-?\d+), a \|-> "(\w+)", ns \|-> ', call)
    if m or m2:
        t = int(m.group(2) if m else m2.group(1))
        act = m.group(1) if m else m2.group(2)
        who = "env" if t < 0 else "reader" if t == 0 else "writer%d" % t if t < 10 else "opener%d" % (t - 10)
        return "%s:%s" % (who, act)
    m = re.match(r'\[(?:at \|-> (\d+), kind \|-> "(\w+)", op \|-> "cut"|op \|-> "cut", kind \|-> "(\w+)", at \|-> (\d+))\]', call)
    if m:
        return "cut(%s at block %s)" % (m.group(2) or m.group(3), m.group(1) or m.group(4))
    if call.startswith('[op |-> "unpack"]'):
        return "unpack"
    return _short_before_tar(call)
