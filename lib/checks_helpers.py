# Stages for property C08: package helpers on capability-masked file systems (FSCore.tla histories),
# plus enumeration of a failure at every primitive call a helper makes.
import random


def mask_kinds(ctx):
    vh = ctx.build()
    out = subprocess.run([vh, "mask-kinds"], capture_output=True, text=True, env=ENV).stdout.split()
    if not out:
        raise Inconclusive("no mask kinds")
    return out


def helpers_stages(ctx):
    kinds = mask_kinds(ctx)
    rnd = random.Random(ctx.seed)
    # always: nothing exposed / everything exposed of each group; plus a seeded sample
    fixed = [k for k in kinds if k.endswith(":none") or k.count("+") >= 5 or (k.startswith("misc:") and k.count("+") == 3)]
    # the subsets that force the MkdirAll and RemoveAll fallback algorithms with all their primitives available
    fixed += [k for k in ("dir:Mkdir+Stat+Remove+ReadDir", "dir:Mkdir+Stat", "file:OpenFile") if k in kinds]
    rest = [k for k in kinds if k not in fixed]
    if ctx.tier == "quick":
        masks = fixed + rnd.sample(rest, 10)
        faults = [k for k in fixed] + rnd.sample(rest, 6)
        os_masks = rnd.sample(kinds, 2)
    else:
        masks = kinds
        faults = kinds[::2]
        os_masks = fixed + rnd.sample(rest, 12)
    common = ["--names", "a,b", "--depth", "3"]
    graph_stage(ctx, "helpers-mask-mem", "MC_FSCore.tla", "FSCore.few.cfg", "fscore", ["mask=%s=mem" % k for k in masks], common, workers=8)
    graph_stage(ctx, "helpers-mask-os", "MC_FSCore.tla", "FSCore.few.cfg", "fscore", ["mask=%s=os" % k for k in os_masks],
                common + ["--attr", "errpath:-"], workers=8)
    graph_stage(ctx, "helpers-fault-mem", "MC_FSCore.tla", "FSCore.fault.cfg", "fscore", ["fault=%s=mem" % k for k in faults], common, workers=8)
    if len(masks) < len(kinds):
        ctx.cov["exhaustive"] = False
        ctx.notes.append("quick tier: %d of %d capability subsets (seeded sample + the extreme subsets of every group)" % (len(masks), len(kinds)))


    links_stage(ctx)
    # the Sub helper: native SubFS or the fallback view must give the same file system (twin run against the parent)
    graph_stage(ctx, "helpers-sub", "MC_FSCore.tla", "FSCore.quick.cfg", "fscore", ["sub=.=mem", "sub=d=mem", "sub=d=openonly", "sub=d=oshp"],
                ["--names", "a,b", "--depth", "3", "--attr", "sub:C08,err:-,state:-,wf:-,list:-"], workers=8)
    # ... and must refuse the names a native SubFS refuses (NameGate.tla through the fallback view, incl. Sub of the view itself)
    namegate_stages(ctx, adapters=["subview:d"], attr="state:C08,err:C08")


def links_stage(ctx):
    """Links.tla: trees with symbolic links on hackpadfs os.FS; Stat / Lstat / LstatOrStat / Symlink and the other helpers
    directly, under every subset of {Stat, Lstat, Symlink}, through the fallback Sub view and through mount.FS;
    the reference leg is the os package itself"""
    vh = ctx.build()
    kinds = subprocess.run([vh, "link-kinds"], capture_output=True, text=True, env=ENV).stdout.split()
    if not kinds:
        raise Inconclusive("no link kinds")
    cfg = "Links.quick.cfg" if ctx.tier == "quick" else "Links.thorough.cfg"
    graph_stage(ctx, "links", "MC_Links.tla", cfg, "links", kinds, [], workers=8)


CHECKS["C08"] = helpers_stages


def kvfault_stages(ctx):
    cfg = "FSCore.fault.cfg" if ctx.tier == "quick" else "FSCore.few.cfg"
    graph_stage(ctx, "kvfault", "MC_FSCore.tla", cfg, "fscore", ["kvfault=plain", "kvfault=txn"], ["--names", "a,b", "--depth", "3"], workers=8)
    # handle operations (Handles.tla) under store faults: every open handle must keep answering afterwards
    graph_stage(ctx, "kvfault-handles", "MC_Handles.tla", "Handles.quick.cfg", "handles", ["kvfault=plain", "kvfault=txn"], [],
                workers=8, sample=0.02 if ctx.tier == "quick" else 0.2)
    ctx.cov["exhaustive"] = False


CHECKS["C14"] = kvfault_stages
