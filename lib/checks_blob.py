# Stages for the blob specification (Blob.tla, property C19).
BLOB_ADAPTERS = ["bytes"]


def _blob_lost_coverage(ctx, sums):
    # calls the adapter refused to execute because calls of the same shape had already hung
    # HangBudget times (each hang costs the 5 s watchdog and leaks a goroutine): lost coverage, said so
    for s in sums:
        lost = {k: v for k, v in (s.get("extra") or {}).items() if k.startswith("not-executed-after-hang-budget") and v}
        if lost:
            ctx.cov["exhaustive"] = False
            ctx.cov.setdefault("not_executed", {}).update({"%s/%s" % (s["adapter"], k): v for k, v in lost.items()})
            ctx.notes.append("adapter %s: %d transitions in %d call shapes were not executed on the real code because calls of the same shape had hung repeatedly (details: coverage.not_executed)"
                             % (s["adapter"], sum(lost.values()), len(lost)))


def blob_wasm_stage(ctx, name, cfg, timeout=1500):
    """js/wasm leg: TLC's stream goes to a file and is replayed inside a wasm test binary under node
    (harness/blobad/idb_js_test.go) into indexeddb/idbblob.Blob; same engine, same adapter code."""
    sd = ctx.specdir()
    meta = tempfile.mkdtemp(prefix="meta-", dir=ctx.scratch)
    stream = os.path.join(ctx.scratch, "stream-%s.txt" % name)
    out = os.path.join(ctx.scratch, "sum-%s.json" % name)
    tlc_cmd = ["timeout", str(timeout), "tlc", "-workers", "8", "-metadir", meta, "-config", cfg, "MC_Blob.tla"]
    with open(stream, "wb") as f:
        r = subprocess.run(tlc_cmd, cwd=sd, stdout=f, stderr=subprocess.STDOUT, env=ENV)
    shutil.rmtree(meta, ignore_errors=True)
    goroot = subprocess.run(["go", "env", "GOROOT"], env=ENV, capture_output=True, text=True).stdout.strip()
    test_cmd = ["timeout", str(timeout), "go", "test", "-exec", os.path.join(goroot, "misc", "wasm", "go_js_wasm_exec"), "-count=1",
                "-timeout", "%ds" % timeout, "-run", "TestReplayStream", "./blobad"]
    env = dict(ENV, GOOS="js", GOARCH="wasm", VERIF_BLOB_STREAM=stream, VERIF_BLOB_OUT=out)
    ctx.cov["checker_cmd"].append(" ".join(tlc_cmd[2:]) + " > stream ; GOOS=js GOARCH=wasm " + " ".join(test_cmd[2:]))
    t = subprocess.run(test_cmd, cwd=os.path.join(VERIF, "harness"), env=env, capture_output=True, text=True)
    os.remove(stream)
    if not os.path.exists(out):
        raise Inconclusive("stage %s: the js/wasm replay produced no summary (exit %s)\n%s" % (name, t.returncode, (t.stdout + t.stderr)[-2000:]))
    sums = json.load(open(out))
    gen, dist, ok = parse_tlc_tail(sums[0].get("tlc_tail", ""))
    if not ok:
        raise Inconclusive("stage %s: TLC did not complete cleanly (exit %s)" % (name, r.returncode))
    ctx.cov["states"] += dist
    ctx.cov["transitions"] += gen
    for s in sums:
        ctx.cov["stages"].append({"stage": name, "adapter": s["adapter"], "model_states": s["states"], "model_transitions": s["transitions"],
                                  "replayed_on_real_code": s["replayed"], "state_changing": s["state_changing"], "skipped_out_of_bounds": s["skipped"],
                                  "unbuildable_states": s["unbuildable_states"], "sampled_fraction": s["sampled_fraction"],
                                  "branches_covered": len(s.get("branches") or {}), "wall_s": round(s["wall_s"], 1)})
        ctx.cov["traces_validated_against_impl"] += s["replayed"]
        for b, n in (s.get("branches") or {}).items():
            ctx.cov["branches"][b] = ctx.cov["branches"].get(b, 0) + n
        if s["states"] != dist:
            ctx.inconclusive.append("stage %s/%s: harness saw %d state lines, TLC reports %d distinct states" % (name, s["adapter"], s["states"], dist))
        if s["unbuildable_states"]:
            ctx.notes.append("stage %s/%s: %d model states could not be rebuilt on the real code (their transitions were not replayed): %s"
                             % (name, s["adapter"], s["unbuildable_states"], (s.get("unbuildable_examples") or [""])[0][:200]))
        if s.get("parse_errors"):
            ctx.inconclusive.append("stage %s: %d unparsable TLC lines" % (name, s["parse_errors"]))
        for d in s.get("divs") or []:
            ctx.divs.append({"prop": d["prop"], "sig": d["sig"], "count": d["count"], "example": d["example"],
                             "stage": name, "module": "blob", "adapter": s["adapter"], "vh_args": [], "init": s.get("init", "")})
    return sums


def blob_stages(ctx):
    # 8 TLC workers + 8 replay workers: every replayed call is handed to a watchdog goroutine, and with
    # the default 16 replay workers next to TLC the 16 cores are oversubscribed (measured: 74 s instead of 26 s)
    if ctx.tier == "quick":
        sums = graph_stage(ctx, "blob-quick", "MC_Blob.tla", "Blob.quick.cfg", "blob", BLOB_ADAPTERS, ["--workers", "8"], workers=8)
        # the typed-array implementation (js/wasm under node, about 20 s): the small configuration, in both tiers
        sums += blob_wasm_stage(ctx, "blob-idb", "Blob.wasm.cfg")
    else:
        sums = graph_stage(ctx, "blob-thorough", "MC_Blob.tla", "Blob.thorough.cfg", "blob", BLOB_ADAPTERS, ["--workers", "8"], workers=8)
        # the typed-array implementation, single-threaded under node: the small configuration
        sums += blob_wasm_stage(ctx, "blob-idb", "Blob.wasm.cfg")
    for d in ctx.divs:
        if d["module"] == "blob":
            d["vh_args"] = []   # --workers is an option of replay-graph only; replay files need none
    _blob_lost_coverage(ctx, sums)


CHECKS.update({
    "C19": blob_stages,
})
