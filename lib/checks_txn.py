# Stages for the transaction specifications (Txn.tla: one transaction at a time on txn:mem and
# txn:serial; TxnIso.tla: concurrent transactions of the in-memory store, forced interleavings).
TXN_ADAPTERS = ["txn:mem", "txn:serial"]


def txn_stages(ctx):
    if ctx.tier == "quick":
        # full alphabet (2 keys, 2 values, handlers ok/fail/abort), <= 4 calls per transaction
        graph_stage(ctx, "txn-full4", "MC_Txn.tla", "Txn.quick.cfg", "txn", TXN_ADAPTERS, workers=8)
        # <= 6 calls per transaction without handlers (2 keys, 1 value)
        graph_stage(ctx, "txn-long6", "MC_Txn.tla", "Txn.quick6.cfg", "txn", TXN_ADAPTERS, workers=8)
    else:
        graph_stage(ctx, "txn-full5", "MC_Txn.tla", "Txn.thorough.cfg", "txn", TXN_ADAPTERS, workers=8)
        graph_stage(ctx, "txn-long8", "MC_Txn.tla", "Txn.thorough8.cfg", "txn", TXN_ADAPTERS, workers=8)
        graph_stage(ctx, "txn-handlers6", "MC_Txn.tla", "Txn.thorough6.cfg", "txn", TXN_ADAPTERS, workers=8)


def txniso_stages(ctx):
    # 2 transactions x <= 3 calls, every interleaving of Begin / call / Abort / Commit steps
    graph_stage(ctx, "txniso-2x3", "MC_TxnIso.tla", "TxnIso.quick.cfg", "txniso", ["txniso:mem"], workers=4)
    # three transactions, one call each: an ended transaction that is ended again (Commit after Abort) while a second one holds the
    # store must not let a third one in
    graph_stage(ctx, "txniso-3x1", "MC_TxnIso.tla", "TxnIso.q3.cfg", "txniso", ["txniso:mem"], workers=4)
    if ctx.tier != "quick":
        # 3 transactions x <= 2 calls exhaustively, x <= 3 calls on a seeded 10 % of the states
        graph_stage(ctx, "txniso-3x2", "MC_TxnIso.tla", "TxnIso.thorough.cfg", "txniso", ["txniso:mem"], workers=4)
        graph_stage(ctx, "txniso-3x3", "MC_TxnIso.tla", "TxnIso.thorough3.cfg", "txniso", ["txniso:mem"], workers=4, sample=0.1)


def c18_stages(ctx):
    txn_stages(ctx)
    txniso_stages(ctx)


CHECKS.update({"C18": c18_stages})

# one-line rendering of Txn / TxnIso calls in reports (the default only knows path arguments)
_short_before_txn = short


def short(call):
    m = re.search(r'op \|-> "(begin|get|geth|set|seth|abort|commit|probe)"', call)
    if not m or not re.search(r'\bk \|-> "', call):
        return _short_before_txn(call)
    f = dict(re.findall(r'(\w+) \|-> "?([^",\]]*)"?', call))
    args = [f[x] for x in ("k", "v", "h") if f.get(x)]
    return ("T%s." % f["t"] if "t" in f else "") + m.group(1) + "(" + ",".join(args) + ")"
