# Stages for the namespace / handle / directory specifications (FSCore, Handles, DirH).
FS_ADAPTERS = ["mem", "kvplain", "osref"]


WALKS_Q = ["--walks", "150", "--walk-len", "300", "--walk-avoid", "readfile/dir"]
WALKS_T = ["--walks", "1500", "--walk-len", "400", "--walk-avoid", "readfile/dir"]


def _fa(ctx):
    """attribution of the FSCore stages for the property being checked (default: state C01, err C05, wf C03, list C16)"""
    a = getattr(ctx, "fscore_attr", None)
    return ["--attr", a] if a else []


def fscore_small(ctx):
    # call paths of depth 3 (operations two levels below a regular file, deep renames) and Chtimes / two permission values
    graph_stage(ctx, "fscore-deep", "MC_FSCore.tla", "FSCore.deep.cfg", "fscore", FS_ADAPTERS, ["--names", "a,b", "--depth", "4"] + _fa(ctx), workers=4)
    graph_stage(ctx, "fscore-times", "MC_FSCore.tla", "FSCore.times.cfg", "fscore", FS_ADAPTERS, ["--names", "a", "--depth", "3"] + _fa(ctx), workers=4)
    # Chtimes followed by renames of the directory / file it was applied to (two names, one time value): a move keeps the time
    graph_stage(ctx, "fscore-times2", "MC_FSCore.tla", "FSCore.times2.cfg", "fscore", FS_ADAPTERS, ["--names", "a,b", "--depth", "3"] + _fa(ctx), workers=4)
    # names that are string prefixes of each other ("a", "ab"): only whole elements count
    graph_stage(ctx, "fscore-prefix", "MC_FSCore.tla", "FSCore.prefix.cfg", "fscore", FS_ADAPTERS, ["--names", "a,ab", "--depth", "3"] + _fa(ctx), workers=4)
    # names containing pattern characters ("a[b]" next to "ab", "a*" next to "ab"): names are never patterns
    graph_stage(ctx, "fscore-glob", "MC_FSCore.tla", "FSCore.glob.cfg", "fscore", FS_ADAPTERS, ["--names", "a[b],ab", "--depth", "3"] + _fa(ctx), workers=4)
    graph_stage(ctx, "fscore-star", "MC_FSCore.tla", "FSCore.star.cfg", "fscore", FS_ADAPTERS, ["--names", "a*,ab", "--depth", "3"] + _fa(ctx), workers=4)
    fscore_dotname(ctx)


def fscore_dotname(ctx):
    # a name that begins with a dot is a name like any other (listed, stat-able, removable), also directly below the root
    graph_stage(ctx, "fscore-dotname", "MC_FSCore.tla", "FSCore.dotname.cfg", "fscore", FS_ADAPTERS, ["--names", ".a,a", "--depth", "3"] + _fa(ctx), workers=4)


def fscore_stages(ctx):
    fscore_small(ctx)
    if ctx.tier == "quick":
        graph_stage(ctx, "fscore-quick", "MC_FSCore.tla", "FSCore.quick.cfg", "fscore", FS_ADAPTERS, ["--names", "a,b", "--depth", "3"] + WALKS_Q + _fa(ctx))
    else:
        graph_stage(ctx, "fscore-quick", "MC_FSCore.tla", "FSCore.quick.cfg", "fscore", FS_ADAPTERS, ["--names", "a,b", "--depth", "3"] + WALKS_T + _fa(ctx))
        graph_stage(ctx, "fscore-deep", "MC_FSCore.tla", "FSCore.thorough.cfg", "fscore", FS_ADAPTERS, ["--names", "a,b", "--depth", "4"] + _fa(ctx), workers=12)
        graph_stage(ctx, "fscore-wide", "MC_FSCore.tla", "FSCore.thorough2.cfg", "fscore", FS_ADAPTERS, ["--names", "a,b", "--depth", "3"] + _fa(ctx), workers=12)


def c03_stages(ctx):
    fscore_stages(ctx)
    # root-touching calls (Remove/Rename/RemoveAll of "."): only the well-formedness invariant is judged there
    graph_stage(ctx, "fscore-root", "MC_FSCore.tla", "FSCore.root.cfg", "fscore", ["mem", "kvplain"],
                ["--names", "a,b", "--depth", "3", "--attr", "state:-,err:-,wf:C03,list:C16"])


def handles_stages(ctx):
    cfg = "Handles.quick.cfg" if ctx.tier == "quick" else "Handles.thorough.cfg"
    walks = ["--walks", "150" if ctx.tier == "quick" else "1500", "--walk-len", "300"]
    # oshp: handles of the library's os.FS (thin wrappers of *os.File), judged against the same model as mem / kvplain
    graph_stage(ctx, "handles", "MC_Handles.tla", cfg, "handles", list(FS_ADAPTERS) + ["oshp"], walks, workers=8)


DIRH_ALL = ("mem", "kvplain", "osref", "oshp", "mntat", "mntbelow", "sub", "cache", "tar")


def dirh_stages(ctx, adapters=DIRH_ALL):
    ks = [0, 3] if ctx.tier == "quick" else [0, 3, 5]
    for k in ks:
        graph_stage(ctx, "dirh-k%d" % k, "MC_DirH.tla", "DirH.k%d.cfg" % k, "dirh", list(adapters), workers=4)


def c02_stages(ctx):
    handles_stages(ctx)
    dirh_stages(ctx)
    trace_stage(ctx)  # lib/checks_trace.py: recorded executions of the conformance scenarios against FSCore + Handles


def c01_stages(ctx):
    # C01 compares the data ReadDir returns and the tree after every step with os: a listing that disagrees with Stat, or a
    # tree that is not well-formed, is a difference from os (whose tree always is), so both aspects are judged for C01 here
    ctx.fscore_attr = "list:C01,wf:C01"
    fscore_stages(ctx)
    trace_stage(ctx)


def c16_stages(ctx):
    dirh_stages(ctx)
    # the listed directory has a name that begins with a dot (".d"): directly below the root of an archive, a mount table, a
    # cache or a view it is a name like any other
    graph_stage(ctx, "dirh-dot", "MC_DirH.tla", "DirH.k3.cfg", "dirh", [a + ".dot" for a in DIRH_ALL], workers=4)
    fscore_dotname(ctx)
    graph_stage(ctx, "fscore-quick", "MC_FSCore.tla", "FSCore.quick.cfg", "fscore", FS_ADAPTERS, ["--names", "a,b", "--depth", "3"])


SUB_SPEC = ["sub=d=mem", "sub=d/e=kvplain", "sub=d=sub=e=mem", "sub=d=oshp", "sub=d=sub=.=oshp", "sub=d=mntat", "sub=.=mem", "sub=.=sub=d=mem", "sub=d/a=mem"]   # state follows FSCore inside the view
SUB_TWIN = ["sub=d=openonly", "sub=d=mntabove", "sub=d/e=mntnested", "sub=d=mntatnested", "sub=dx=mntsibling"]                                              # twin comparison only


def sub_stages(ctx, wf="-", deep=True):
    # deep: the thorough FSCore configuration through the views is C07's own thorough tier; C03 and C05 judge one aspect of the
    # Sub stages (well-formedness, error paths) and keep the quick configuration there in both tiers
    cfgs = [("FSCore.quick.cfg", "3")] if ctx.tier == "quick" or not deep else [("FSCore.quick.cfg", "3"), ("FSCore.thorough.cfg", "4")]
    for cfg, depth in cfgs:
        graph_stage(ctx, "sub-spec-" + cfg.split(".")[1], "MC_FSCore.tla", cfg, "fscore", SUB_SPEC,
                    ["--names", "a,b", "--depth", depth, "--attr", "wf:" + wf], workers=8)
        graph_stage(ctx, "sub-twin-" + cfg.split(".")[1], "MC_FSCore.tla", cfg, "fscore", SUB_TWIN,
                    ["--names", "a,b", "--depth", depth, "--attr", "err:-,wf:" + wf], workers=8)


def c03_all(ctx):
    c03_stages(ctx)
    # no operation may terminate having made an entry unreachable, also when the store fails underneath it
    kvfault_stages(ctx)
    mount_stages(ctx)
    sub_stages(ctx, wf="C03", deep=False)


def c05_all(ctx):
    fscore_stages(ctx)
    mount_stages(ctx)
    sub_stages(ctx, deep=False)
    links_stage(ctx)  # lib/checks_helpers.py: error type and path fields of Symlink / Lstat failures
    # failing system calls through os.FS with no root at all and under 1..3 Sub roots: the caller's names in every error
    graph_stage(ctx, "ospath-oserr", "MC_OSPath.tla", "OSPath.oserr.cfg", "ospath", ["oserr", "oserr0"], ["--attr", "map:C05,err:C05"], workers=4)


def c07_stages(ctx):
    sub_stages(ctx)
    # names that are no paths (.., a/../.., trailing slash ...) through a view and as the directory of a nested Sub: refused, nothing reached
    namegate_stages(ctx, adapters=["subview:d"], attr="state:C07,err:C07")
    trace_stage(ctx)  # recorded executions incl. Sub views of mem and of os.FS, judged as file systems of their own


CHECKS.update({
    "C07": c07_stages,
    "C02": c02_stages,
    "C16": c16_stages,
    "C17": c02_stages,
    "C01": c01_stages,
    "C03": c03_all,
    "C05": c05_all,
})




def mount_stages(ctx, attr=None, with_add=False):
    cfg = "Mount.quick.cfg" if ctx.tier == "quick" else "Mount.thorough.cfg"
    args = ["--names", "a,ab,b,f", "--depth", "4"]
    if attr:
        args += ["--attr", attr]
    graph_stage(ctx, "mount", "MC_Mount.tla", cfg, "mount", ["mountmem"], args, workers=8, frontier=True)
    if ctx.tier != "quick":
        # two steps from every layout with at most one mount point (107 165 states): a seeded tenth of them
        graph_stage(ctx, "mount-2steps", "MC_Mount.tla", "Mount.steps2.cfg", "mount", ["mountmem"], args, workers=8, frontier=True, sample=0.1)
    if with_add:
        mountadd_stages(ctx)
        if ctx.tier != "quick":
            # beyond C06's quantifier (it does not range over faults): every cross-mount Rename re-run with each primitive call of a
            # constituent file system failing; what is seen is reported in the notes, never as a verdict
            graph_stage(ctx, "mount-rename-faults", "MC_Mount.tla", "Mount.quick.cfg", "mount", ["mountfault"], ["--names", "a,ab,b,f", "--depth", "4"], workers=8, frontier=True)
            info = sorted(set(d["sig"].split(" ", 2)[2] for d in ctx.divs if d["prop"] == "INFO"))
            # the stage exists for the fault enumeration only: what mount.FS does without faults is judged on "mountmem"
            ctx.divs = [d for d in ctx.divs if d["prop"] != "INFO" and d.get("adapter") != "mountfault"]
            if info:
                ctx.notes.append("informational (faults are outside C06): a cross-mount Rename interrupted by a failing primitive call can fail half done: " + "; ".join(info))


def mountadd_stages(ctx):
    """MountAdd.tla: concurrent AddMount, every step forced through the hook points of mount.FS.addMount"""
    cfgs = ["aaa", "aab", "nest", "afile", "bmissing"] + ([] if ctx.tier == "quick" else ["nest4"])
    for c in cfgs:
        graph_stage(ctx, "mountadd-" + c, "MC_MountAdd.tla", "MountAdd.%s.cfg" % c, "mountadd", ["mountadd"], [], workers=4, vh_workers=8)
    # every AddMount returns under every fair schedule (4 goroutines, nested points)
    tlc_only_stage(ctx, "mountadd-live", "MC_MountAdd.tla", "MountAdd.live.cfg", workers=4)


CHECKS["C06"] = lambda ctx: mount_stages(ctx, with_add=True)
