#!/usr/bin/env python3
"""seedverify.py <dir with patch.diff, demo file, meta.json> <package-dir> <go test -run pattern>
Independent confirmation in a scratch worktree: unchanged tree: baseline tests pass, demo passes; changed tree: builds,
baseline tests pass (same set as BASELINE.json), demo fails. Prints a verdict line and stores it in meta.json."""
import json, os, shutil, subprocess, sys, tempfile, glob
d, pkg, pat = os.path.abspath(sys.argv[1]), sys.argv[2], sys.argv[3]
env = dict(os.environ, GOFLAGS="-mod=mod", GOPROXY="off", GOSUMDB="off", GOTOOLCHAIN="local")
wt = tempfile.mkdtemp(prefix="sv-", dir="/tmp")
os.rmdir(wt)
subprocess.run(["git", "-C", "/repo", "worktree", "add", "-q", "--detach", wt, "HEAD"], check=True)
base = json.load(open("/root/.vp/BASELINE.json"))["stable_pass"]
def suite():
    p = subprocess.run(["go", "test", "-mod=mod", "-json", "-vet=off", "-count=1", "./..."], cwd=wt, env=env, capture_output=True, text=True)
    res = {}
    for line in p.stdout.splitlines():
        try:
            e = json.loads(line)
        except Exception:
            continue
        if e.get("Action") in ("pass", "fail", "skip") and e.get("Test"):
            res[e["Package"] + "::" + e["Test"]] = e["Action"]
    missing = [t for t in base if res.get(t) != "pass"]
    # the tar package has a wall-clock budget of 50 ms per case: under load it fails spuriously; such tests get three more tries
    flaky = [t for t in missing if "/tar::TestNewTarFromFS" in t]
    for _ in range(3):
        if not flaky:
            break
        p = subprocess.run(["go", "test", "-mod=mod", "-json", "-vet=off", "-count=1", "-run", "TestNewTarFromFS", "./tar/"], cwd=wt, env=env, capture_output=True, text=True)
        for line in p.stdout.splitlines():
            try:
                e = json.loads(line)
            except Exception:
                continue
            if e.get("Action") == "pass" and e.get("Test"):
                k = e["Package"] + "::" + e["Test"]
                if k in flaky:
                    flaky.remove(k)
                    missing.remove(k)
    return missing
def demo():
    demos = [f for f in glob.glob(os.path.join(d, "*")) if f.endswith(".go")]
    for f in demos:
        shutil.copy(f, os.path.join(wt, pkg, os.path.basename(f) if f.endswith("_test.go") else os.path.basename(f).replace(".go", "_test.go")))
    p = subprocess.run(["go", "test", "-mod=mod", "-vet=off", "-count=1", "-run", pat, "./" + pkg + "/"], cwd=wt, env=env, capture_output=True, text=True, errors="replace")
    for f in demos:
        os.remove(os.path.join(wt, pkg, os.path.basename(f) if f.endswith("_test.go") else os.path.basename(f).replace(".go", "_test.go")))
    return p.returncode, (p.stdout + p.stderr)[-600:]
out = {}
try:
    out["base_suite_missing"] = suite()[:5]
    out["base_demo_exit"], _ = demo()
    r = subprocess.run(["git", "-C", wt, "apply", os.path.join(d, "patch.diff")], capture_output=True, text=True)
    out["patch_applies"] = r.returncode == 0
    b = subprocess.run(["go", "build", "./..."], cwd=wt, env=env, capture_output=True, text=True)
    out["builds"] = b.returncode == 0
    out["mut_suite_missing"] = suite()[:5]
    out["mut_demo_exit"], out["mut_demo_tail"] = demo()
finally:
    subprocess.run(["git", "-C", "/repo", "worktree", "remove", "--force", wt])
ok = (not out["base_suite_missing"] and out["base_demo_exit"] == 0 and out.get("patch_applies") and out.get("builds")
      and not out["mut_suite_missing"] and out["mut_demo_exit"] != 0)
out["confirmed"] = bool(ok)
meta = json.load(open(os.path.join(d, "meta.json")))
meta["verified_by_me"] = out
json.dump(meta, open(os.path.join(d, "meta.json"), "w"), indent=1)
print("CONFIRMED" if ok else "NOT-CONFIRMED", json.dumps({k: v for k, v in out.items() if k != "mut_demo_tail"}))
