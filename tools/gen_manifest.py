#!/usr/bin/env python3
"""Regenerates MANIFEST.json from the table below (single source of truth for the interface)."""
import json, os, subprocess
V = os.path.dirname(os.path.dirname(os.path.abspath(__file__)))
props = [json.loads(l) for l in open(os.path.join(V, "properties.jsonl"))]
GOENV = "GOFLAGS=-mod=mod GOPROXY=off GOSUMDB=off GOTOOLCHAIN=local"

# id -> (technique, level text, level note, design ref)
CLAIMED = {
 "C01": ("TLC-generated transition relation of FSCore.tla replayed into mem.FS / keyvalue.FS(plain store), spec cross-validated against the os package",
         "Bounded model checking of the namespace specification (FSCore.tla: os semantics on an abstract tree) with exhaustive conformance replay: every transition TLC finds (every reachable tree x every call of the alphabet incl. all 48 OpenFile flag sets) is executed on the real mem.FS and on keyvalue.FS over a plain store, comparing result and the full closure projection after every call; the same transitions are replayed into the Go os package so the specification itself is continuously validated against the ground truth the property names.",
         "Assumes bounded alphabets generalise (2 names, depth 2-3, 1-2 perms, 2 contents); histories beyond TLC's BFS-shortest paths are sampled by the simulation stage only; state no public call reveals is invisible.", "DESIGN.md §6 C01"),
 "C03": ("TLC-generated transitions of FSCore.tla (incl. root-touching calls) replayed on mem/kvplain; well-formedness invariant evaluated on the closure projection after every step",
         "The WF invariant (root is a directory; every stat-able path has a listed directory parent; listing, Stat and Open agree; no duplicates) is an invariant of the TLA+ model (checked by TLC in every state and on every successor) and is evaluated on the real file systems after every replayed transition, successful or failed, over the full closure of candidate paths rather than a listing walk.",
         "Closure is bounded by the model's name alphabet and depth+1; termination is observed through a per-call watchdog.", "DESIGN.md §6 C03"),
 "C05": ("TLC-generated failing transitions of FSCore.tla replayed on every layer; error type, sentinel and path fields compared with the spec's (os-validated) expectation",
         "Every failing transition of the bounded model (each operation x each failure branch of the specification) is executed on the real code and the error's concrete type, its errors.Is class and its path fields are compared with what FSCore.tla prescribes; the prescription is validated against the os package on the reference leg.",
         "Op strings are not compared; OTHER-class errors (no sentinel in os) only need to be non-nil.", "DESIGN.md §6 C05"),
 "C02": ("TLC-generated transition relation of Handles.tla (os.File semantics, 2 handles on one file, all flag classes) and DirH.tla replayed into real handles of mem.FS / keyvalue.FS; spec cross-validated against *os.File",
         "Bounded model checking of the handle specification with exhaustive conformance replay: every interleaving TLC finds of Open/Read/ReadAt/Write/WriteAt/Seek/Truncate/Stat/Close on two handles of one file (every access mode x append x truncate, buffer lengths 0..N, offsets -1..len+1, invalid whence) is executed on the real handles; returned bytes, counts, offsets of every open handle and the file contents (fresh ReadFile) are compared after every call, and the same transitions run against *os.File. TLC itself checks the property's clauses (read-only never writes, EOF rule, zero-filled gaps, failing calls change nothing) on every successor.",
         "File length <= 2 (quick) / 3 (thorough), byte alphabet {0,1}; a third handle and longer files only through the thorough configuration; EOF timing tolerance as io.Reader allows.", "DESIGN.md §6 C02"),
 "C16": ("TLC-generated transition relation of DirH.tla (paged directory handles, by-name listings) replayed on every file system kind; page partition and Stat agreement checked by the harness",
         "Every sequence of page sizes TLC enumerates (from {-1,0,1,2,3,N+1,10^6}, two independent handles, rewind, close) on directories with 0, 3 and 5 children is replayed on the real directory handles; each page must contain the model's number of entries, entries across pages must partition the children, io.EOF exactly when nothing remains, kinds and Info agree with Stat; by-name listings must be sorted and complete. The os package is replayed as reference.",
         "Directories mutated between pages are excluded (as in the property); internal batch sizes beyond 5 children are covered only by the thorough tier's large-directory stage.", "DESIGN.md §6 C16"),
 "C17": ("TLC-generated transition relation of Handles.tla / DirH.tla incl. Close, calls after Close, Remove/Rename while handles are open, replayed on real handles",
         "Every call of the handle alphabet on closed handles in every reachable model state, every interleaving of two handles (independence: a call on one never moves or invalidates the other, checked by TLC on the model and by offset projection on the code), and every history mixing Remove/Rename of the name with I/O on handles opened before it, then probing both names; ErrClosed is required exactly where os.File returns it (validated on the reference leg).",
         "Zero-length transfers on closed handles are not required to fail (os.File itself returns (0,nil)); Sync/Chmod only required to fail after Close.", "DESIGN.md §6 C17"),
}

checks = []
for p in props:
    pid = p["id"]
    if pid not in CLAIMED:
        continue
    tech, text, note, ref = CLAIMED[pid]
    checks.append({
        "property_id": pid,
        "quick_cmd": "./check %s quick" % pid,
        "thorough_cmd": "./check %s thorough" % pid,
        "evidence_file": "/verif/evidence/%s.json" % pid,
        "replay_cmd_template": "./check replay {path}",
        "engine": "tlc+vh",
        "level_claimed": {"category": "model_checking", "text": text, "design_ref": ref},
        "level_note": note,
        "technique": tech,
    })
na = [{"property_id": p["id"], "reason": "check under construction in this build round: specification module and conformance adapter not finished yet (see DESIGN.md §10 build order); not claimed until its check runs green on the unchanged tree"}
      for p in props if p["id"] not in CLAIMED]
hooks_commits = []
try:
    out = subprocess.run(["git", "-C", "/repo", "log", "--format=%H %s"], capture_output=True, text=True).stdout
    hooks_commits = [l.split()[0] for l in out.splitlines() if " verif-hook:" in l]
except Exception:
    pass
m = {
 "version": 1,
 "setup_cmd": "cd /verif/harness && %s go build -tags verif -o /dev/null ./cmd/vh && cd /verif/spec && for f in MC_*.tla; do tla-sany $f >/dev/null || exit 1; done" % GOENV,
 "hooks": {"guard": "verif", "enable": "go build -tags verif (the harness module replaces github.com/hack-pad/hackpadfs with /repo and is built with -tags verif on every check run)",
           "baseline_off_cmd": "cd /repo && go test -mod=mod -json -vet=off -count=1 -timeout 25m ./...",
           "source_commits": hooks_commits, "add_only": True},
 "engines": [{"name": "tlc+vh", "path": "/verif/check", "serves_properties": [c["property_id"] for c in checks],
              "kind_free_text": "TLA+ specifications under /verif/spec model-checked by TLC; TLC prints its transition relation, the Go harness /verif/harness (cmd/vh) replays every transition on the real code and compares result + projected state; python driver /verif/check orchestrates, matches KNOWN_FINDINGS.txt and writes evidence"}],
 "checks": checks,
 "not_applicable": na,
 "notes": "Exit codes: 0 held, 1 VIOLATION, 2 INCONCLUSIVE (tooling/spec problem, never a violation). KNOWN_FINDINGS.txt lists recorded genuine defects and fixed: entries.",
}
json.dump(m, open(os.path.join(V, "MANIFEST.json"), "w"), indent=1)
print("claimed:", [c["property_id"] for c in checks], "not_applicable:", len(na))
