#!/usr/bin/env python3
"""Regenerates MANIFEST.json from the table below (single source of truth for the interface)."""
import json, os, subprocess
V = os.path.dirname(os.path.dirname(os.path.abspath(__file__)))
props = [json.loads(l) for l in open(os.path.join(V, "properties.jsonl"))]
GOENV = "GOFLAGS=-mod=mod GOPROXY=off GOSUMDB=off GOTOOLCHAIN=local"

# lib/claims/*.json: id -> [technique, level text, level note, design ref]
CLAIMED = {}
import glob
for f in sorted(glob.glob(os.path.join(V, "lib", "claims", "*.json"))):
    for k, v in json.load(open(f)).items():
        CLAIMED[k] = tuple(v)

checks = []
for p in props:
    pid = p["id"]
    if pid not in CLAIMED:
        continue
    tech, text, note, ref = CLAIMED[pid]
    checks.append({
        "property_id": pid,
        "quick_cmd": "./check %s quick" % pid,
        "thorough_cmd": "./check %s thorough" % pid,
        "evidence_file": "/verif/evidence/%s.json" % pid,
        "replay_cmd_template": "./check replay {path}",
        "engine": "tlc+vh",
        "level_claimed": {"category": "model_checking", "text": text, "design_ref": ref},
        "level_note": note,
        "technique": tech,
    })
na = [{"property_id": p["id"], "reason": "check under construction in this build round: specification module and conformance adapter not finished yet (see DESIGN.md §10 build order); not claimed until its check runs green on the unchanged tree"}
      for p in props if p["id"] not in CLAIMED]
hooks_commits = []
try:
    out = subprocess.run(["git", "-C", "/repo", "log", "--format=%H %s"], capture_output=True, text=True).stdout
    hooks_commits = [l.split()[0] for l in out.splitlines() if " verif-hook:" in l]
except Exception:
    pass
m = {
 "version": 1,
 "setup_cmd": "cd /verif/harness && %s go build -tags verif -o /dev/null ./cmd/vh && cd /verif/spec && for f in MC_*.tla; do tla-sany $f >/dev/null || exit 1; done" % GOENV,
 "hooks": {"guard": "verif", "enable": "go build -tags verif (the harness module replaces github.com/hack-pad/hackpadfs with /repo and is built with -tags verif on every check run)",
           "baseline_off_cmd": "cd /repo && go test -mod=mod -json -vet=off -count=1 -timeout 25m ./...",
           "source_commits": hooks_commits, "add_only": True},
 "engines": [{"name": "tlc+vh", "path": "/verif/check", "serves_properties": [c["property_id"] for c in checks],
              "kind_free_text": "TLA+ specifications under /verif/spec model-checked by TLC; TLC prints its transition relation, the Go harness /verif/harness (cmd/vh) replays every transition on the real code and compares result + projected state; python driver /verif/check orchestrates, matches KNOWN_FINDINGS.txt and writes evidence"}],
 "checks": checks,
 "not_applicable": na,
 "notes": "Exit codes: 0 held, 1 VIOLATION, 2 INCONCLUSIVE (tooling/spec problem, never a violation). KNOWN_FINDINGS.txt lists recorded genuine defects and fixed: entries.",
}
json.dump(m, open(os.path.join(V, "MANIFEST.json"), "w"), indent=1)
print("claimed:", [c["property_id"] for c in checks], "not_applicable:", len(na))
