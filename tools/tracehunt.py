#!/usr/bin/env python3
"""tracehunt.py <seed>... : runs only the recorded-execution stage (FSTrace) for the given seeds and prints the rejections."""
import runpy, sys, os
ns = runpy.run_path(os.path.join(os.path.dirname(os.path.dirname(os.path.abspath(__file__))), "check"), run_name="chk")
for seed in sys.argv[1:]:
    os.environ["VERIF_SEED"] = seed
    ns["ENV"]["VERIF_SEED"] = seed
    ctx = ns["Ctx"]("C02", "quick", int(seed))
    try:
        ns["trace_stage"](ctx)
        st = [s for s in ctx.cov["stages"] if s["stage"] == "trace-fstest"][0]
        print("seed", seed, "records", st["records_checked_by_tlc"], "rejected", st["rejected_records"])
        for d in ctx.divs:
            print("   ", d["prop"], d["sig"], "|", d["example"]["detail"][:80])
    finally:
        ctx.cleanup()
