#!/usr/bin/env python3
"""Writes seeded/SUMMARY.md from the meta.json files."""
import json, glob, os
V = os.path.dirname(os.path.dirname(os.path.abspath(__file__)))
rows = []
for d in sorted(glob.glob(os.path.join(V, "seeded", "*", "meta.json"))):
    m = json.load(open(d))
    name = os.path.basename(os.path.dirname(d))
    conf = m.get("verified_by_me", {}).get("confirmed")
    caught = []
    for k, v in (m.get("checks") or {}).items():
        if v.get("violations"):
            sig = (v.get("signatures") or [""])[0].replace("signature: ", "")
            caught.append("%s (%d sig.; e.g. %s)" % (k, v["violations"], sig[:90]))
    missed = [k for k, v in (m.get("checks") or {}).items() if not v.get("violations")]
    rows.append((name, m.get("property"), (m.get("summary") or "")[:160].replace("|", "/"), (m.get("needs") or "")[:140].replace("|", "/"),
                 "yes" if conf else "NO", "; ".join(caught) or "-", ", ".join(missed) or "-", ((m.get("strengthened") or "") + ((" [applies up to /repo commit %s: a later fix: commit rewrote the same lines]" % m["applies_up_to_commit"]) if m.get("applies_up_to_commit") else "")).replace("|", "/")))
out = ["# Seeded property-breaking changes", "",
       "Each change was produced by a fresh sub-agent that saw only the property text and a scratch worktree of /repo; it compiles, passes the",
       "repository's whole test suite, and comes with a demonstration that fails with it and passes without it (re-confirmed by `tools/seedverify.py`).",
       "`tools/seedeval.py` applies the patch to a scratch worktree of /repo and runs the named checks against it (VERIF_REPO). Ten early changes no longer",
       "apply to /repo HEAD because later `fix:` commits rewrote the same lines; the commit each of them applies to is noted in the last column.", "",
       "| change | property | what it does | needs | confirmed | caught by | not caught by | strengthening |", "|---|---|---|---|---|---|---|---|"]
for r in rows:
    out.append("| " + " | ".join(r) + " |")
open(os.path.join(V, "seeded", "SUMMARY.md"), "w").write("\n".join(out) + "\n")
print(len(rows), "changes")
