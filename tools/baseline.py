#!/usr/bin/env python3
"""Run the repository's baseline test suite (guard off unless --tags given) and compare with BASELINE.json stable_pass."""
import json, subprocess, sys, os
tags = []
if len(sys.argv) > 1 and sys.argv[1] == "--tags":
    tags = ["-tags", sys.argv[2]]
env = dict(os.environ, GOFLAGS="-mod=mod", GOPROXY="off", GOSUMDB="off", GOTOOLCHAIN="local")
p = subprocess.run(["go", "test", "-mod=mod", "-json", "-vet=off", "-count=1", "-timeout", "25m"] + tags + ["./..."], cwd=os.environ.get("VERIF_REPO", "/repo"), env=env, capture_output=True, text=True)
res = {}
for line in p.stdout.splitlines():
    try:
        e = json.loads(line)
    except Exception:
        continue
    if e.get("Action") in ("pass", "fail", "skip") and e.get("Test"):
        res[e["Package"] + "::" + e["Test"]] = e["Action"]
base = json.load(open("/root/.vp/BASELINE.json")) if os.path.exists("/root/.vp/BASELINE.json") else None
fails = [k for k, v in res.items() if v == "fail"]
print("tests: %d pass, %d fail, %d skip" % (sum(v == "pass" for v in res.values()), len(fails), sum(v == "skip" for v in res.values())))
bad = []
if base:
    for t in base["stable_pass"]:
        if res.get(t) != "pass":
            bad.append((t, res.get(t)))
    print("baseline stable_pass: %d, not passing now: %d" % (len(base["stable_pass"]), len(bad)))
for t in fails[:20]:
    print("FAIL", t)
for t, v in bad[:20]:
    print("BASELINE-MISS", t, v)
sys.exit(1 if (fails or bad or p.returncode != 0) else 0)
