#!/usr/bin/env python3
"""seedeval.py <seeded-dir> [--props C01,C05] [--tier quick]
Applies /verif/seeded/<id>/patch.diff to a scratch worktree of /repo, runs the named checks against it (VERIF_REPO) and records in meta.json which checks reported a VIOLATION."""
import json, os, subprocess, sys, re
d = os.path.abspath(sys.argv[1])
meta = json.load(open(os.path.join(d, "meta.json")))
props = [meta["property"]]
tier = "quick"
if "--props" in sys.argv:
    props = sys.argv[sys.argv.index("--props") + 1].split(",")
if "--tier" in sys.argv:
    tier = sys.argv[sys.argv.index("--tier") + 1]
# the change is applied to a scratch worktree, never to /repo itself; the checks are pointed at it through VERIF_REPO
import tempfile
wt = tempfile.mkdtemp(prefix="seedeval-", dir="/tmp")
os.rmdir(wt)
subprocess.run(["git", "-C", "/repo", "worktree", "add", "-q", "--detach", wt, "HEAD"], check=True)
results = meta.setdefault("checks", {})
try:
    r = subprocess.run(["git", "-C", wt, "apply", os.path.join(d, "patch.diff")], capture_output=True, text=True)
    if r.returncode != 0:
        print("patch does not apply:", r.stderr)
        sys.exit(2)
    for p in props:
        out = subprocess.run([os.path.join("/verif", "check"), p, tier], capture_output=True, text=True, cwd="/verif", env=dict(os.environ, VERIF_REPO=wt))
        viol = [l for l in out.stdout.splitlines() if l.startswith("VIOLATION")]
        sigs = [l.strip() for l in out.stdout.splitlines() if l.strip().startswith("signature:")]
        results["%s/%s" % (p, tier)] = {"exit": out.returncode, "violations": len(viol), "signatures": sigs[:6],
                                        "inconclusive": [l for l in out.stdout.splitlines() if l.startswith("INCONCLUSIVE")][:3]}
        print(p, tier, "exit", out.returncode, "violations", len(viol), sigs[:3])
finally:
    subprocess.run(["git", "-C", "/repo", "worktree", "remove", "--force", wt])
json.dump(meta, open(os.path.join(d, "meta.json"), "w"), indent=1)
