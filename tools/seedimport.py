#!/usr/bin/env python3
"""seedimport.py <PROP> <dir with out/<k>/{patch.diff,demo_test.go,meta.json}> : copies each change to seeded/<PROP>-<n>, finds the
demo's package directory and -run pattern in its header comment, confirms it (seedverify.py) and runs the property's quick check
against it (seedeval.py)."""
import glob, os, re, shutil, subprocess, sys
V = os.path.dirname(os.path.dirname(os.path.abspath(__file__)))
prop, src = sys.argv[1], sys.argv[2]
existing = [int(re.search(r"-(\d+)$", d).group(1)) for d in glob.glob(os.path.join(V, "seeded", prop + "-*"))]
n = max(existing + [0])
for k in sorted(os.listdir(os.path.join(src, "out"))):
    d = os.path.join(src, "out", k)
    if not os.path.exists(os.path.join(d, "patch.diff")):
        continue
    n += 1
    dst = os.path.join(V, "seeded", "%s-%d" % (prop, n))
    shutil.copytree(d, dst)
    demo = [f for f in os.listdir(dst) if f.endswith("_test.go")]
    text = open(os.path.join(dst, demo[0])).read() if demo else ""
    m = re.search(r"go test[^\n]*?-run\s+'?\"?([^\s'\"]+)'?\"?\s+(\./\S*|\.)", text)
    pat, pkg = (m.group(1), m.group(2).lstrip("./") or ".") if m else ("TestSeedDemo", ".")
    pkg = pkg.rstrip("/") or "."
    v = subprocess.run([os.path.join(V, "tools", "seedverify.py"), dst, pkg, pat], capture_output=True, text=True).stdout
    e = subprocess.run([os.path.join(V, "tools", "seedeval.py"), dst, "--props", prop], capture_output=True, text=True).stdout
    print("%s-%d [%s %s] %s | %s" % (prop, n, pkg, pat, v[:10].strip(), e.strip()[:260]))
    sys.stdout.flush()
