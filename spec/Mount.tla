-------------------------------- MODULE Mount --------------------------------
(***************************************************************************)
(* Requirement specification of mount.FS (property C06, and C03/C05/C16     *)
(* through a mount composition): a table of mount points over constituent   *)
(* file systems, each of which behaves as FSCore prescribes.                *)
(*                                                                         *)
(*   Route(p) = the file system mounted at the longest mount point that     *)
(*              equals p or is a whole-element prefix of p (root FS if none) *)
(*   an operation at p has exactly the effect and result of the same        *)
(*   operation applied to Route(p).fs at the remainder path, and touches no *)
(*   other file system.                                                     *)
(***************************************************************************)
EXTENDS Integers, Sequences, FiniteSets, TLC
SX == INSTANCE SequencesExt

\* MaxDepth only sizes FSCore's own call alphabet, which this module does not use: keep it 0 in configs,
\* TLC evaluates the instantiated constant definitions eagerly.
CONSTANTS Names, MaxDepth, Perms, Datas, Times, RootOps, MaxTreeDepth, MaxNodes, FlagSets,
          Points,      \* candidate mount points (paths); each has its own file-system id
          BadPoints,   \* paths at which AddMount must fail (file, missing, root)
          MaxMounts,   \* layouts: all subsets of Points of at most this size
          MaxSteps,    \* exploration depth from each layout
          OpPaths,     \* paths used by single-name operations
          RenPaths     \* paths used by Rename

VARIABLE st   \* [fss : FsId -> tree, mounts : Path -> FsId, steps : Nat]

F == INSTANCE FSCore WITH tree <- st

-----------------------------------------------------------------------------
(* the constituent file systems: 0 is the root FS, Points[i] gets id i *)
PointSeq  == SX!SetToSeq(Points)
IdOf(p)   == CHOOSE i \in 1..Len(PointSeq) : PointSeq[i] = p
BadId     == 99

\* every file system starts with the same directory skeleton (so that every candidate point is
\* an existing directory wherever it is looked up) and files whose contents identify the FS
Dir(perm)      == F!Node("dir", perm, "*", << >>)
File(perm, d)  == F!Node("file", perm, "*", d)
Fixture(id) ==
  (<< >> :> F!RootNode) @@ (<<"a">> :> Dir(493)) @@ (<<"ab">> :> Dir(493)) @@ (<<"b">> :> Dir(493))
  @@ (<<"a", "a">> :> Dir(448)) @@ (<<"a", "ab">> :> Dir(493)) @@ (<<"a", "b">> :> Dir(493)) @@ (<<"a", "a", "b">> :> Dir(493))
  @@ (<<"f">> :> File(420, <<id>>)) @@ (<<"a", "f">> :> File(384, <<id, id>>))

Layout(S) == [fss    |-> [i \in {0} \cup { IdOf(p) : p \in S } |-> Fixture(i)],
              mounts |-> [p \in S |-> IdOf(p)],
              steps  |-> 0]
Layouts == { Layout(S) : S \in { T \in SUBSET Points : Cardinality(T) <= MaxMounts } }

-----------------------------------------------------------------------------
(* routing *)
IsPre(a, b) == F!IsPre(a, b)
Cands(s, p) == { m \in DOMAIN s.mounts : IsPre(m, p) }
Longest(S)  == CHOOSE m \in S : \A n \in S : Len(n) <= Len(m)
Route(s, p) ==
  IF Cands(s, p) = {} THEN [fs |-> 0, at |-> << >>, sub |-> p, kind |-> "root"]
  ELSE LET m == Longest(Cands(s, p)) IN
       [fs |-> s.mounts[m], at |-> m, sub |-> SubSeq(p, Len(m) + 1, Len(p)),
        kind |-> IF m = p THEN "at" ELSE "below"]

\* lift a result of the routed file system back into the mount namespace
Lift(s, rt, r) ==
  [e |-> r.e, ep |-> [i \in 1..Len(r.ep) |-> rt.at \o r.ep[i]], o |-> r.o, b |-> rt.kind \o "|" \o r.b,
   st |-> IF r.t = s.fss[rt.fs] THEN s ELSE [s EXCEPT !.fss[rt.fs] = r.t]]

Single(s, c) == LET rt == Route(s, c.p) IN Lift(s, rt, F!Eval(s.fss[rt.fs], [c EXCEPT !.p = rt.sub]))

\* Rename routes each of its names independently
Rename(s, c) ==
  LET ro == Route(s, c.p)  rn == Route(s, c.q)
      to == s.fss[ro.fs]    tn == s.fss[rn.fs]
      LinkFail(e, b) == [e |-> e, ep |-> <<c.p, c.q>>, o |-> "-", b |-> b, st |-> s]
  IN
  IF ro.at = rn.at THEN
     LET r == F!Rename(to, ro.sub, rn.sub) IN
     [e |-> r.e, ep |-> IF r.e = "ok" THEN << >> ELSE <<c.p, c.q>>, o |-> r.o, b |-> "same-" \o ro.kind \o "|" \o r.b,
      st |-> IF r.t = to THEN s ELSE [s EXCEPT !.fss[ro.fs] = r.t]]
  ELSE \* across two file systems
     LET so == F!Stat(to, ro.sub) IN
     IF so.e # "ok" THEN LinkFail(so.e, "cross|old-" \o so.b)
     ELSE IF to[ro.sub].k = "dir" THEN LinkFail("ENOSYS", "cross|old-is-dir")
     ELSE LET w == F!WriteFile(tn, rn.sub, to[ro.sub].d, to[ro.sub].perm) IN
       IF w.e # "ok" THEN LinkFail("OTHER", "cross|new-" \o w.b)      \* any error; nothing may change
       ELSE LET tn2 == [w.t EXCEPT ![rn.sub].perm = to[ro.sub].perm]      \* same bytes and mode as the source
                rm  == F!Remove(to, ro.sub)
            IN [e |-> "ok", ep |-> << >>, o |-> "-", b |-> "cross|ok-" \o (IF F!Has(tn, rn.sub) THEN "replace" ELSE "create"),
                st |-> [s EXCEPT !.fss[rn.fs] = tn2, !.fss[ro.fs] = rm.t]]

\* AddMount: only at an existing directory (as seen through the mounts so far) that is not a mount point
AddMount(s, c) ==
  LET p == c.p
      id == IF p \in Points THEN IdOf(p) ELSE BadId
      Fail(e, b) == [e |-> e, ep |-> <<p>>, o |-> "-", b |-> b, st |-> s]
  IN
  IF p = << >> THEN Fail("EINVAL", "addmount/root")
  ELSE IF p \in DOMAIN s.mounts THEN Fail("EEXIST", "addmount/already-mounted")
  ELSE LET rt == Route(s, p)  r == F!Stat(s.fss[rt.fs], rt.sub) IN
    IF r.e # "ok" THEN Fail(r.e, "addmount/" \o r.b)
    ELSE IF r.o.k # "dir" THEN Fail("ENOTDIR", "addmount/file")
    ELSE [e |-> "ok", ep |-> << >>, o |-> "-", b |-> "addmount/ok-" \o rt.kind,
          st |-> [s EXCEPT !.fss = (id :> Fixture(77)) @@ s.fss, !.mounts = (p :> id) @@ s.mounts]]

Eval(s, c) ==
  CASE c.op = "rename"   -> Rename(s, c)
    [] c.op = "addmount" -> AddMount(s, c)
    [] OTHER             -> Single(s, c)

-----------------------------------------------------------------------------
\* (defined here rather than through F! so that Calls is a constant TLC evaluates once)
Flag(acc, c, x, tr, ap) == [acc |-> acc, c |-> c, x |-> x, tr |-> tr, ap |-> ap]
NoFlag == Flag("RO", FALSE, FALSE, FALSE, FALSE)
C(op, p, q, f, perm, d, mt) ==
  [op |-> op, p |-> p, q |-> q, f |-> f, perm |-> perm, d |-> d, mt |-> mt]
P0 == CHOOSE x \in Perms : TRUE
D0 == CHOOSE x \in Datas : TRUE
OpenFlags == { Flag("RO", FALSE, FALSE, FALSE, FALSE), Flag("WO", TRUE, FALSE, FALSE, FALSE),
               Flag("RW", TRUE, TRUE, FALSE, FALSE), Flag("WO", FALSE, FALSE, TRUE, FALSE) }
Calls ==
       { C(op, p, << >>, NoFlag, P0, << >>, "") : p \in OpPaths,
           op \in {"mkdir", "mkdirall", "remove", "removeall", "chmod", "stat", "readdir", "readfile"} }
  \cup { C("writefile", p, << >>, NoFlag, P0, D0, "") : p \in OpPaths }
  \cup { C("open", p, << >>, f, P0, << >>, "") : p \in OpPaths, f \in OpenFlags }
  \cup { C("chtimes", p, << >>, NoFlag, P0, << >>, mt) : p \in OpPaths, mt \in Times }
  \cup { C("rename", p, q, NoFlag, P0, << >>, "") : p \in RenPaths, q \in RenPaths }
  \cup { C("addmount", p, << >>, NoFlag, P0, << >>, "") : p \in Points \cup BadPoints }

CallSeq == SX!SetToSeq(Calls)
Bounded(s) == /\ \A i \in DOMAIN s.fss : \A q \in DOMAIN s.fss[i] : Len(q) <= MaxTreeDepth
              /\ Cardinality(DOMAIN s.mounts) <= MaxMounts
Step(s)    == [s EXCEPT !.steps = @ + 1]
Tr(s, c) == LET r == Eval(s, c) IN
  [e |-> r.e, ep |-> r.ep, o |-> r.o, b |-> r.b,
   alt |-> IF r.e = "ROOTANY" THEN [s EXCEPT !.fss[Route(s, c.p).fs] = F!Empty] ELSE "-",
   n |-> IF r.st = s THEN "=" ELSE IF Bounded(r.st) THEN Step(r.st) ELSE "skip"]
Line(s) == [s |-> s, r |-> [i \in 1..Len(CallSeq) |-> Tr(s, CallSeq[i])]]

Init == /\ st \in Layouts
        /\ PrintT(ToString([calls |-> CallSeq, fresh |-> Fixture(77)]))   \* fresh: the tree a newly mounted file system carries
Next == /\ st.steps < MaxSteps
        /\ PrintT(ToString(Line(st)))
        /\ \E c \in Calls : LET r == Eval(st, c) IN
              /\ r.st # st /\ Bounded(r.st)
              /\ st' = Step(r.st)
Spec == Init /\ [][Next]_st

-----------------------------------------------------------------------------
(* what TLC checks on the model *)
ModelProps ==
  /\ \A i \in DOMAIN st.fss : F!WF(st.fss[i])
  /\ st.steps < MaxSteps => \A c \in Calls : LET r == Eval(st, c) IN
       \* a failing call changes nothing anywhere
       /\ (r.e # "ok" => r.st = st)
       \* a single-name operation changes at most the routed file system; never the mount table
       /\ (c.op \notin {"rename", "addmount"} =>
             /\ r.st.mounts = st.mounts
             /\ \A i \in DOMAIN st.fss : i # Route(st, c.p).fs => r.st.fss[i] = st.fss[i])
       \* rename changes at most the two routed file systems
       /\ (c.op = "rename" =>
             \A i \in DOMAIN st.fss : i \notin {Route(st, c.p).fs, Route(st, c.q).fs} => r.st.fss[i] = st.fss[i])
       \* longest whole-element prefix: no mount point strictly between the chosen one and the path
       /\ LET rt == Route(st, c.p) IN
            \A m \in DOMAIN st.mounts : IsPre(m, c.p) => Len(m) <= Len(rt.at)
       \* a mount is only ever added at a directory that is not a mount point
       /\ (c.op = "addmount" /\ r.e = "ok" => c.p \notin DOMAIN st.mounts /\ c.p # << >>)
=============================================================================
