SPECIFICATION Spec
CONSTANTS
  Keys <- K2
  Vals <- V1
  Handlers <- HNone
  MaxCalls = 8
INVARIANT ModelProps
CHECK_DEADLOCK FALSE
