---------------------------- MODULE MC_DirH ----------------------------
EXTENDS DirH
\* 2147483647 stands for the largest int of the platform (the harness passes math.MaxInt): cursor arithmetic must not overflow
PagesQ == {-1, 0, 1, 2, 3, 1000000, 2147483647}
PagesT == {-1, 0, 1, 2, 4, 5, 6, 1000000, 2147483647}
========================================================================
