------------------------------ MODULE KVHandle ------------------------------
(***************************************************************************)
(* Step model of keyvalue.FS at store-transaction grain (property C15,     *)
(* with C17's "a handle never brings back or overwrites what took its      *)
(* name"): what the code does, not what one would wish - every operation   *)
(* is a short program of store transactions, and two goroutines interleave *)
(* between them.  Regular files directly below the root only.              *)
(*                                                                         *)
(* A step is the code between two scheduling points of the controlled      *)
(* store (harness/kvctl): "begin" (an operation starts), "txn" (the code   *)
(* is about to open a store transaction) and "txn-end" (Commit returned).  *)
(* Releasing a thread at a point runs it up to its next point, so:         *)
(*   released at begin   -> preamble: the per-name unlink counter is read  *)
(*   released at txn     -> the whole transaction (the store is locked)    *)
(*   released at txn-end -> code after the commit; a Write changes the     *)
(*                          file's blob IN PLACE here, before its          *)
(*                          write-back transaction                         *)
(* The in-memory store keeps the blob it was given, so a name refers to a  *)
(* blob (file identity) and handles of that file share it.                 *)
(*                                                                         *)
(* TLC enumerates every interleaving; each complete behaviour is printed   *)
(* (schedule, results, final contents) and replayed on the real code by    *)
(* `vh kvhandle` through the same scheduling points.                       *)
(***************************************************************************)
EXTENDS Integers, Sequences, FiniteSets, TLC

CONSTANTS Prog,      \* <<ops of thread 0, ops of thread 1>>, op = [op, n, m, d]
          Present,   \* names that exist initially
          Start      \* their bytes: [name -> sequence]

Names == {"a", "b"}
None  == 0            \* no blob (blob ids start at 1)
DirV  == -1           \* the name is a directory (directly below the root it has no children in this model)
IsFile(v) == v > 0
VARIABLES store,   \* name -> blob id | None
          bytes,   \* blob id -> sequence of bytes
          cnt,     \* name -> number of times the name was unlinked (removed, renamed away, replaced by a rename)
          th,      \* thread -> [i (index of current op), pc, u, blob, src, found]
          res,     \* thread -> sequence of results ("ok" / "ENOENT")
          sched,   \* history: the threads released, in order
          labels,  \* history: the scheduling point each release started from
          nblob    \* next fresh blob id
vars == <<store, bytes, cnt, th, res, sched, labels, nblob>>

Threads == {0, 1}
OpsOf(t) == Prog[t + 1]
CurOp(t) == OpsOf(t)[th[t].i]
Done(t)  == th[t].i > Len(OpsOf(t))

WriteInto(d, pos, bs) ==
  LET newlen == IF Len(d) > pos + Len(bs) THEN Len(d) ELSE pos + Len(bs) IN
  [k \in 1..newlen |-> IF k > pos /\ k <= pos + Len(bs) THEN bs[k - pos] ELSE IF k <= Len(d) THEN d[k] ELSE 0]

Init ==
  LET present == Present
      id(n)   == IF n = "a" THEN 1 ELSE 2 IN
  /\ store = [n \in Names |-> IF n \in present THEN id(n) ELSE None]
  /\ bytes = [k \in {1, 2} |-> IF k = 1 /\ "a" \in present THEN Start["a"] ELSE IF k = 2 /\ "b" \in present THEN Start["b"] ELSE << >>]
  /\ cnt = [n \in Names |-> 0]
  /\ th = [t \in Threads |-> [i |-> 1, pc |-> "begin", u |-> 0, blob |-> None, src |-> None, found |-> None]]
  /\ res = [t \in Threads |-> << >>]
  /\ sched = << >> /\ labels = << >>
  /\ nblob = 3

\* ---- helpers -------------------------------------------------------------
Finish(t, r) ==   \* the operation returns r; the thread stands at the begin point of its next operation (or is done)
  /\ res' = [res EXCEPT ![t] = Append(@, r)]
  /\ th' = [th EXCEPT ![t] = [i |-> th[t].i + 1, pc |-> "begin", u |-> 0, blob |-> None, src |-> None, found |-> None]]
Goto(t, pc, f) == th' = [th EXCEPT ![t] = [f EXCEPT !.pc = pc]]
Label(pc) == CASE pc = "begin" -> "begin"
               [] pc \in {"lookup", "create", "saveTrunc", "saveWrite", "delete", "lookupNew", "lookupDot", "move",
                          "lookupParent", "mkdirSet", "moveDirSet"} -> "txn"
               [] OTHER -> "txn-end"

\* the write of an operation's data through its handle: in place, on the handle's blob
WriteNow(o, b) ==
  IF o.op = "writefile" THEN WriteInto(bytes[b], 0, o.d)
  ELSE bytes[b] \o o.d                  \* O_APPEND: at the current end of the file

\* ---- one step of thread t --------------------------------------------------
Step(t) ==
  LET s == th[t]  o == CurOp(t) IN
  /\ ~Done(t)
  /\ sched' = Append(sched, t) /\ labels' = Append(labels, Label(s.pc))
  /\ CASE
     \* ---- every operation: preamble (the unlink counter of the name is read before the look-up) -------------
       s.pc = "begin" ->
         /\ Goto(t, "lookup", [s EXCEPT !.u = cnt[o.n]])
         /\ UNCHANGED <<store, bytes, cnt, res, nblob>>
     \* ---- look-up transaction ---------------------------------------------------------------------------
     [] s.pc = "lookup" ->
         /\ Goto(t, "afterLookup", [s EXCEPT !.found = store[o.n]])
         /\ UNCHANGED <<store, bytes, cnt, res, nblob>>
     \* ---- after the look-up ----------------------------------------------------------------------------------
     [] s.pc = "afterLookup" /\ o.op \in {"append", "createappend", "writefile"} /\ s.found = DirV ->
         Finish(t, "EISDIR") /\ UNCHANGED <<store, bytes, cnt, nblob>>      \* a directory is not opened for writing
     [] s.pc = "afterLookup" /\ o.op \in {"append", "createappend", "writefile"} /\ s.found # DirV ->
         IF s.found # None THEN
            \* the handle is on the file found; O_TRUNC empties it in place (a transaction of its own unless already empty)
            IF o.op = "writefile" /\ Len(bytes[s.found]) > 0
            THEN /\ bytes' = [bytes EXCEPT ![s.found] = << >>]
                 /\ Goto(t, "saveTrunc", [s EXCEPT !.blob = s.found])
                 /\ UNCHANGED <<store, cnt, res, nblob>>
            ELSE /\ bytes' = [bytes EXCEPT ![s.found] = WriteNow(o, s.found)]
                 /\ Goto(t, "saveWrite", [s EXCEPT !.blob = s.found])
                 /\ UNCHANGED <<store, cnt, res, nblob>>
         ELSE IF o.op = "append"
            THEN Finish(t, "ENOENT") /\ UNCHANGED <<store, bytes, cnt, nblob>>
            ELSE \* O_CREATE: a new file; its handle reads the counter again, now
                 /\ bytes' = [k \in DOMAIN bytes \cup {nblob} |-> IF k = nblob THEN << >> ELSE bytes[k]]
                 /\ nblob' = nblob + 1
                 /\ Goto(t, "create", [s EXCEPT !.blob = nblob, !.u = cnt[o.n]])
                 /\ UNCHANGED <<store, cnt, res>>
     [] s.pc = "create" ->          \* unconditional Set: whatever took the name since the look-up is replaced
         /\ store' = [store EXCEPT ![o.n] = s.blob]
         /\ Goto(t, "afterCreate", s)
         /\ UNCHANGED <<bytes, cnt, res, nblob>>
     [] s.pc = "afterCreate" ->     \* O_TRUNC does nothing on a file that is still empty (another handle may have written to the
                                    \* new file already: then it is emptied, in a transaction of its own); the data is written in place
         IF o.op = "writefile" /\ Len(bytes[s.blob]) > 0
         THEN /\ bytes' = [bytes EXCEPT ![s.blob] = << >>]
              /\ Goto(t, "saveTrunc", s)
              /\ UNCHANGED <<store, cnt, res, nblob>>
         ELSE /\ bytes' = [bytes EXCEPT ![s.blob] = WriteNow(o, s.blob)]
              /\ Goto(t, "saveWrite", s)
              /\ UNCHANGED <<store, cnt, res, nblob>>
     \* ---- write-back transactions of a handle: only if the name still refers to the handle's file ------------------
     [] s.pc \in {"saveTrunc", "saveWrite"} ->
         /\ Assert(store[o.n] # DirV \/ cnt[o.n] # s.u, "a write-back onto a directory that took the name without an unlink is outside this model")
         /\ store' = IF store[o.n] # None /\ cnt[o.n] = s.u THEN [store EXCEPT ![o.n] = s.blob] ELSE store
         /\ Goto(t, IF s.pc = "saveTrunc" THEN "afterTrunc" ELSE "afterWrite", s)
         /\ UNCHANGED <<bytes, cnt, res, nblob>>
     [] s.pc = "afterTrunc" ->
         /\ bytes' = [bytes EXCEPT ![s.blob] = WriteNow(o, s.blob)]
         /\ Goto(t, "saveWrite", s)
         /\ UNCHANGED <<store, cnt, res, nblob>>
     [] s.pc = "afterWrite" -> Finish(t, "ok") /\ UNCHANGED <<store, bytes, cnt, nblob>>
     \* ---- ReadFile: the look-up, then the bytes of the file found as they are at that moment (writes of other handles land
     \*      in the shared blob before their write-back transaction, so they are visible here) ---------------------------------
     [] s.pc = "afterLookup" /\ o.op = "readfile" ->
         \* (ReadFile of a directory answers no bytes and no error: the recorded defect of directory handles, C02)
         /\ IF s.found = None THEN Finish(t, "ENOENT") ELSE IF s.found = DirV THEN Finish(t, << >>) ELSE Finish(t, bytes[s.found])
         /\ UNCHANGED <<store, bytes, cnt, nblob>>
     \* ---- Stat: one look-up ------------------------------------------------------------------------------------
     [] s.pc = "afterLookup" /\ o.op = "stat" ->
         /\ Finish(t, IF s.found = None THEN "ENOENT" ELSE "ok")
         /\ UNCHANGED <<store, bytes, cnt, nblob>>
     \* ---- Mkdir: look-up of the name, look-up of the parent, then an unconditional Set (check-then-act) --------------
     [] s.pc = "afterLookup" /\ o.op = "mkdir" ->
         IF s.found # None THEN Finish(t, "EEXIST") /\ UNCHANGED <<store, bytes, cnt, nblob>>
         ELSE Goto(t, "lookupParent", s) /\ UNCHANGED <<store, bytes, cnt, res, nblob>>
     [] s.pc = "lookupParent" -> Goto(t, "afterLookupParent", s) /\ UNCHANGED <<store, bytes, cnt, res, nblob>>
     [] s.pc = "afterLookupParent" -> Goto(t, "mkdirSet", s) /\ UNCHANGED <<store, bytes, cnt, res, nblob>>
     [] s.pc = "mkdirSet" ->
         /\ store' = [store EXCEPT ![o.n] = DirV]
         /\ Goto(t, "afterMkdirSet", s)
         /\ UNCHANGED <<bytes, cnt, res, nblob>>
     [] s.pc = "afterMkdirSet" -> Finish(t, "ok") /\ UNCHANGED <<store, bytes, cnt, nblob>>
     \* ---- Remove ----------------------------------------------------------------------------------------------
     [] s.pc = "afterLookup" /\ o.op = "remove" ->
         IF s.found = None THEN Finish(t, "ENOENT") /\ UNCHANGED <<store, bytes, cnt, nblob>>
         ELSE Goto(t, "delete", s) /\ UNCHANGED <<store, bytes, cnt, res, nblob>>
     [] s.pc = "delete" ->
         /\ store' = [store EXCEPT ![o.n] = None]
         /\ cnt' = [cnt EXCEPT ![o.n] = @ + 1]
         /\ Goto(t, "afterDelete", s)
         /\ UNCHANGED <<bytes, res, nblob>>
     [] s.pc = "afterDelete" -> Finish(t, "ok") /\ UNCHANGED <<store, bytes, cnt, nblob>>
     \* ---- Rename(o.n -> o.m) of a regular file: three look-ups, then one transaction that moves the file ----------
     [] s.pc = "afterLookup" /\ o.op = "rename" ->
         /\ Assert(s.found # None, "rename of a missing name is outside this model")
         /\ Goto(t, "lookupNew", [s EXCEPT !.src = s.found])
         /\ UNCHANGED <<store, bytes, cnt, res, nblob>>
     [] s.pc = "lookupNew" ->
         /\ Goto(t, "afterLookupNew", [s EXCEPT !.found = store[o.m]])
         /\ UNCHANGED <<store, bytes, cnt, res, nblob>>
     [] s.pc = "afterLookupNew" ->
         \* a directory is never replaced; a directory replaces nothing; a free name: its parent directory is looked up
         IF s.found = DirV THEN Finish(t, "EEXIST") /\ UNCHANGED <<store, bytes, cnt, nblob>>
         ELSE IF s.src = DirV /\ s.found # None THEN Finish(t, "ENOTDIR") /\ UNCHANGED <<store, bytes, cnt, nblob>>
         ELSE Goto(t, IF s.found = None THEN "lookupDot" ELSE "move", s) /\ UNCHANGED <<store, bytes, cnt, res, nblob>>
     [] s.pc = "lookupDot" -> Goto(t, "afterLookupDot", s) /\ UNCHANGED <<store, bytes, cnt, res, nblob>>
     [] s.pc = "afterLookupDot" -> Goto(t, IF s.src = DirV THEN "moveDirSet" ELSE "move", s) /\ UNCHANGED <<store, bytes, cnt, res, nblob>>
     \* a directory moves in two transactions: the new name is set (nothing is counted as unlinked), then the old one deleted
     [] s.pc = "moveDirSet" ->
         /\ store' = [store EXCEPT ![o.m] = DirV]
         /\ Goto(t, "afterMoveDirSet", s)
         /\ UNCHANGED <<bytes, cnt, res, nblob>>
     [] s.pc = "afterMoveDirSet" -> Goto(t, "delete", s) /\ UNCHANGED <<store, bytes, cnt, res, nblob>>
     [] s.pc = "move" ->            \* whatever was at the new name stops being referred to by it, in this transaction
         /\ store' = [store EXCEPT ![o.m] = s.src, ![o.n] = None]
         /\ cnt' = [cnt EXCEPT ![o.m] = @ + 1, ![o.n] = @ + 1]
         /\ Goto(t, "afterMove", s)
         /\ UNCHANGED <<bytes, res, nblob>>
     [] s.pc = "afterMove" -> Finish(t, "ok") /\ UNCHANGED <<store, bytes, cnt, nblob>>

Final == [n \in Names |-> IF store[n] = None THEN "none" ELSE IF store[n] = DirV THEN "dir" ELSE bytes[store[n]]]
AllDone == \A t \in Threads : Done(t)

Next ==
  \/ \E t \in Threads : Step(t)
  \/ /\ AllDone /\ sched # << >>
     /\ PrintT(ToString([sched |-> sched, labels |-> labels, res |-> res, final |-> Final]))
     /\ sched' = << >> /\ UNCHANGED <<store, bytes, cnt, th, res, labels, nblob>>   \* print once, then stutter

Spec == Init /\ [][Next]_vars

-----------------------------------------------------------------------------
(* what TLC checks on the model *)
\* a write-back replaces only the handle's own file: a name that was removed, renamed away or renamed onto since the
\* handle looked it up is never written through that handle (no resurrection, no overwriting of the replacing file)
WriteBackSafe ==
  \A t \in Threads : (~Done(t) /\ th[t].pc \in {"saveTrunc", "saveWrite"}) =>
     LET n == CurOp(t).n IN (store[n] # None /\ cnt[n] = th[t].u) => store[n] = th[t].blob
\* a file that a Rename put under a name is lost only to a later Remove, Rename or the recorded check-then-create of
\* O_CREATE - never to a write-back (stated on the final state: the bytes under a name are those of one whole file)
TypeOK == /\ \A n \in Names : store[n] \in {None, DirV} \/ store[n] \in DOMAIN bytes
          /\ \A t \in Threads : Len(res[t]) <= Len(OpsOf(t))
ModelProps == TypeOK /\ WriteBackSafe
=============================================================================
