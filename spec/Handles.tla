------------------------------- MODULE Handles -------------------------------
(***************************************************************************)
(* Requirement specification of file handles (properties C02, C17): the     *)
(* semantics of os.File on one regular file that several handles have open, *)
(* plus Remove/Rename of the name while handles are open.                   *)
(*                                                                         *)
(* The file is an inode (data) that a name may or may not be linked to, so  *)
(* "a handle never resurrects a removed name" is a statement about `link`.  *)
(***************************************************************************)
EXTENDS Integers, Sequences, FiniteSets, TLC
SX == INSTANCE SequencesExt

CONSTANTS NH,        \* number of handle slots
          MaxLen,    \* bound on the file length in the model
          Bytes,     \* non-zero byte values used by writes
          WriteLens, \* lengths of write buffers
          ReadLens,  \* lengths of read buffers
          Offs,      \* explicit offsets for ReadAt / WriteAt / Seek / Truncate (may be negative)
          Whences,   \* seek origins: 0 1 2 valid, others invalid
          InitData,  \* content of the file in the initial state
          NsOps      \* TRUE: Remove / Rename of the name while handles are open

VARIABLE st   \* [data, link, hs]

Unused == [s |-> "unused", acc |-> "RO", app |-> FALSE, off |-> 0]
Init0  == [data |-> InitData, link |-> "f", hs |-> [i \in 1..NH |-> Unused]]

Min2(a, b) == IF a < b THEN a ELSE b
Max2(a, b) == IF a > b THEN a ELSE b
Zeros(n)   == [i \in 1..n |-> 0]
\* write bs at position pos (0-based) into d, zero-filling a gap
WriteInto(d, pos, bs) ==
  LET newlen == Max2(Len(d), pos + Len(bs)) IN
  [i \in 1..newlen |->
     IF i > pos /\ i <= pos + Len(bs) THEN bs[i - pos]
     ELSE IF i <= Len(d) THEN d[i] ELSE 0]
Resize(d, n) == [i \in 1..n |-> IF i <= Len(d) THEN d[i] ELSE 0]

None == "-"
\* result: e in {"ok","EOF","FAIL","ECLOSED"}; n = byte count; bs = bytes read; ret = returned scalar;
\* may = TRUE when io.EOF may or may not accompany the data (reader at the exact end)
Res(e, n, bs, ret, may, s, b) == [e |-> e, n |-> n, bs |-> bs, ret |-> ret, may |-> may, st |-> s, b |-> b]
Fail(e, s, b) == Res(e, 0, << >>, None, FALSE, s, b)
\* zero-length transfer: os.File answers (0, nil) even on wrongly-opened handles (and ReadAt/WriteAt even on closed
\* ones; Read and Write take the descriptor lock first and report ErrClosed); only
\* "no bytes transferred, nothing changed" is required (DESIGN.md tolerance 8)
Zero(s, b) == Res("ZERO", 0, << >>, None, FALSE, s, b)

SetH(s, i, h) == [s EXCEPT !.hs[i] = h]
H(s, i) == s.hs[i]
Closed(s, i) == H(s, i).s = "closed"
IsOpen(s, i) == H(s, i).s = "open"

Open(s, i, acc, app, tr) ==
  IF s.link # "f" THEN Fail("FAIL", s, "open/missing")
  ELSE LET s1 == SetH(s, i, [s |-> "open", acc |-> acc, app |-> app, off |-> 0])
       IN IF tr THEN Res("ok", 0, << >>, None, FALSE, [s1 EXCEPT !.data = << >>], "open/trunc-" \o acc)
          ELSE Res("ok", 0, << >>, None, FALSE, s1, "open/" \o acc \o (IF app THEN "-app" ELSE ""))

\* OpenFile with O_CREATE on the name after it was removed and every handle of the old file is closed or unused: a new,
\* empty file takes the name and this is its creating handle (with the flags given, O_APPEND included). While the
\* name exists O_CREATE changes nothing about Open, and a second file next to open handles of the first is FSTrace's
\* business, so those cases are not calls of this model (Enabled).
Create(s, i, acc, app) ==
  Res("ok", 0, << >>, None, FALSE,
      SetH([s EXCEPT !.data = << >>, !.link = "f"], i, [s |-> "open", acc |-> acc, app |-> app, off |-> 0]),
      "create/" \o acc \o (IF app THEN "-app" ELSE ""))

Read(s, i, n) ==
  LET h == H(s, i) IN
  IF Closed(s, i) THEN Fail("ECLOSED", s, IF n = 0 THEN "read/closed-zero" ELSE "read/closed")
  ELSE IF n = 0 THEN Zero(s, "read/zero")
  ELSE IF h.acc = "WO" THEN Fail("FAIL", s, "read/write-only")
  ELSE LET k == Max2(0, Min2(n, Len(s.data) - h.off)) IN
    IF k = 0 THEN Res("EOF", 0, << >>, None, FALSE, s, IF h.off > Len(s.data) THEN "read/beyond-end" ELSE "read/at-end")
    ELSE Res("ok", k, SubSeq(s.data, h.off + 1, h.off + k), None, h.off + k = Len(s.data),
             SetH(s, i, [h EXCEPT !.off = h.off + k]), IF k < n THEN "read/short" ELSE "read/full")

ReadAt(s, i, n, off) ==
  LET h == H(s, i) IN
  IF n = 0 THEN Zero(s, "readat/zero")
  ELSE IF off < 0 THEN Fail("FAIL", s, IF Closed(s, i) THEN "readat/closed-negative" ELSE "readat/negative")
  ELSE IF Closed(s, i) THEN Fail("ECLOSED", s, "readat/closed")
  ELSE IF h.acc = "WO" THEN Fail("FAIL", s, "readat/write-only")
  ELSE LET k == Max2(0, Min2(n, Len(s.data) - off)) IN
    IF k < n THEN Res("EOF", k, SubSeq(s.data, off + 1, off + k), None, FALSE, s, IF k = 0 THEN "readat/at-end" ELSE "readat/short")
    ELSE Res("ok", k, SubSeq(s.data, off + 1, off + k), None, off + k = Len(s.data), s, "readat/full")

Write(s, i, bs) ==
  LET h == H(s, i) IN
  IF Closed(s, i) THEN Fail("ECLOSED", s, IF Len(bs) = 0 THEN "write/closed-zero" ELSE "write/closed")
  ELSE IF Len(bs) = 0 THEN Zero(s, "write/zero")
  ELSE IF h.acc = "RO" THEN Fail("FAIL", s, "write/read-only")
  ELSE LET pos == IF h.app THEN Len(s.data) ELSE h.off
           d2  == WriteInto(s.data, pos, bs)
       IN Res("ok", Len(bs), << >>, None, FALSE,
              SetH([s EXCEPT !.data = d2], i, [h EXCEPT !.off = pos + Len(bs)]),
              IF h.app THEN "write/append" ELSE IF pos > Len(s.data) THEN "write/gap"
              ELSE IF pos + Len(bs) > Len(s.data) THEN "write/extend" ELSE "write/inside")

WriteAt(s, i, bs, off) ==
  LET h == H(s, i) IN
  IF Len(bs) = 0 THEN Zero(s, "writeat/zero")
  ELSE IF off < 0 THEN Fail("FAIL", s, IF Closed(s, i) THEN "writeat/closed-negative" ELSE "writeat/negative")
  ELSE IF h.app THEN Fail("FAIL", s, IF Closed(s, i) THEN "writeat/closed-append-handle" ELSE "writeat/append-handle")
  ELSE IF Closed(s, i) THEN Fail("ECLOSED", s, "writeat/closed")
  ELSE IF h.acc = "RO" THEN Fail("FAIL", s, "writeat/read-only")
  ELSE Res("ok", Len(bs), << >>, None, FALSE, [s EXCEPT !.data = WriteInto(s.data, off, bs)],
           IF off > Len(s.data) THEN "writeat/gap" ELSE IF off + Len(bs) > Len(s.data) THEN "writeat/extend" ELSE "writeat/inside")

Seek(s, i, off, wh) ==
  LET h == H(s, i) IN
  IF Closed(s, i) THEN Fail("ECLOSED", s, "seek/closed")
  ELSE IF wh \notin {0, 1, 2} THEN Fail("FAIL", s, "seek/bad-whence")
  ELSE LET base == CASE wh = 0 -> 0 [] wh = 1 -> h.off [] wh = 2 -> Len(s.data)
           new  == base + off
       IN IF new < 0 THEN Fail("FAIL", s, "seek/negative")
          ELSE Res("ok", 0, << >>, new, FALSE, SetH(s, i, [h EXCEPT !.off = new]),
                   "seek/" \o (CASE wh = 0 -> "start" [] wh = 1 -> "current" [] wh = 2 -> "end") \o
                   (IF new > Len(s.data) THEN "-beyond" ELSE ""))

Truncate(s, i, size) ==
  LET h == H(s, i) IN
  IF Closed(s, i) THEN Fail("ECLOSED", s, "truncate/closed")
  ELSE IF h.acc = "RO" THEN Fail("FAIL", s, "truncate/read-only")
  ELSE IF size < 0 THEN Fail("FAIL", s, "truncate/negative")
  ELSE Res("ok", 0, << >>, None, FALSE, [s EXCEPT !.data = Resize(s.data, size)],
           IF size > Len(s.data) THEN "truncate/grow" ELSE IF size < Len(s.data) THEN "truncate/shrink" ELSE "truncate/same")

Stat(s, i) ==
  IF Closed(s, i) THEN Fail("ECLOSED", s, "stat/closed")
  ELSE Res("ok", 0, << >>, Len(s.data), FALSE, s, "stat/open")

\* calls that exist on a handle and must simply fail once it is closed (C17)
Misc(s, i, op) ==
  IF Closed(s, i) THEN Fail(IF op = "readdir" THEN "FAIL" ELSE "ECLOSED", s, op \o "/closed")
  ELSE Res("ANY", 0, << >>, None, FALSE, s, op \o "/open")      \* not constrained while open

Close(s, i) ==
  IF Closed(s, i) THEN Fail("ECLOSED", s, "close/closed")
  ELSE Res("ok", 0, << >>, None, FALSE, SetH(s, i, [H(s, i) EXCEPT !.s = "closed"]), "close/open-" \o H(s, i).acc)

Remove(s) ==
  IF s.link # "f" THEN Fail("FAIL", s, "remove/missing")
  ELSE Res("ok", 0, << >>, None, FALSE, [s EXCEPT !.link = "none"], "remove/ok")
Rename(s) ==
  IF s.link # "f" THEN Fail("FAIL", s, "rename/missing")
  ELSE Res("ok", 0, << >>, None, FALSE, [s EXCEPT !.link = "g"], "rename/ok")
\* another file is renamed onto the name: the name now belongs to that file (link = "other"), the handles keep the
\* old one, which has no name any more; nothing done through them may show up under the name
Replace(s) ==
  IF s.link # "f" THEN Fail("FAIL", s, "replace/missing")
  ELSE Res("ok", 0, << >>, None, FALSE, [s EXCEPT !.link = "other"], "replace/ok")

-----------------------------------------------------------------------------
C(op, h, n, off, bs, wh, acc, app, tr) ==
  [op |-> op, h |-> h, n |-> n, off |-> off, bs |-> bs, wh |-> wh, acc |-> acc, app |-> app, tr |-> tr]
Bufs == UNION { [1..n -> Bytes] : n \in WriteLens }
HS   == 1..NH
Calls ==
       { C("open", i, 0, 0, << >>, 0, acc, app, tr) : i \in HS, acc \in {"RO", "WO", "RW"}, app \in BOOLEAN, tr \in BOOLEAN }
  \cup (IF NsOps THEN { C("create", i, 0, 0, << >>, 0, acc, app, FALSE) : i \in HS, acc \in {"RO", "WO", "RW"}, app \in BOOLEAN } ELSE {})
  \cup { C("read", i, n, 0, << >>, 0, "RO", FALSE, FALSE) : i \in HS, n \in ReadLens }
  \cup { C("readat", i, n, o, << >>, 0, "RO", FALSE, FALSE) : i \in HS, n \in ReadLens, o \in Offs }
  \cup { C("write", i, 0, 0, b, 0, "RO", FALSE, FALSE) : i \in HS, b \in Bufs }
  \cup { C("writeat", i, 0, o, b, 0, "RO", FALSE, FALSE) : i \in HS, b \in Bufs, o \in Offs }
  \cup { C("seek", i, 0, o, << >>, w, "RO", FALSE, FALSE) : i \in HS, o \in Offs, w \in Whences }
  \cup { C("truncate", i, 0, o, << >>, 0, "RO", FALSE, FALSE) : i \in HS, o \in Offs }
  \cup { C(op, i, 0, 0, << >>, 0, "RO", FALSE, FALSE) : i \in HS, op \in {"stat", "close", "sync", "chmod", "readdir"} }
  \cup (IF NsOps THEN { C(op, 0, 0, 0, << >>, 0, "RO", FALSE, FALSE) : op \in {"remove", "rename", "replace"} } ELSE {})

\* a call is part of the model when its handle slot is in the right life-cycle state
Enabled(s, c) ==
  CASE c.op = "open" -> H(s, c.h).s = "unused" /\ s.link # "other"   \* (opening the other file is not part of this model)
    [] c.op = "create" -> H(s, c.h).s = "unused" /\ s.link = "none" /\ \A j \in HS : H(s, j).s # "open"
    [] c.op \in {"remove", "rename"} -> s.link # "other"
    [] c.op = "replace" -> s.link = "f"   \* (renaming onto a free name is FSCore's business)
    [] OTHER -> H(s, c.h).s # "unused"

Eval(s, c) ==
  CASE c.op = "open"     -> Open(s, c.h, c.acc, c.app, c.tr)
    [] c.op = "create"   -> Create(s, c.h, c.acc, c.app)
    [] c.op = "read"     -> Read(s, c.h, c.n)
    [] c.op = "readat"   -> ReadAt(s, c.h, c.n, c.off)
    [] c.op = "write"    -> Write(s, c.h, c.bs)
    [] c.op = "writeat"  -> WriteAt(s, c.h, c.bs, c.off)
    [] c.op = "seek"     -> Seek(s, c.h, c.off, c.wh)
    [] c.op = "truncate" -> Truncate(s, c.h, c.off)
    [] c.op = "stat"     -> Stat(s, c.h)
    [] c.op = "close"    -> Close(s, c.h)
    [] c.op = "remove"   -> Remove(s)
    [] c.op = "rename"   -> Rename(s)
    [] c.op = "replace"  -> Replace(s)
    [] OTHER             -> Misc(s, c.h, c.op)

\* bounds of the model: file length and offsets
InBounds(s) == /\ Len(s.data) <= MaxLen
               /\ \A i \in HS : s.hs[i].off <= MaxLen + 1
\* symmetry reduction by hand: handle slots are opened in order
Ordered(s, c) == c.op \in {"open", "create"} => \A j \in 1..(c.h - 1) : H(s, j).s # "unused"

CallSeq == SX!SetToSeq(Calls)
Tr(s, c) ==
  IF ~Enabled(s, c) \/ ~Ordered(s, c) THEN [e |-> "-", n |-> "skip"]
  ELSE LET r == Eval(s, c) IN
    [e |-> r.e, cnt |-> r.n, bs |-> r.bs, ret |-> r.ret, may |-> r.may, b |-> r.b,
     n |-> IF r.st = s THEN "=" ELSE IF InBounds(r.st) THEN r.st ELSE "skip"]
Line(s) == [s |-> s, r |-> [i \in 1..Len(CallSeq) |-> Tr(s, CallSeq[i])]]

Init == /\ st = Init0
        /\ PrintT(ToString([calls |-> CallSeq]))
Next == /\ PrintT(ToString(Line(st)))
        /\ \E c \in Calls : /\ Enabled(st, c) /\ Ordered(st, c)
                            /\ st' = Eval(st, c).st
                            /\ InBounds(st')
Spec == Init /\ [][Next]_st

-----------------------------------------------------------------------------
(* what TLC checks on the model: every successor of every reachable state *)
Succ(c) == Eval(st, c)
ModelProps ==
  \A c \in { x \in Calls : Enabled(st, x) } : LET r == Succ(c)  h == H(st, c.h) IN
    \* a failing call changes nothing
    /\ (r.e \in {"FAIL", "ECLOSED", "EOF"} /\ r.n = 0 => r.st = st)
    \* a read-only handle never changes contents, a write-only handle never reads them
    /\ (c.op \notin {"open", "create", "remove", "rename", "replace"} /\ h.s = "open" /\ h.acc = "RO" => r.st.data = st.data)
    /\ (c.op \in {"read", "readat"} /\ h.acc = "WO" => r.n = 0 /\ r.e # "ok")
    \* EOF never before all bytes were delivered
    /\ (c.op = "read" /\ r.e = "EOF" => h.off >= Len(st.data))
    /\ (c.op = "readat" /\ r.e = "EOF" => c.off + r.n >= Len(st.data))
    \* handles are independent: a call on one handle leaves every other handle alone
    /\ (c.op \notin {"remove", "rename", "replace"} => \A j \in HS \ {c.h} : r.st.hs[j] = st.hs[j])
    \* every call on a closed handle fails
    /\ (c.op \notin {"open", "create", "remove", "rename", "replace"} /\ h.s = "closed" => r.e \in {"FAIL", "ECLOSED", "ZERO"} /\ r.st = st)
    \* handle I/O never changes which name is linked (no resurrection)
    /\ (c.op \notin {"create", "remove", "rename", "replace"} => r.st.link = st.link)
    \* a creating handle starts on an empty file
    /\ (c.op = "create" => r.st.data = << >> /\ r.st.link = "f")
    \* offsets never negative; gaps are zero-filled
    /\ (\A j \in HS : r.st.hs[j].off >= 0)
    /\ (c.op \in {"write", "writeat", "truncate"} /\ r.e = "ok" /\ r.n + Len(c.bs) >= 0 =>
          LET start == CASE c.op = "write" -> (IF h.app THEN Len(st.data) ELSE h.off)
                         [] c.op = "writeat" -> c.off
                         [] c.op = "truncate" -> c.off
          IN \A k \in (Len(st.data) + 1)..Min2(start, Len(r.st.data)) : r.st.data[k] = 0)
=============================================================================
