SPECIFICATION Spec
CONSTANTS
  Prog <- P8
  Present <- PresentB
  Start <- StartFileB
INVARIANT ModelProps
CHECK_DEADLOCK FALSE
