SPECIFICATION Spec
CONSTANTS
  Names <- QNames
  MaxDepth = 2
  Perms <- QPerms
  Datas <- QDatas
  Times <- QTimes
  RootOps = FALSE
  MaxTreeDepth = 2
  MaxNodes = 3
  FlagSets = "few"
INVARIANTS TypeOK InvWF ModelProps
CHECK_DEADLOCK FALSE
