SPECIFICATION Spec
CONSTANTS
  Names <- QNames
  MaxDepth = 2
  Perms <- QPerms
  Datas <- OneData
  Times <- NoTimes
  RootOps = TRUE
  MaxTreeDepth = 2
  MaxNodes = 6
  FlagSets = "all"
INVARIANTS TypeOK InvWF ModelProps
CHECK_DEADLOCK FALSE
