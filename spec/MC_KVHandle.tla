---------------------------- MODULE MC_KVHandle ----------------------------
EXTENDS KVHandle
Op(op, n, m, d) == [op |-> op, n |-> n, m |-> m, d |-> d]
PresentB   == {"b"}
StartFileB == [n \in {"a", "b"} |-> IF n = "b" THEN <<1, 2>> ELSE << >>]
\* the hand-picked programs of harness/cmd/vh/mod_conc.go (tag handle-vs-replace), start "file-b"
P1 == << <<Op("append", "b", "", <<7>>)>>, <<Op("remove", "b", "", << >>), Op("writefile", "b", "", <<8, 9>>)>> >>
P2 == << <<Op("append", "b", "", <<7>>)>>, <<Op("writefile", "a", "", <<8, 9>>), Op("rename", "a", "b", << >>)>> >>
P3 == << <<Op("createappend", "a", "", <<7>>)>>, <<Op("rename", "b", "a", << >>)>> >>
P4 == << <<Op("append", "b", "", <<7>>)>>, <<Op("rename", "b", "a", << >>)>> >>
P5 == << <<Op("append", "b", "", <<7>>), Op("append", "b", "", <<8, 9>>)>>, <<Op("remove", "b", "", << >>)>> >>
P6 == << <<Op("writefile", "b", "", <<7>>)>>, <<Op("writefile", "b", "", <<8, 9>>)>> >>
P7 == << <<Op("writefile", "b", "", <<7>>)>>, <<Op("rename", "b", "a", << >>), Op("append", "a", "", <<8, 9>>)>> >>
P8 == << <<Op("append", "b", "", <<7>>)>>, <<Op("readfile", "b", "", << >>), Op("readfile", "b", "", << >>)>> >>
P9 == << <<Op("writefile", "b", "", <<8, 9>>)>>, <<Op("readfile", "b", "", << >>), Op("remove", "b", "", << >>)>> >>
\* directories directly below the root
P10 == << <<Op("mkdir", "a", "", << >>)>>, <<Op("mkdir", "a", "", << >>), Op("stat", "a", "", << >>)>> >>
P11 == << <<Op("mkdir", "a", "", << >>)>>, <<Op("rename", "b", "a", << >>), Op("stat", "b", "", << >>)>> >>
P12 == << <<Op("append", "b", "", <<7>>)>>, <<Op("remove", "b", "", << >>), Op("mkdir", "b", "", << >>)>> >>
P13 == << <<Op("mkdir", "a", "", << >>), Op("rename", "a", "b", << >>)>>, <<Op("remove", "b", "", << >>)>> >>
\* (two creators of one name - createappend(b) || remove(b);writefile(b) - violate WriteBackSafe in this model: O_CREATE replaces
\* whatever took the name since its look-up without counting an unlink; part of the recorded non-atomicity of keyvalue.FS)
=============================================================================
