SPECIFICATION Spec
CONSTANTS
  Prog <- P12
  Present <- PresentB
  Start <- StartFileB
INVARIANT ModelProps
CHECK_DEADLOCK FALSE
