SPECIFICATION Spec
CONSTANTS
  Prog <- P10
  Present <- PresentB
  Start <- StartFileB
INVARIANT ModelProps
CHECK_DEADLOCK FALSE
