SPECIFICATION SpecReq
CONSTANTS
  Alphabet <- ImplTiny
  MaxEntries = 1
  Wants <- NoClients
  EnvKinds <- None
  MaxEnv = 0
  Fixed = FALSE
  ArchiveSet <- ManySet
INVARIANT ReqProps
CHECK_DEADLOCK FALSE
