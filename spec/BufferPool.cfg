SPECIFICATION Spec
CONSTANTS
  Cap = 2
  Threads <- T3
  Rounds = 2
INVARIANT CountBounded
INVARIANT OutstandingBound
INVARIANT NoSharing
INVARIANT SendNeverBlocks
PROPERTY EveryWaitReturns
PROPERTY AllFinish
CHECK_DEADLOCK FALSE
