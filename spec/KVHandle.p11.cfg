SPECIFICATION Spec
CONSTANTS
  Prog <- P11
  Present <- PresentB
  Start <- StartFileB
INVARIANT ModelProps
CHECK_DEADLOCK FALSE
