SPECIFICATION Spec
CONSTANTS
  Threads = {1, 2, 3}
  PointIsDir = TRUE
INVARIANTS ExactlyOneWinner MutexOK
PROPERTY Termination
CHECK_DEADLOCK FALSE
