SPECIFICATION SpecGate
CONSTANTS
  Alphabet <- ImplQuick
  MaxEntries = 2
  Wants <- OneTwo
  EnvKinds <- AllEnv
  MaxEnv = 2
  Fixed = FALSE
INVARIANT ImplProps
CHECK_DEADLOCK FALSE
