--------------------------------- MODULE Txn ---------------------------------
(***************************************************************************)
(* Requirement specification of key-value transactions (property C18):     *)
(* keyvalue.Transaction as implemented by the in-memory store              *)
(* (mem/store.go) and by the serial fallback (keyvalue/txn_store.go).      *)
(*                                                                         *)
(* One transaction at a time over a store mapping Keys to Vals or absent   *)
(* ("-").  The state holds the store, the status of the current            *)
(* transaction and, per call made so far, the result Commit must report    *)
(* for it: [id, v, e] = operation id, value seen by a Get ("-" = no        *)
(* record), error class.                                                   *)
(*                                                                         *)
(* Error classes of a result:                                              *)
(*   ok       Err = nil                                                    *)
(*   ENOENT   Get of an absent key (errors.Is(Err, ErrNotExist))           *)
(*   HERR     the error returned by the operation's handler                *)
(*   ABORTED  call made after Abort: any non-nil error, Record not compared*)
(*                                                                         *)
(* Modelling decisions (not dictated by the property text, written down):  *)
(*  D1 A Set takes effect when it is called and an Abort keeps what was    *)
(*     applied before it (both implementations; no roll-back).  The        *)
(*     harness compares the store only while no transaction is active      *)
(*     (fresh read transaction), so an implementation deferring writes to  *)
(*     Commit also conforms; one that rolls back on Abort would not.       *)
(*  D2 Abort ends the transaction as far as the store is concerned: in     *)
(*     status "aborted" a fresh transaction may begin (keyvalue/fs.go      *)
(*     aborts and never commits).  Commit after Abort is allowed: it must  *)
(*     return (no crash, no hang) the full result list -- one result per   *)
(*     call, calls after the Abort with an error; Commit's own error value *)
(*     is then unconstrained (e = "ANY"; indexeddb returns results AND an  *)
(*     error).  A second Abort likewise must return, value unconstrained.  *)
(*  D3 Calls on a transaction after its Commit are not part of the model.  *)
(*  D4 The handler of a call made after Abort may or may not be invoked;   *)
(*     whatever it does has no effect (branch .../aborted).                *)
(***************************************************************************)
EXTENDS Integers, Sequences, FiniteSets, TLC
SX == INSTANCE SequencesExt

CONSTANTS Keys,      \* set of strings
          Vals,      \* set of strings (non-absent values)
          Handlers,  \* subset of {"ok", "fail", "abort"}
          MaxCalls   \* bound on Get/Set calls per transaction

VARIABLE st   \* [store, status, res]

Absent == "-"
Init0  == [store |-> [k \in Keys |-> Absent], status |-> "none", res |-> << >>]

R(id, v, e) == [id |-> id, v |-> v, e |-> e]
\* transition result: e = class of this call's outcome (for get/set: of its eventual result),
\* id = OpID the call returns (-1: none), rs = result list Commit returns
Out(e, id, rs, s, b) == [e |-> e, id |-> id, rs |-> rs, st |-> s, b |-> b]

NextId(s) == Len(s.res)
Push(s, r) == [s EXCEPT !.res = Append(s.res, r)]
AfterHandler(s, h) == IF h = "abort" THEN [s EXCEPT !.status = "aborted"] ELSE s

Begin(s) ==
  Out("ok", -1, << >>, [s EXCEPT !.status = "active", !.res = << >>],
      "begin/" \o (CASE s.status = "aborted" -> "after-abort" [] s.status = "ended" -> "after-commit"
                    [] s.status = "ended-aborted" -> "after-abort-commit" [] OTHER -> "first"))

\* h = "" : no handler (plain Get)
Get(s, k, h) ==
  LET id == NextId(s)  op == IF h = "" THEN "get" ELSE "geth-" \o h IN
  IF s.status = "aborted" THEN Out("ABORTED", id, << >>, Push(s, R(id, Absent, "ABORTED")), op \o "/aborted")
  ELSE LET v == s.store[k]
           e == IF v = Absent THEN "ENOENT" ELSE IF h = "fail" THEN "HERR" ELSE "ok"
       IN Out(e, id, << >>, AfterHandler(Push(s, R(id, v, e)), h),
              op \o (IF v = Absent THEN "/missing" ELSE "/present"))

\* v = "nil" : delete
Set(s, k, v, h) ==
  LET id == NextId(s)  op == IF h = "" THEN "set" ELSE "seth-" \o h IN
  IF s.status = "aborted" THEN Out("ABORTED", id, << >>, Push(s, R(id, Absent, "ABORTED")), op \o "/aborted")
  ELSE LET nv == IF v = "nil" THEN Absent ELSE v
           e  == IF h = "fail" THEN "HERR" ELSE "ok"
           s1 == [s EXCEPT !.store[k] = nv]
       IN Out(e, id, << >>, AfterHandler(Push(s1, R(id, Absent, e)), h),
              op \o (IF v = "nil" THEN (IF s.store[k] = Absent THEN "/delete-missing" ELSE "/delete")
                     ELSE IF s.store[k] = Absent THEN "/create" ELSE "/overwrite"))

Abort(s) ==
  IF s.status = "aborted" THEN Out("ANY", -1, << >>, s, "abort/again")
  ELSE Out("ok", -1, << >>, [s EXCEPT !.status = "aborted"], "abort/active")

Commit(s) ==
  \* "ended-aborted" is kept apart from "ended" only so that the replay engine never has to build
  \* an ordinary state through a Commit-after-Abort (both behave the same from here on)
  IF s.status = "aborted" THEN Out("ANY", -1, s.res, [s EXCEPT !.status = "ended-aborted", !.res = << >>], "commit/aborted")
  ELSE Out("ok", -1, s.res, [s EXCEPT !.status = "ended", !.res = << >>], IF s.res = << >> THEN "commit/empty" ELSE "commit/active")

\* a fresh transaction on the same store (Set + Get + delete of a probe key, Commit) must succeed
Probe(s) == Out("ok", -1, << >>, s, "probe/" \o s.status)

-----------------------------------------------------------------------------
C(op, k, v, h) == [op |-> op, k |-> k, v |-> v, h |-> h]
Calls ==
       { C(op, "", "", "") : op \in {"begin", "abort", "commit", "probe"} }
  \cup { C("get", k, "", "") : k \in Keys }
  \cup { C("geth", k, "", h) : k \in Keys, h \in Handlers }
  \cup { C("set", k, v, "") : k \in Keys, v \in Vals \cup {"nil"} }
  \cup { C("seth", k, v, h) : k \in Keys, v \in Vals \cup {"nil"}, h \in Handlers }

InTxn(s) == s.status \in {"active", "aborted"}
Enabled(s, c) ==
  CASE c.op = "begin" -> s.status # "active"
    [] c.op = "probe" -> s.status # "active"
    [] c.op \in {"abort", "commit"} -> InTxn(s)
    [] OTHER -> InTxn(s)

Eval(s, c) ==
  CASE c.op = "begin"  -> Begin(s)
    [] c.op = "get"    -> Get(s, c.k, "")
    [] c.op = "geth"   -> Get(s, c.k, c.h)
    [] c.op = "set"    -> Set(s, c.k, c.v, "")
    [] c.op = "seth"   -> Set(s, c.k, c.v, c.h)
    [] c.op = "abort"  -> Abort(s)
    [] c.op = "commit" -> Commit(s)
    [] c.op = "probe"  -> Probe(s)

InBounds(s) == Len(s.res) <= MaxCalls

CallSeq == SX!SetToSeq(Calls)
Tr(s, c) ==
  IF ~Enabled(s, c) THEN [e |-> "-", n |-> "skip"]
  ELSE LET r == Eval(s, c) IN
    [e |-> r.e, id |-> r.id, rs |-> r.rs, b |-> r.b,
     n |-> IF r.st = s THEN "=" ELSE IF InBounds(r.st) THEN r.st ELSE "skip"]
Line(s) == [s |-> s, r |-> [i \in 1..Len(CallSeq) |-> Tr(s, CallSeq[i])]]

Init == /\ st = Init0
        /\ PrintT(ToString([calls |-> CallSeq]))
Next == /\ PrintT(ToString(Line(st)))
        /\ \E c \in Calls : /\ Enabled(st, c)
                            /\ st' = Eval(st, c).st
                            /\ InBounds(st')
Spec == Init /\ [][Next]_st

-----------------------------------------------------------------------------
(* What TLC checks on the model, in every reachable state and on every successor.   *)
(* The state keeps results, not the calls that produced them, so the clauses about  *)
(* the history are stated inductively (state invariant + one- and two-step laws).   *)
IsData(c)  == c.op \in {"get", "geth", "set", "seth"}
IsGet(c)   == c.op \in {"get", "geth"}
IsSet(c)   == c.op \in {"set", "seth"}
NewVal(c)  == IF c.v = "nil" THEN Absent ELSE c.v

ModelProps ==
  \* ids in order: the i-th result carries id i-1
  /\ \A i \in DOMAIN st.res : st.res[i].id = i - 1
  /\ (st.status \in {"none", "ended", "ended-aborted"} => st.res = << >>)
  /\ \A c \in { x \in Calls : Enabled(st, x) } : LET r == Eval(st, c) IN
    \* OneResultPerCall: every Get/Set call, also after Abort, appends exactly one result, carrying
    \* the id the call returned; earlier results are never touched; nothing else appends
    /\ (IsData(c) => /\ Len(r.st.res) = Len(st.res) + 1
                     /\ SubSeq(r.st.res, 1, Len(st.res)) = st.res
                     /\ r.id = Len(st.res) /\ r.st.res[Len(r.st.res)].id = r.id
                     /\ r.st.res[Len(r.st.res)].e = r.e)
    /\ (c.op \in {"abort", "probe"} => r.st.res = st.res)
    \* Commit hands out exactly the accumulated list, whatever the status
    /\ (c.op = "commit" => r.rs = st.res /\ r.st.status \in {"ended", "ended-aborted"} /\ r.st.store = st.store)
    /\ (c.op = "commit" /\ st.status = "active" => r.e = "ok")
    \* ReadYourWrites, step form: a Get sees the current content ...
    /\ (IsGet(c) /\ st.status = "active" =>
          /\ r.st.res[Len(r.st.res)].v = st.store[c.k]
          /\ (st.store[c.k] = Absent <=> r.e = "ENOENT")
          /\ r.st.store = st.store)
    \* ... and the content after a Set is the written value at that key, unchanged elsewhere
    /\ (IsSet(c) /\ st.status = "active" =>
          /\ r.st.store[c.k] = NewVal(c)
          /\ \A k2 \in Keys \ {c.k} : r.st.store[k2] = st.store[k2])
    \* ... two-step form: Set(k,v) ; Get(k2) sees v at k and the old value elsewhere, unless the
    \* Set's own handler aborted
    /\ (IsSet(c) /\ st.status = "active" /\ r.st.status = "active" =>
          \A k2 \in Keys : LET g == Eval(r.st, C("get", k2, "", "")) IN
             g.st.res[Len(g.st.res)].v = IF k2 = c.k THEN NewVal(c) ELSE st.store[k2])
    \* HandlerErrIsOpErr: a failing handler's error is the result's error iff the operation succeeded
    /\ (IsData(c) /\ st.status = "active" /\ c.h = "fail" =>
          r.e = IF IsGet(c) /\ st.store[c.k] = Absent THEN "ENOENT" ELSE "HERR")
    /\ (IsData(c) /\ st.status = "active" /\ c.h # "fail" => r.e \in {"ok", "ENOENT"})
    \* an aborting handler aborts, the others do not
    /\ (IsData(c) /\ st.status = "active" => (r.st.status = "aborted" <=> c.h = "abort"))
    \* AbortedCallsNoEffect: after Abort a call gets an error result and leaves the store alone
    /\ (IsData(c) /\ st.status = "aborted" => r.e = "ABORTED" /\ r.st.store = st.store /\ r.st.status = "aborted")
    /\ (c.op = "abort" => r.st.store = st.store /\ r.st.status = "aborted")
    \* StoreUsableAfterEnd: however the transaction ended, a fresh transaction and the probe are
    \* enabled, the probe succeeds and changes nothing
    /\ (r.st.status \in {"aborted", "ended", "ended-aborted"} =>
          /\ Enabled(r.st, C("begin", "", "", "")) /\ Eval(r.st, C("begin", "", "", "")).st.status = "active"
          /\ Enabled(r.st, C("probe", "", "", "")) /\ Eval(r.st, C("probe", "", "", "")).e = "ok"
          /\ Eval(r.st, C("probe", "", "", "")).st = r.st)
    \* a new transaction starts with no results and the store as the previous ones left it
    /\ (c.op = "begin" => r.st.res = << >> /\ r.st.store = st.store)
=============================================================================
