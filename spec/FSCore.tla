------------------------------- MODULE FSCore -------------------------------
(***************************************************************************)
(* Requirement specification of the namespace operations of a hackpadfs    *)
(* file system, in the vocabulary of properties C01/C03/C05: the semantics *)
(* of Go's os package (Linux, root, umask 0) on an abstract tree.          *)
(*                                                                         *)
(* Every operation is a pure operator  Op(t, args) -> [e, ep, o, t, b]     *)
(*   e  : error kind ("ok" or a sentinel name, "OTHER" = must fail)        *)
(*   ep : the path(s) the error must name (caller's namespace)             *)
(*   o  : returned data                                                    *)
(*   t  : tree afterwards                                                  *)
(*   b  : label of the spec branch taken (coverage, finding identity)      *)
(* so composite specs (Mount, Sub, Helpers, Cache, Tar) reuse them.        *)
(***************************************************************************)
EXTENDS Integers, Sequences, FiniteSets, TLC
SX == INSTANCE SequencesExt

CONSTANTS Names,     \* element names, e.g. {"a","b"}
          MaxDepth,  \* maximal depth of a path used as an argument
          Perms,     \* permission arguments
          Datas,     \* byte strings (sequences of small ints) for WriteFile
          Times,     \* modification times for Chtimes (strings "T1", ...; "*" = unspecified)
          RootOps,   \* TRUE: also Remove/Rename/RemoveAll touching "."
          MaxTreeDepth, \* bound of the model: deepest entry kept in a tree
          MaxNodes,  \* bound of the model: number of non-root entries
          FlagSets   \* "all": all 48 OpenFile flag sets; "few": a representative handful

VARIABLE tree

-----------------------------------------------------------------------------
(* paths *)
ArgPaths  == UNION { [1..n -> Names] : n \in 0..MaxDepth }
Root      == << >>
Parent(p) == SubSeq(p, 1, Len(p) - 1)
Pre(p, i) == SubSeq(p, 1, i)
IsPre(a, b) == Len(a) <= Len(b) /\ SubSeq(b, 1, Len(a)) = a

(* tree *)
Node(k, perm, mt, d) == [k |-> k, perm |-> perm, mt |-> mt, d |-> d]
RootNode == Node("dir", -1, "*", << >>)   \* -1 / "*" = not compared
Empty    == (Root :> RootNode)

Has(t, p)    == p \in DOMAIN t
IsDir(t, p)  == Has(t, p) /\ t[p].k = "dir"
IsFile(t, p) == Has(t, p) /\ t[p].k = "file"
Kids(t, p)   == { q \in DOMAIN t : Len(q) = Len(p) + 1 /\ IsPre(p, q) }
Under(t, p)  == { q \in DOMAIN t : IsPre(p, q) }

Put(t, p, n) == [q \in (DOMAIN t) \cup {p} |-> IF q = p THEN n ELSE t[q]]
Del(t, S)    == [q \in (DOMAIN t) \ S |-> t[q]]
\* a change below a directory makes that directory's mtime unspecified
Touch(t, p)  == IF p = Root \/ ~Has(t, Parent(p)) \/ Parent(p) = Root THEN t
                ELSE [t EXCEPT ![Parent(p)].mt = "*"]

\* error of resolving the proper ancestors of p: the first prefix that is not
\* a directory decides (missing -> ENOENT, regular file -> ENOTDIR)
MinOf(S) == CHOOSE x \in S : \A y \in S : x <= y
AncErr(t, p) ==
  LET bad == { i \in 0..(Len(p) - 1) : ~IsDir(t, Pre(p, i)) }
  IN  IF bad = {} THEN "ok"
      ELSE IF Has(t, Pre(p, MinOf(bad))) THEN "ENOTDIR" ELSE "ENOENT"

WF(t) == /\ IsDir(t, Root)
         /\ \A p \in DOMAIN t : p # Root => IsDir(t, Parent(p))

-----------------------------------------------------------------------------
(* results *)
None == "-"
R(e, ep, o, t, b) == [e |-> e, ep |-> ep, o |-> o, t |-> t, b |-> b]
Fail(e, p, t, b)  == R(e, <<p>>, None, t, b)
Ok(o, t, b)       == R("ok", << >>, o, t, b)

Mkdir(t, p, perm) ==
  IF p = Root THEN Fail("EEXIST", p, t, "mkdir/root")
  ELSE LET a == AncErr(t, p) IN
    IF a # "ok" THEN Fail(a, p, t, "mkdir/anc-" \o a)
    ELSE IF Has(t, p) THEN Fail("EEXIST", p, t, "mkdir/exists-" \o t[p].k)
    ELSE Ok(None, Touch(Put(t, p, Node("dir", perm, "*", << >>)), p), "mkdir/ok")

MkdirAll(t, p, perm) ==
  LET files == { i \in 0..Len(p) : IsFile(t, Pre(p, i)) } IN
  IF files # {} THEN Fail("ENOTDIR", Pre(p, MinOf(files)), t, "mkdirall/through-file")
  ELSE LET new == { Pre(p, i) : i \in 1..Len(p) } \ DOMAIN t IN
    IF new = {} THEN Ok(None, t, "mkdirall/exists")
    ELSE LET top == CHOOSE q \in new : \A r \in new : Len(q) <= Len(r)
             t2  == [q \in (DOMAIN t) \cup new |->
                       IF q \in new THEN Node("dir", perm, "*", << >>) ELSE t[q]]
         IN Ok(None, Touch(t2, top), "mkdirall/ok")

P0 == CHOOSE x \in Perms : TRUE
\* flag sets: acc in {"RO","WO","RW"}, c x tr ap booleans
Flag(acc, c, x, tr, ap) == [acc |-> acc, c |-> c, x |-> x, tr |-> tr, ap |-> ap]
OpenFile(t, p, f, perm) ==          \* OpenFile immediately followed by Close
  LET a == AncErr(t, p) IN
  IF a # "ok" THEN Fail(a, p, t, "open/anc-" \o a)
  ELSE IF Has(t, p) THEN
         IF f.c /\ f.x THEN Fail("EEXIST", p, t, "open/excl-exists-" \o t[p].k)
         ELSE IF t[p].k = "dir" THEN
                IF f.acc = "RO" /\ ~f.c /\ ~f.tr THEN Ok(None, t, "open/dir")
                ELSE Fail("EISDIR", p, t, "open/dir-write")
         ELSE IF f.tr THEN Ok(None, [t EXCEPT ![p].d = << >>, ![p].mt = "*"], "open/trunc")
         ELSE Ok(None, t, "open/file")
  ELSE IF ~f.c THEN Fail("ENOENT", p, t, "open/missing")
  ELSE Ok(None, Touch(Put(t, p, Node("file", perm, "*", << >>)), p), "open/create")

WriteFile(t, p, d, perm) ==
  LET r == OpenFile(t, p, Flag("WO", TRUE, FALSE, TRUE, FALSE), perm) IN
  IF r.e # "ok" THEN [r EXCEPT !.b = "writefile/" \o r.b]
  ELSE Ok(None, [r.t EXCEPT ![p].d = d, ![p].mt = "*"], "writefile/" \o r.b)

\* OpenFile(O_WRONLY|O_APPEND) + Write(d) + Close: the bytes land at the current end of the file
AppendFile(t, p, d) ==
  LET r == OpenFile(t, p, Flag("WO", FALSE, FALSE, FALSE, TRUE), P0) IN
  IF r.e # "ok" THEN [r EXCEPT !.b = "append/" \o r.b]
  ELSE Ok(None, [t EXCEPT ![p].d = t[p].d \o d, ![p].mt = "*"], "append/ok")

\* OpenFile(O_WRONLY|O_CREATE|O_APPEND) + Write(d) + Close: the file is created when missing, the bytes land at its end
CreateAppend(t, p, d, perm) ==
  LET r == OpenFile(t, p, Flag("WO", TRUE, FALSE, FALSE, TRUE), perm) IN
  IF r.e # "ok" THEN [r EXCEPT !.b = "createappend/" \o r.b]
  ELSE Ok(None, [r.t EXCEPT ![p].d = r.t[p].d \o d, ![p].mt = "*"], "createappend/" \o r.b)

Remove(t, p) ==
  IF p = Root THEN Fail("OTHER", p, t, "remove/root")
  ELSE LET a == AncErr(t, p) IN
    IF a # "ok" THEN Fail(a, p, t, "remove/anc-" \o a)
    ELSE IF ~Has(t, p) THEN Fail("ENOENT", p, t, "remove/missing")
    ELSE IF IsDir(t, p) /\ Kids(t, p) # {} THEN Fail("ENOTEMPTY", p, t, "remove/not-empty")
    ELSE Ok(None, Touch(Del(t, {p}), p), "remove/ok-" \o t[p].k)

RemoveAll(t, p) ==
  IF p = Root THEN Fail("ROOTANY", p, t, "removeall/root")
  ELSE LET a == AncErr(t, p) IN
    IF a = "ENOTDIR" THEN
         \* os.RemoveAll opens the parent directory first: when the parent itself lies below a regular file the
         \* error names the parent, otherwise the path
         Fail("ENOTDIR", IF Len(p) >= 2 /\ AncErr(t, Parent(p)) = "ENOTDIR" THEN Parent(p) ELSE p, t, "removeall/through-file")
    ELSE IF a = "ENOENT" \/ ~Has(t, p) THEN Ok(None, t, "removeall/missing")
    ELSE Ok(None, Touch(Del(t, Under(t, p)), p),
            IF Kids(t, p) = {} THEN "removeall/ok-leaf" ELSE "removeall/ok-subtree")

LinkFail(e, o, n, t, b) == R(e, <<o, n>>, None, t, b)
Rename(t, o, n) ==
  IF o = Root \/ n = Root THEN LinkFail("OTHER", o, n, t, "rename/root")
  ELSE LET ao == AncErr(t, o)  an == AncErr(t, n) IN
    IF ao # "ok" THEN LinkFail(ao, o, n, t, "rename/old-anc-" \o ao)
    ELSE IF an # "ok" THEN LinkFail(an, o, n, t, "rename/new-anc-" \o an)
    ELSE IF ~Has(t, o) THEN LinkFail("ENOENT", o, n, t, "rename/old-missing")
    ELSE IF IsDir(t, n) THEN LinkFail("EEXIST", o, n, t, "rename/new-is-dir-old-" \o t[o].k)
    ELSE IF IsDir(t, o) /\ IsPre(o, n) THEN LinkFail("EINVAL", o, n, t, "rename/into-self")
    ELSE IF IsDir(t, o) /\ IsFile(t, n) THEN LinkFail("ENOTDIR", o, n, t, "rename/dir-onto-file")
    ELSE IF o = n THEN Ok(None, t, "rename/same-file")
    ELSE LET moved == Under(t, o)
             Dst(q) == n \o SubSeq(q, Len(o) + 1, Len(q))
             rest  == (DOMAIN t) \ (moved \cup {n})
             t2    == [q \in rest \cup { Dst(m) : m \in moved } |->
                         IF q \in rest THEN t[q]
                         ELSE t[o \o SubSeq(q, Len(n) + 1, Len(q))]]
         IN Ok(None, Touch(Touch(t2, o), n),
               IF Has(t, n) THEN "rename/replace-file"
               ELSE "rename/ok-" \o t[o].k)

Chmod(t, p, perm) ==
  LET a == AncErr(t, p) IN
  IF a # "ok" THEN Fail(a, p, t, "chmod/anc-" \o a)
  ELSE IF ~Has(t, p) THEN Fail("ENOENT", p, t, "chmod/missing")
  ELSE IF p = Root THEN Ok(None, t, "chmod/root")
  ELSE Ok(None, [t EXCEPT ![p].perm = perm], "chmod/ok-" \o t[p].k)

Chtimes(t, p, mt) ==
  LET a == AncErr(t, p) IN
  IF a # "ok" THEN Fail(a, p, t, "chtimes/anc-" \o a)
  ELSE IF ~Has(t, p) THEN Fail("ENOENT", p, t, "chtimes/missing")
  ELSE IF p = Root THEN Ok(None, t, "chtimes/root")
  ELSE Ok(None, [t EXCEPT ![p].mt = mt], "chtimes/ok-" \o t[p].k)

Info(t, p) == [k |-> t[p].k, perm |-> t[p].perm, mt |-> t[p].mt,
               size |-> IF t[p].k = "file" THEN Len(t[p].d) ELSE -1]
Stat(t, p) ==
  LET a == AncErr(t, p) IN
  IF a # "ok" THEN Fail(a, p, t, "stat/anc-" \o a)
  ELSE IF ~Has(t, p) THEN Fail("ENOENT", p, t, "stat/missing")
  ELSE Ok(Info(t, p), t, "stat/ok-" \o t[p].k)

ReadDir(t, p) ==
  LET a == AncErr(t, p) IN
  IF a # "ok" THEN Fail(a, p, t, "readdir/anc-" \o a)
  ELSE IF ~Has(t, p) THEN Fail("ENOENT", p, t, "readdir/missing")
  ELSE IF IsFile(t, p) THEN Fail("ENOTDIR", p, t, "readdir/file")
  ELSE Ok({ [n |-> q[Len(q)], k |-> t[q].k] : q \in Kids(t, p) }, t,
          IF Kids(t, p) = {} THEN "readdir/empty" ELSE "readdir/ok")

ReadFile(t, p) ==
  LET a == AncErr(t, p) IN
  IF a # "ok" THEN Fail(a, p, t, "readfile/anc-" \o a)
  ELSE IF ~Has(t, p) THEN Fail("ENOENT", p, t, "readfile/missing")
  ELSE IF IsDir(t, p) THEN Fail("EISDIR", p, t, "readfile/dir")
  ELSE Ok(t[p].d, t, "readfile/ok")

-----------------------------------------------------------------------------
(* the call alphabet of the bounded model; uniform record shape *)
NoFlag == Flag("RO", FALSE, FALSE, FALSE, FALSE)
C(op, p, q, f, perm, d, mt) ==
  [op |-> op, p |-> p, q |-> q, f |-> f, perm |-> perm, d |-> d, mt |-> mt]
AllFlags == { Flag(acc, c, x, tr, ap) :
                acc \in {"RO", "WO", "RW"}, c \in BOOLEAN, x \in BOOLEAN,
                tr \in BOOLEAN, ap \in BOOLEAN }
FewFlags == { Flag("RO", FALSE, FALSE, FALSE, FALSE), Flag("WO", TRUE, FALSE, FALSE, FALSE),
              Flag("RW", TRUE, TRUE, FALSE, FALSE), Flag("WO", FALSE, FALSE, TRUE, FALSE),
              Flag("RW", TRUE, FALSE, TRUE, TRUE) }
Flags == IF FlagSets = "all" THEN AllFlags ELSE FewFlags
RootFree(p) == RootOps \/ p # Root
Calls ==
       { C("mkdir", p, Root, NoFlag, perm, << >>, "") : p \in ArgPaths, perm \in Perms }
  \cup { C("mkdirall", p, Root, NoFlag, perm, << >>, "") : p \in ArgPaths, perm \in Perms }
  \cup UNION { { C("open", p, Root, f, perm, << >>, "") :
                   p \in ArgPaths, perm \in (IF f.c THEN Perms ELSE {P0}) } : f \in Flags }
  \cup { C("writefile", p, Root, NoFlag, perm, d, "") : p \in ArgPaths, perm \in Perms, d \in Datas }
  \cup { C("remove", p, Root, NoFlag, P0, << >>, "") : p \in { x \in ArgPaths : RootFree(x) } }
  \cup { C("removeall", p, Root, NoFlag, P0, << >>, "") : p \in { x \in ArgPaths : RootFree(x) } }
  \cup { C("rename", p, q, NoFlag, P0, << >>, "") :
           p \in { x \in ArgPaths : RootFree(x) }, q \in { x \in ArgPaths : RootFree(x) } }
  \cup { C("chmod", p, Root, NoFlag, perm, << >>, "") : p \in ArgPaths, perm \in Perms }
  \cup { C("chtimes", p, Root, NoFlag, P0, << >>, mt) : p \in ArgPaths, mt \in Times }
  \cup { C("stat", p, Root, NoFlag, P0, << >>, "") : p \in ArgPaths }
  \cup { C("readdir", p, Root, NoFlag, P0, << >>, "") : p \in ArgPaths }
  \cup { C("readfile", p, Root, NoFlag, P0, << >>, "") : p \in ArgPaths }

Eval(t, c) ==
  CASE c.op = "mkdir"     -> Mkdir(t, c.p, c.perm)
    [] c.op = "mkdirall"  -> MkdirAll(t, c.p, c.perm)
    [] c.op = "open"      -> OpenFile(t, c.p, c.f, c.perm)
    [] c.op = "writefile" -> WriteFile(t, c.p, c.d, c.perm)
    [] c.op = "append"    -> AppendFile(t, c.p, c.d)
    [] c.op = "createappend" -> CreateAppend(t, c.p, c.d, c.perm)
    [] c.op = "remove"    -> Remove(t, c.p)
    [] c.op = "removeall" -> RemoveAll(t, c.p)
    [] c.op = "rename"    -> Rename(t, c.p, c.q)
    [] c.op = "chmod"     -> Chmod(t, c.p, c.perm)
    [] c.op = "chtimes"   -> Chtimes(t, c.p, c.mt)
    [] c.op = "stat"      -> Stat(t, c.p)
    [] c.op = "readdir"   -> ReadDir(t, c.p)
    [] c.op = "readfile"  -> ReadFile(t, c.p)

\* successors outside the bounds are not part of the bounded model; the
\* transition is printed as skipped
DepthOK(t) == /\ \A q \in DOMAIN t : Len(q) <= MaxTreeDepth
              /\ Cardinality(DOMAIN t) <= MaxNodes + 1

-----------------------------------------------------------------------------
(* behaviour + transition-relation dump (mechanism A) *)
CallSeq == SX!SetToSeq(Calls)
Tr(t, c) == LET r == Eval(t, c) IN
  [e |-> r.e, ep |-> r.ep, o |-> r.o, b |-> r.b,
   \* alt: the other acceptable outcome of a tolerated root removal (succeed leaving an empty root)
   alt |-> IF r.e = "ROOTANY" THEN Empty ELSE "-",
   n |-> IF r.t = t THEN "=" ELSE IF DepthOK(r.t) THEN r.t ELSE "skip"]
Line(t) == [s |-> t, r |-> [i \in 1..Len(CallSeq) |-> Tr(t, CallSeq[i])]]

Init == /\ tree = Empty
        /\ PrintT(ToString([calls |-> CallSeq]))
Next == /\ PrintT(ToString(Line(tree)))
        /\ \E c \in Calls : /\ tree' = Eval(tree, c).t
                            /\ DepthOK(tree')
Spec == Init /\ [][Next]_tree

-----------------------------------------------------------------------------
(* what TLC checks on the model itself *)
TypeOK == \A p \in DOMAIN tree :
            /\ tree[p].k \in {"dir", "file"}
            /\ tree[p].k = "dir" => tree[p].d = << >>
InvWF == WF(tree)

\* properties of every transition out of the current state (an invariant over
\* the successor relation: evaluated once per distinct state, |Calls| results)
ReadOps == {"stat", "readdir", "readfile"}
ModelProps ==
  \A c \in Calls : LET r == Eval(tree, c) IN
     /\ (r.e # "ok" => r.t = tree)                       \* FailChangesNothing
     /\ (c.op \in ReadOps => r.t = tree)                 \* ReadOnlyOpsChangeNothing
     /\ WF(r.t)                                          \* no orphans, ever
     /\ (r.e = "ok") = (r.ep = << >>)                     \* errors name a path
     /\ (c.op = "rename" /\ r.e = "ok" =>                 \* rename moves, never copies or drops
           Cardinality(DOMAIN r.t) \in { Cardinality(DOMAIN tree), Cardinality(DOMAIN tree) - 1 })
=============================================================================
