SPECIFICATION SpecGate
CONSTANTS
  Alphabet <- ImplBigOnly
  MaxEntries = 1
  Wants <- OneG
  EnvKinds <- AllEnv
  MaxEnv = 1
  Fixed = FALSE
INVARIANT ImplProps
CHECK_DEADLOCK FALSE
