SPECIFICATION Spec
CONSTANTS
  Prog <- P4
  Present <- PresentB
  Start <- StartFileB
INVARIANT ModelProps
CHECK_DEADLOCK FALSE
