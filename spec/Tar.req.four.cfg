SPECIFICATION SpecReq
CONSTANTS
  Alphabet <- ReqFour
  MaxEntries = 4
  Wants <- NoClients
  EnvKinds <- None
  MaxEnv = 0
  Fixed = FALSE
INVARIANT ReqProps
CHECK_DEADLOCK FALSE
