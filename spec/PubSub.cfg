SPECIFICATION Spec
CONSTANTS
  Keys <- K2
  Emitters <- Em
  Waiters <- Wa
  KeyOf <- KO
  WithCancel = TRUE
INVARIANT NoStrandedWaiter
INVARIANT SubsAreBlocked
PROPERTY NoLostWakeup
PROPERTY AllEmitsEnd
CHECK_DEADLOCK FALSE
