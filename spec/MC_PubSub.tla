------------------------------ MODULE MC_PubSub ------------------------------
EXTENDS PubSub
K2 == {"a", "b"}
Em == {"e1", "e2", "e3"}
Wa == {"w1", "w2", "w3"}
KO == [p \in Em \cup Wa |-> IF p \in {"e1", "e2", "w1", "w2"} THEN "a" ELSE "b"]   \* two emitters and two waiters on one key
Em2 == {"e1", "e2"}
Wa2 == {"w1", "w2"}
KO2 == [p \in Em2 \cup Wa2 |-> "a"]
=============================================================================
