SPECIFICATION SpecGate
CONSTANTS
  Alphabet <- ImplQuick
  MaxEntries = 3
  Wants <- Two
  EnvKinds <- AllEnv
  MaxEnv = 1
  Fixed = FALSE
INVARIANT ImplProps
CHECK_DEADLOCK FALSE
