---------------------------- MODULE MC_OSPath ----------------------------
EXTENDS OSPath
SeqsUpTo(A, n) == UNION { [1..k -> A] : k \in 1..n }
Abs(S) == { <<"">> \o r : r \in S }
Empty == {}

Tok7 == {"tmp", "root", "rootx", "a", ".", "..", ""}
Tok6 == {"tmp", "root", "rootx", ".", "..", ""}
TokN == {"a", "root", "rootx", ".", "..", "", "BS"}
SepElemsC == {"BS"}
LookPairsC == {<<"root", "rootx">>, <<"rootx", "root">>}

NewFsAll == {<<"linux", "">>} \cup { <<"windows", v>> : v \in {"", "C:", "D:", "UNC"} }
BadSubs == {<<"">>, <<"..">>, <<"tmp", "">>, <<"", "tmp">>, <<"tmp", "..", "root">>, <<".", "tmp">>}
SubArgsQ == {<<"tmp">>, <<"root">>, <<"rootx">>, <<"tmp", "root">>, <<".">>} \cup BadSubs
SubArgsT == SubArgsQ \cup {<<"tmp", "rootx">>, <<"tmp", "root", "a">>}

\* quick: names of <= 3 tokens, OS paths of <= 4 elements after the leading separator
ToNamesQ == SeqsUpTo(TokN, 3)
FromRestsQ == Abs(SeqsUpTo(Tok7, 4)) \cup SeqsUpTo(Tok7, 2)
FromVolsC == {"", "C:", "D:", "UNC", "UNCX"}
FromRestsVQ == Abs(SeqsUpTo(Tok7, 2)) \cup SeqsUpTo(Tok7, 2)

\* thorough: names of <= 4 tokens, OS paths of <= 5 elements
ToNamesT == SeqsUpTo(TokN, 4)
FromRestsT == Abs(SeqsUpTo(Tok7, 5)) \cup SeqsUpTo(Tok7, 3)
FromRestsVT == Abs(SeqsUpTo(Tok7, 3)) \cup SeqsUpTo(Tok7, 2)

\* os calls on the real Linux file system
NewFsLinux == {<<"linux", "">>}
SubArgsOs == {<<"d">>, <<"d", "d">>, <<".">>, <<"">>}
OsOps1C == {"stat", "lstat", "open", "chmod", "chtimes", "chown", "readdir", "readfile", "mkdir", "mkdirall",
            "remove", "removeall", "create", "writefile", "fread", "freaddir", "fwrite", "fseek", "fclosed"}
OsOps2C == {"rename", "symlink"}
BadNames == {<<"">>, <<"", "d">>, <<"d", "">>, <<"..", "d">>, <<"d", "..", "f">>, <<".", "d">>}
OsNamesC == {<<".">>} \cup SeqsUpTo({"d", "f", "m"}, 3) \cup BadNames
OsNewC == {<<"m">>, <<"f">>, <<"d">>, <<"f", "m">>, <<"d", "m">>, <<"m", "m">>, <<"d", "">>}
==========================================================================
