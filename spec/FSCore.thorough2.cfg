SPECIFICATION Spec
CONSTANTS
  Names <- QNames
  MaxDepth = 2
  Perms <- TPerms
  Datas <- QDatas
  Times <- QTimes
  RootOps = FALSE
  MaxTreeDepth = 2
  MaxNodes = 4
INVARIANTS TypeOK InvWF ModelProps
CHECK_DEADLOCK FALSE
