SPECIFICATION SpecLive
CONSTANTS
  Alphabet <- ImplTiny
  MaxEntries = 2
  Wants <- One
  EnvKinds <- AllEnv
  MaxEnv = 1
  Fixed = FALSE
INVARIANT ImplProps
PROPERTY Termination
CHECK_DEADLOCK FALSE
