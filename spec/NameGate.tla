------------------------------ MODULE NameGate ------------------------------
(***************************************************************************)
(* Requirement specification of the name gate (property C04): a raw name is *)
(* a sequence of TOKENS joined with "/".  Every operation given a name for  *)
(* which ValidPath is false fails with ErrInvalid and changes nothing; for   *)
(* two-name operations if either name is invalid.  A valid name is handled   *)
(* exactly as FSCore prescribes, with bytes such as backslash, colon or a    *)
(* leading ".." inside an element being ordinary name bytes.                 *)
(*                                                                          *)
(*   ""    = <<"">>      "/x" = <<"", "x">>     "x/" = <<"x", "">>           *)
(*   "a//b" = <<"a", "", "b">>     "." = <<".">> (valid: the root)           *)
(***************************************************************************)
EXTENDS Integers, Sequences, FiniteSets, TLC
SX == INSTANCE SequencesExt

CONSTANTS Names, MaxDepth, Perms, Datas, Times, RootOps, MaxTreeDepth, MaxNodes, FlagSets,  \* FSCore's (MaxDepth = 0 here)
          Tokens,     \* all tokens raw names are built from
          MaxTok,     \* raw names have 1..MaxTok tokens
          ValidName   \* a fixed valid name used as the other argument of two-name calls

VARIABLE st          \* the tree (FSCore's state)
F == INSTANCE FSCore WITH tree <- st

BadTokens == {"", ".", "..", "BADUTF8"}
RawNames  == UNION { [1..n -> Tokens] : n \in 1..MaxTok }
Valid(raw) == raw = <<".">> \/ \A i \in 1..Len(raw) : raw[i] \notin BadTokens
\* the reason a raw name is invalid (first applicable), for coverage and finding identity
Shape(raw) ==
  IF raw = <<"">> THEN "empty"
  ELSE IF raw[1] = "" THEN "rooted"
  ELSE IF raw[Len(raw)] = "" THEN "trailing-slash"
  ELSE IF \E i \in 1..Len(raw) : raw[i] = "" THEN "empty-element"
  ELSE IF \E i \in 1..Len(raw) : raw[i] = "BADUTF8" THEN "bad-utf8"
  ELSE IF \E i \in 1..Len(raw) : raw[i] = ".." THEN "dotdot-element"
  ELSE "dot-element"
ToPath(raw) == IF raw = <<".">> THEN << >> ELSE raw

\* fixture: a directory, files, and elements whose names contain separator look-alikes or begin like ".." (valid names)
Fixture ==
  (<< >> :> F!RootNode) @@ (<<"a">> :> F!Node("dir", 493, "*", << >>)) @@ (<<"f">> :> F!Node("file", 420, "*", <<1>>))
  @@ (<<"a", "f">> :> F!Node("file", 384, "*", <<2>>)) @@ (<<"a\\b">> :> F!Node("file", 420, "*", <<3>>))
  @@ (<<"a", "c:d">> :> F!Node("file", 448, "*", <<4, 4>>)) @@ (<<"..x">> :> F!Node("file", 420, "*", <<5>>))

Flag(acc, c, x, tr, ap) == [acc |-> acc, c |-> c, x |-> x, tr |-> tr, ap |-> ap]
NoFlag == Flag("RO", FALSE, FALSE, FALSE, FALSE)
C(op, p, q, f, perm, d, mt) == [op |-> op, p |-> p, q |-> q, f |-> f, perm |-> perm, d |-> d, mt |-> mt]
P0 == CHOOSE x \in Perms : TRUE
D0 == CHOOSE x \in Datas : TRUE
T0 == CHOOSE x \in Times : TRUE

SpecOps  == {"mkdir", "mkdirall", "remove", "removeall", "chmod", "stat", "readdir", "readfile"}
ExtraOps == {"create", "lstat", "chown", "sub"}          \* only judged on invalid names
Calls ==
       { C(op, r, <<".">>, NoFlag, P0, << >>, "") : op \in SpecOps \cup ExtraOps, r \in RawNames }
  \cup { C("writefile", r, <<".">>, NoFlag, P0, D0, "") : r \in RawNames }
  \cup { C("chtimes", r, <<".">>, NoFlag, P0, << >>, T0) : r \in RawNames }
  \cup { C("open", r, <<".">>, f, P0, << >>, "") : r \in RawNames,
           f \in { NoFlag, Flag("WO", TRUE, FALSE, FALSE, FALSE), Flag("RW", TRUE, TRUE, TRUE, FALSE) } }
  \cup { C(op, r, ValidName, NoFlag, P0, << >>, "") : op \in {"rename", "symlink"}, r \in RawNames }
  \cup { C(op, ValidName, r, NoFlag, P0, << >>, "") : op \in {"rename", "symlink"}, r \in RawNames }
  \cup { C(op, r, <<"a", "..">>, NoFlag, P0, << >>, "") : op \in {"rename", "symlink"}, r \in RawNames }

TwoName(c) == c.op \in {"rename", "symlink"}
Eval(t, c) ==
  LET bad1 == ~Valid(c.p)  bad2 == TwoName(c) /\ ~Valid(c.q) IN
  IF bad1 \/ bad2 THEN
     [e |-> "EINVAL", ep |-> IF TwoName(c) THEN <<c.p, c.q>> ELSE <<c.p>>, o |-> "-", t |-> t,
      b |-> "invalid/" \o (IF bad1 THEN Shape(c.p) ELSE "second-" \o Shape(c.q))]
  ELSE IF c.op \in ExtraOps \cup {"symlink"} THEN
     \* valid name, operation outside FSCore: only "not refused as an invalid name" matters
     [e |-> "NOTNAME", ep |-> << >>, o |-> "-", t |-> t, b |-> "valid/" \o c.op]
  ELSE LET r == F!Eval(t, [c EXCEPT !.p = ToPath(c.p), !.q = ToPath(c.q)]) IN
     [e |-> r.e, ep |-> r.ep, o |-> r.o, t |-> r.t, b |-> "valid/" \o r.b]

CallSeq == SX!SetToSeq(Calls)
Tr(t, c) == LET r == Eval(t, c) IN
  [e |-> r.e, ep |-> r.ep, o |-> r.o, b |-> r.b, alt |-> IF r.e = "ROOTANY" THEN F!Empty ELSE "-",
   n |-> IF r.t = t THEN "=" ELSE r.t]
Line(t) == [s |-> t, r |-> [i \in 1..Len(CallSeq) |-> Tr(t, CallSeq[i])]]

Init == st = Fixture /\ PrintT(ToString([calls |-> CallSeq]))
\* one step deep: every call from the fixture (the gate is stateless; C01 covers histories of valid names)
Next == /\ st = Fixture
        /\ PrintT(ToString(Line(st)))
        /\ \E c \in Calls : st' = Eval(st, c).t /\ st' # st
Spec == Init /\ [][Next]_st

ModelProps ==
  st = Fixture => \A c \in Calls : LET r == Eval(st, c) IN
     /\ ((~Valid(c.p) \/ (TwoName(c) /\ ~Valid(c.q))) => r.e = "EINVAL" /\ r.t = st)
     /\ (Valid(c.p) /\ (TwoName(c) => Valid(c.q)) => ~(r.b \in {"invalid/empty"}))
     /\ F!WF(r.t)
=============================================================================
