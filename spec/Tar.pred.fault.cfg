SPECIFICATION SpecFine
CONSTANTS
  Alphabet <- ImplQuick
  MaxEntries = 2
  Wants <- NoClients
  EnvKinds <- OnlyFault
  MaxEnv = 1
  Fixed = FALSE
INVARIANT FaultSurfaces
CHECK_DEADLOCK FALSE
