SPECIFICATION Spec
CONSTANTS
  NewFs <- NewFsAll
  SubArgs <- SubArgsQ
  MaxRoot = 2
  ToNames <- ToNamesQ
  FromRests <- FromRestsQ
  FromVols <- FromVolsC
  FromRestsV <- FromRestsVQ
  SepElems <- SepElemsC
  LookPairs <- LookPairsC
  OsOps1 <- Empty
  OsOps2 <- Empty
  OsNames <- Empty
  OsNew <- Empty
INVARIANT ModelProps
CHECK_DEADLOCK FALSE
