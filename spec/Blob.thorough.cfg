SPECIFICATION Spec
CONSTANTS
  NS = 3
  MaxLen = 5
  InitData <- D4
  Lits <- L12
  Args <- A5
  MaxSteps = 3
INVARIANT ModelProps
CHECK_DEADLOCK FALSE
