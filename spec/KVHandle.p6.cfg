SPECIFICATION Spec
CONSTANTS
  Prog <- P6
  Present <- PresentB
  Start <- StartFileB
INVARIANT ModelProps
CHECK_DEADLOCK FALSE
