---------------------------- MODULE MC_MountAdd ----------------------------
EXTENDS MountAdd
T3 == {1, 2, 3}
T4 == {1, 2, 3, 4}
\* three goroutines on one point
PO_aaa == (1 :> "a" @@ 2 :> "a" @@ 3 :> "a")
\* two on one point, one on another
PO_aab == (1 :> "a" @@ 2 :> "a" @@ 3 :> "b")
\* a point below another point: whether "a/b" is found depends on whether "a" is mounted when it is looked up
PO_nest == (1 :> "a" @@ 2 :> "a/b" @@ 3 :> "a/b")
PO_nest4 == (1 :> "a" @@ 2 :> "a" @@ 3 :> "a/b" @@ 4 :> "b")
RK_dirs == [p \in {"a", "b", "a/b"} |-> "dir"]
RK_afile == [p \in {"a", "b", "a/b"} |-> IF p = "a" THEN "file" ELSE "dir"]
RK_bmissing == [p \in {"a", "b", "a/b"} |-> IF p = "b" THEN "missing" ELSE "dir"]
PR == {"a/x", "a/b/x", "b/x"}
PP == [q \in PR |-> IF q = "a/x" THEN {"a"} ELSE IF q = "a/b/x" THEN {"a", "a/b"} ELSE {"b"}]
DO == [p \in {"a", "b", "a/b"} |-> IF p = "a/b" THEN 2 ELSE 1]
=============================================================================
