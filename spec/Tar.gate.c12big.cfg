SPECIFICATION SpecGate
CONSTANTS
  Alphabet <- ImplBig
  MaxEntries = 2
  Wants <- NoClients
  EnvKinds <- None
  MaxEnv = 0
  Fixed = FALSE
INVARIANT ImplProps
INVARIANT FinalTreeIsArchive
CHECK_DEADLOCK FALSE
