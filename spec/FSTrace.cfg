SPECIFICATION Spec
INVARIANT WFInv
CHECK_DEADLOCK FALSE
