SPECIFICATION Spec
CONSTANTS
  Mode = "seq"
  Inits <- InitsIOQ
  NH = 2
  NT = 0
  MaxSteps = 5
  OpenNames <- NamesIO
  StatNames <- None
  ListNames <- None
  ReadLens <- RLq
  Seeks <- SKq
  Pages <- PGq
  MaxFail = 0
  StoreRemoves = TRUE
INVARIANT ModelProps
CHECK_DEADLOCK FALSE
