-------------------------------- MODULE DirH --------------------------------
(***************************************************************************)
(* Requirement specification of directory handles and by-name listings      *)
(* (properties C16, C17, part of C02): one directory "d" with K children,   *)
(* read through up to NH handles in pages.  Which entries a page contains   *)
(* is left to the implementation; the model tracks how many were consumed,  *)
(* the harness checks that pages partition the children (each exactly once, *)
(* kinds agreeing with Stat).                                               *)
(***************************************************************************)
EXTENDS Integers, Sequences, FiniteSets, TLC
SX == INSTANCE SequencesExt

CONSTANTS K,      \* number of children of the directory
          NH,     \* handle slots
          Pages   \* page sizes passed to ReadDir

VARIABLE st       \* [hs |-> <<[s, cur]>>]

Unused == [s |-> "unused", cur |-> 0]
Init0  == [k |-> K, hs |-> [i \in 1..NH |-> Unused]]
Min2(a, b) == IF a < b THEN a ELSE b

Res(e, cnt, s, b) == [e |-> e, cnt |-> cnt, st |-> s, b |-> b]
H(s, i) == s.hs[i]
SetH(s, i, h) == [s EXCEPT !.hs[i] = h]
Closed(s, i) == H(s, i).s = "closed"

Open(s, i)  == Res("ok", 0, SetH(s, i, [s |-> "open", cur |-> 0]), "open/dir")
ReadDirPage(s, i, n) ==
  LET h == H(s, i)  rem == K - h.cur IN
  IF Closed(s, i) THEN Res("FAIL", 0, s, "readdir/closed")
  ELSE IF n <= 0 THEN Res("ok", rem, SetH(s, i, [h EXCEPT !.cur = K]),
                          IF rem = 0 THEN "readdir/all-at-end" ELSE IF h.cur = 0 THEN "readdir/all-fresh" ELSE "readdir/all-rest")
  ELSE IF rem = 0 THEN Res("EOF", 0, s, IF K = 0 THEN "readdir/page-empty-dir" ELSE "readdir/page-at-end")
  ELSE LET c == Min2(n, rem) IN
       Res("ok", c, SetH(s, i, [h EXCEPT !.cur = h.cur + c]),
           IF c < n THEN "readdir/page-short" ELSE IF c = rem THEN "readdir/page-last-exact" ELSE "readdir/page")
ReadBytes(s, i) ==
  IF Closed(s, i) THEN Res("ECLOSED", 0, s, "read/closed") ELSE Res("FAIL", 0, s, "read/directory")
Rewind(s, i) ==
  IF Closed(s, i) THEN Res("ECLOSED", 0, s, "seek/closed")
  ELSE Res("ok", 0, SetH(s, i, [H(s, i) EXCEPT !.cur = 0]), "seek/rewind")
StatH(s, i) ==
  IF Closed(s, i) THEN Res("ECLOSED", 0, s, "stat/closed") ELSE Res("ok", 0, s, "stat/dir")
Close(s, i) ==
  IF Closed(s, i) THEN Res("ECLOSED", 0, s, "close/closed")
  ELSE Res("ok", 0, SetH(s, i, [H(s, i) EXCEPT !.s = "closed"]), "close/open")
\* by-name listings (FS level): the directory, a regular file, a missing name
ListDir(s)     == Res("ok", K, s, IF K = 0 THEN "list/empty" ELSE "list/dir")
ListFile(s)    == Res("ENOTDIR", 0, s, "list/file")
ListMissing(s) == Res("ENOENT", 0, s, "list/missing")

C(op, h, n) == [op |-> op, h |-> h, n |-> n]
HS == 1..NH
Calls ==      { C("open", i, 0) : i \in HS }
         \cup { C("readdir", i, n) : i \in HS, n \in Pages }
         \cup { C(op, i, 0) : i \in HS, op \in {"readbytes", "rewind", "stat", "close"} }
         \cup { C(op, 0, 0) : op \in {"listdir", "listfile", "listmissing"} }
Enabled(s, c) ==
  CASE c.op = "open" -> H(s, c.h).s = "unused" /\ \A j \in 1..(c.h - 1) : H(s, j).s # "unused"
    [] c.h = 0 -> TRUE
    [] OTHER -> H(s, c.h).s # "unused"
Eval(s, c) ==
  CASE c.op = "open"        -> Open(s, c.h)
    [] c.op = "readdir"     -> ReadDirPage(s, c.h, c.n)
    [] c.op = "readbytes"   -> ReadBytes(s, c.h)
    [] c.op = "rewind"      -> Rewind(s, c.h)
    [] c.op = "stat"        -> StatH(s, c.h)
    [] c.op = "close"       -> Close(s, c.h)
    [] c.op = "listdir"     -> ListDir(s)
    [] c.op = "listfile"    -> ListFile(s)
    [] c.op = "listmissing" -> ListMissing(s)

CallSeq == SX!SetToSeq(Calls)
Tr(s, c) ==
  IF ~Enabled(s, c) THEN [e |-> "-", n |-> "skip"]
  ELSE LET r == Eval(s, c) IN
    [e |-> r.e, cnt |-> r.cnt, b |-> r.b, n |-> IF r.st = s THEN "=" ELSE r.st]
Line(s) == [s |-> s, r |-> [i \in 1..Len(CallSeq) |-> Tr(s, CallSeq[i])]]

Init == st = Init0 /\ PrintT(ToString([calls |-> CallSeq]))
Next == /\ PrintT(ToString(Line(st)))
        /\ \E c \in Calls : Enabled(st, c) /\ st' = Eval(st, c).st
Spec == Init /\ [][Next]_st

ModelProps ==
  \A c \in { x \in Calls : Enabled(st, x) } : LET r == Eval(st, c) IN
    \* never an empty page with a nil error for a positive count; EOF exactly when nothing remains
    /\ (c.op = "readdir" /\ c.n > 0 /\ H(st, c.h).s = "open" => (r.cnt = 0) = (r.e = "EOF") /\ (r.e = "EOF") = (H(st, c.h).cur = K))
    \* a non-positive count returns everything that remains, with a nil error
    /\ (c.op = "readdir" /\ c.n <= 0 /\ H(st, c.h).s = "open" => r.e = "ok" /\ r.cnt = K - H(st, c.h).cur)
    \* pages never hand out more than the children
    /\ (c.h # 0 => r.st.hs[c.h].cur <= K)
    \* handles are independent
    /\ (c.h # 0 => \A j \in HS \ {c.h} : r.st.hs[j] = st.hs[j])
    \* closed handles fail
    /\ (c.h # 0 /\ c.op # "open" /\ H(st, c.h).s = "closed" => r.e \in {"FAIL", "ECLOSED"} /\ r.st = st)
=============================================================================
