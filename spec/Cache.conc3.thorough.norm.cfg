SPECIFICATION Spec
CONSTANTS
  Mode = "conc"
  Inits <- InitsConcT
  NH = 0
  NT = 3
  MaxSteps = 0
  OpenNames <- None
  StatNames <- None
  ListNames <- None
  ReadLens <- None
  Seeks <- None
  Pages <- None
  MaxFail = 1
  StoreRemoves = FALSE
INVARIANT ModelProps
CHECK_DEADLOCK FALSE
