------------------------------- MODULE MC_Tar -------------------------------
EXTENDS Tar
E(k, perm, raw, sz) == [k |-> k, perm |-> perm, raw |-> raw, sz |-> sz]
\* permission bits in decimal: 0755 = 493, 0750 = 488, 0644 = 420, 0640 = 416, 0600 = 384, 0444 = 292, 0705 = 453, 0711 = 457
DirA    == E("dir", 493, <<"a", "">>, "0")                      \* a/
DirAB   == E("dir", 488, <<".", "a", "b", "">>, "0")            \* ./a/b/
FileAF  == E("file", 420, <<"a", "f">>, "1")                    \* a/f
FileABG == E("file", 384, <<"", "a", "b", "g">>, "150k-1")      \* /a/b/g
FileAH  == E("file", 420, <<"a", "", "h">>, "150k")             \* a//h
FileB   == E("file", 416, <<"b">>, "150k+1")                    \* b
FileC   == E("file", 292, <<".", "c">>, "0")                    \* ./c
FileCs  == E("file", 292, <<"c", "">>, "1")                     \* c/   (regular entry spelled with a trailing slash)
FileBig == E("file", 420, <<"big">>, "4m")
FileAbX == E("file", 416, <<"ab", "x">>, "1")                   \* ab/x: an implicit directory whose name has "a" as a string prefix
DirRoot == E("dir", 457, <<".", "">>, "0")                      \* ./
DirD    == E("dir", 453, <<"", "..", "d", "">>, "0")            \* /../d/  (stays inside: Clean of a rooted path)
EscX    == E("file", 420, <<"..", "x">>, "1")                   \* ../x
EscDeep == E("dir", 493, <<"a", "..", "..", "x", "">>, "0")     \* a/../../x/
EscSelf == E("dir", 493, <<"..">>, "0")                         \* ..
EscFile == E("file", 420, <<"d", "..", "..">>, "1")             \* d/../..  (regular entry resolving to "..")

ReqQuick    == {DirA, DirAB, FileAF, FileABG, FileAH, FileB, FileC, DirRoot, DirD, EscX, EscDeep, EscSelf, FileAbX}
FileAFs == E("file", 420, <<"a", "f">>, "1")
ReqSched    == {DirA, DirAB, FileAF, DirD}
\* the failing destination (tar:writefail): several small entries, a big one, an empty one
ReqWF       == {FileAF, FileABG, FileB, FileC, FileAH}
ReqFour     == {DirA, DirAB, FileAF, FileABG, FileC, DirRoot, EscX, FileB}
ReqThorough == ReqQuick \cup {FileBig, EscFile}     \* FileCs: archive/tar refuses to write a regular entry whose name ends in "/"

\* fixed archives
Std == << DirA, FileAF, E("file", 420, <<"g">>, "155k"), E("file", 384, <<".", "b">>, "75k"), E("file", 292, <<"a", "z">>, "0"), E("dir", 488, <<"d", "e", "">>, "0") >>
StdSet == { Std }
Many == [ i \in 1..95 |-> E("file", 420, <<"m", ToString(i)>>, "1") ] \o << DirA, FileAF >>
ManySet == { Many }
CutSmall == << DirA, FileAF, E("file", 384, <<"b">>, "1") >>
CutSmallSet == { CutSmall }

\* TarImpl alphabets
G155 == E("file", 420, <<"g">>, "155k")
B75  == E("file", 384, <<"b">>, "75k")
G4m  == E("file", 420, <<"g">>, "4m")
H150 == E("file", 420, <<"h">>, "150k")
Z0   == E("file", 292, <<"a", "z">>, "0")
ImplQuick    == {DirA, FileAF, G155, B75}
ImplMore     == {DirA, FileAF, G155, B75, DirRoot, Z0, H150, EscX}
ImplKinds    == {DirRoot, Z0, H150, EscSelf, G155, DirA}
ImplFix      == {DirA, FileAF, G155, B75, EscSelf, EscFile}
ImplEsc      == {DirA, FileAF, EscSelf}
ImplBig      == {DirA, G4m, FileAF}
ImplTiny     == {FileAF, G155}
ImplBigOnly  == {G4m}
ImplC12      == {DirA, DirAB, FileAF, B75, DirRoot}
ImplC12More  == {DirA, DirAB, FileAF, B75, DirRoot, H150, Z0, DirD}

PA  == <<"a">>
PAF == <<"a", "f">>
PG  == <<"g">>
PB  == <<"b">>
PZ  == <<"zz">>
NoClients == { << >> }
One  == { <<p>> : p \in {PAF, PG, PA, PZ} }
OneG == { <<PG>> }
Two  == { <<PAF, PG>>, <<PG, PG>>, <<PA, PB>>, <<PG, PZ>> }
Three == { <<PG, PG, PAF>>, <<PAF, PB, PA>> }
OneTwo == One \cup { <<PAF, PG>>, <<PG, PG>> }
ThreeFew == { <<PG, PG, PAF>>, <<PAF, PB, PA>>, <<PG, PZ, PA>> }
None == {}
AllEnv == {"cancel", "cut", "err", "fault"}
OnlyCancel == {"cancel"}
OnlyCut == {"cut"}
OnlyFault == {"fault"}
=============================================================================
