SPECIFICATION Spec
CONSTANTS
  Names <- QNames
  MaxDepth = 3
  Perms <- QPerms
  Datas <- QDatas
  Times <- NoTimes
  RootOps = FALSE
  MaxTreeDepth = 3
  MaxNodes = 4
  FlagSets = "few"
INVARIANTS TypeOK InvWF ModelProps
CHECK_DEADLOCK FALSE
