SPECIFICATION Spec
CONSTANTS
  NewFs <- NewFsLinux
  SubArgs <- SubArgsOs
  MaxRoot = 2
  ToNames <- Empty
  FromRests <- Empty
  FromVols <- Empty
  FromRestsV <- Empty
  SepElems <- SepElemsC
  LookPairs <- LookPairsC
  OsOps1 <- OsOps1C
  OsOps2 <- OsOps2C
  OsNames <- OsNamesC
  OsNew <- OsNewC
INVARIANT ModelProps
CHECK_DEADLOCK FALSE
