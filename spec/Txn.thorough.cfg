SPECIFICATION Spec
CONSTANTS
  Keys <- K2
  Vals <- V2
  Handlers <- HAll
  MaxCalls = 5
INVARIANT ModelProps
CHECK_DEADLOCK FALSE
