SPECIFICATION Spec
CONSTANTS
  NH = 2
  MaxLen = 2
  Bytes <- B1
  WriteLens <- WL012
  ReadLens <- RL
  Offs <- OffQ
  Whences <- WhQ
  InitData <- D1
  NsOps = TRUE
INVARIANT ModelProps
CHECK_DEADLOCK FALSE
