SPECIFICATION Spec
CONSTANTS
  Mode = "seq"
  Inits <- InitsIOT
  NH = 2
  NT = 0
  MaxSteps = 6
  OpenNames <- NamesIO3
  StatNames <- None
  ListNames <- None
  ReadLens <- RLt
  Seeks <- SKt
  Pages <- PGt
  MaxFail = 0
  StoreRemoves = TRUE
INVARIANT ModelProps
CHECK_DEADLOCK FALSE
