SPECIFICATION SpecFine
CONSTANTS
  Alphabet <- ImplEsc
  MaxEntries = 1
  Wants <- NoClients
  EnvKinds <- None
  MaxEnv = 0
  Fixed = FALSE
INVARIANT EscapingNameFails
CHECK_DEADLOCK FALSE
