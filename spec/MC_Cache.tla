------------------------------ MODULE MC_Cache ------------------------------
EXTENDS Cache
\* entries: kind, permission bits, path, parent path, size class (index into Sz = <<0,1,511,512,513,2100>>)
E(k, m, p, par, z) == [k |-> k, m |-> m, p |-> p, par |-> par, z |-> z]
\* root { f, d { g, e { }, f } }
T2(fz, gz) == << E("dir", 493, ".", "", 1), E("file", 420, "f", ".", fz), E("dir", 448, "d", ".", 1),
                 E("file", 384, "d/g", "d", gz), E("dir", 493, "d/e", "d", 1), E("file", 292, "d/f", "d", 1) >>
\* root { f, d { g, e { h }, f } }: a file at depth 3 (MkdirAll creates two levels in the cache store)
T3(fz, gz, hz) == << E("dir", 493, ".", "", 1), E("file", 420, "f", ".", fz), E("dir", 448, "d", ".", 1),
                     E("file", 384, "d/g", "d", gz), E("dir", 493, "d/e", "d", 1), E("file", 292, "d/f", "d", 1),
                     E("file", 420, "d/e/h", "d/e", hz) >>
Cfg(eof, keep, pol, seek, target) == [eof |-> eof, keep |-> keep, pol |-> pol, seek |-> seek, target |-> target]
Pols == { <<"always", {}>>, <<"never", {}>>, <<"name", {"d/g"}>>, <<"size", {}>> }
\* all policies on a seekable source that reports EOF with the last bytes; the default policy on the other source kinds
CfgsQ == { Cfg("with", p[2], p[1], TRUE, "") : p \in Pols } \cup { Cfg("late", {}, "always", FALSE, ""), Cfg("late", {}, "always", TRUE, "") }
CfgsT == { Cfg("with", p[2], p[1], TRUE, "") : p \in Pols } \cup { Cfg("late", p[2], p[1], FALSE, "") : p \in Pols }
TreesQ == { T2(5, 1), T2(6, 4), T2(2, 3) }
TreesT == { T2(1, 3), T2(4, 5), T2(6, 2), T3(5, 4, 6), T3(2, 6, 1) }

InitsOpensQ == { [cfg |-> c, src |-> t] : c \in CfgsQ, t \in TreesQ }
InitsOpensT == { [cfg |-> c, src |-> t] : c \in CfgsT, t \in TreesT }
\* handle I/O: one policy that fills, one that passes through, both source kinds
CfgsIO   == { Cfg("with", {}, "always", TRUE, ""), Cfg("late", {}, "never", TRUE, ""), Cfg("late", {}, "always", FALSE, "") }
InitsIOQ == { [cfg |-> c, src |-> t] : c \in CfgsIO, t \in { T2(5, 1), T2(6, 4) } }
InitsIOT == { [cfg |-> c, src |-> t] : c \in CfgsIO, t \in { T2(a, 1) : a \in 1..6 } }
\* fault enumeration starts: every size class at depth 1, 2 and 3
InitsFault  == { [cfg |-> c, src |-> t] : c \in { Cfg("with", {}, "always", TRUE, ""), Cfg("late", {}, "always", FALSE, "") },
                                           t \in { T3(1, 2, 3), T3(4, 5, 6), T3(6, 1, 4) } }
InitsFaultQ == { [cfg |-> c, src |-> t] : c \in { Cfg("with", {}, "always", TRUE, ""), Cfg("late", {}, "always", FALSE, "") },
                                           t \in { T3(2, 5, 6), T3(4, 1, 3) } }
\* concurrent first opens of one name
ConcTree(z) == << E("dir", 493, ".", "", 1), E("dir", 448, "d", ".", 1), E("file", 384, "d/g", "d", z) >>
InitsConcQ == { [cfg |-> Cfg(e, {}, "always", TRUE, "d/g"), src |-> ConcTree(z)] : e \in {"with"}, z \in {1, 4, 5} }
InitsConcT == { [cfg |-> Cfg(e, {}, "always", TRUE, "d/g"), src |-> ConcTree(z)] : e \in {"with", "late"}, z \in {1, 2, 4, 5, 6} }
              \cup { [cfg |-> Cfg("with", {}, "always", FALSE, "d/g"), src |-> ConcTree(z)] : z \in {4, 5} }

NamesAll  == {".", "f", "d", "d/g", "d/e", "d/f", "m"}
NamesAll3 == NamesAll \cup {"d/e/h"}
NamesFew  == {"f", "d", "d/g", "d/f", "m"}
\* a file at depth 3 opened after a file at depth 2 (the ancestor of its parent then exists in the cache store, the parent does not)
NamesDeep == {"f", "d/g", "d/e/h"}
DirsDeep  == {"d/e"}
InitsDeepQ == { [cfg |-> c, src |-> T3(2, 5, 6)] : c \in { Cfg("with", {}, "always", TRUE, ""), Cfg("late", {}, "always", FALSE, "") } }
NamesIO   == {"f", "d"}
NamesIO3  == {"f", "d", "d/e"}
NamesF3   == {"f", "d/g", "d/e/h"}
Dirs      == {".", "d", "d/e", "m"}
DirsFew   == {"d", "m"}
None      == {}
RLq == {0, 1, 512, 100000}
RLt == {0, 1, 511, 513, 100000}
RLall == {100000}
SKq == { <<0, 0>>, <<-1, 2>>, <<1, 1>> }
SKt == { <<0, 0>>, <<-1, 2>>, <<1, 1>>, <<-1, 0>>, <<1, 2>>, <<0, 5>> }
SK0 == { <<0, 0>> }
PGq == {-1, 1, 2}
PGt == {-1, 0, 1, 2, 3, 4, 1000000}
=============================================================================
