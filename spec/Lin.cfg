SPECIFICATION Spec
CONSTANTS
  Names = {"a", "b", "c"}
  MaxDepth = 0
  Perms = {420}
  Datas = {}
  Times = {}
  RootOps = TRUE
  MaxTreeDepth = 9
  MaxNodes = 99
  FlagSets = "few"
INVARIANTS Report WFInv
CHECK_DEADLOCK FALSE
