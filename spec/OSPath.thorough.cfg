SPECIFICATION Spec
CONSTANTS
  NewFs <- NewFsAll
  SubArgs <- SubArgsT
  MaxRoot = 3
  ToNames <- ToNamesT
  FromRests <- FromRestsT
  FromVols <- FromVolsC
  FromRestsV <- FromRestsVT
  SepElems <- SepElemsC
  LookPairs <- LookPairsC
  OsOps1 <- Empty
  OsOps2 <- Empty
  OsNames <- Empty
  OsNew <- Empty
INVARIANT ModelProps
CHECK_DEADLOCK FALSE
