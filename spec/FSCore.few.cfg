SPECIFICATION Spec
CONSTANTS
  Names <- QNames
  MaxDepth = 2
  Perms <- QPerms
  Datas <- QDatas
  Times <- NoTimes
  RootOps = FALSE
  MaxTreeDepth = 2
  MaxNodes = 6
  FlagSets = "few"
INVARIANTS TypeOK InvWF ModelProps
CHECK_DEADLOCK FALSE
