SPECIFICATION Spec
CONSTANTS
  K = 0
  NH = 2
  Pages <- PagesQ
INVARIANT ModelProps
CHECK_DEADLOCK FALSE
