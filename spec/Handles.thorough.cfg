SPECIFICATION Spec
CONSTANTS
  NH = 2
  MaxLen = 3
  Bytes <- B1
  WriteLens <- WL012
  ReadLens <- RL4
  Offs <- OffT
  Whences <- WhT
  InitData <- D1
  NsOps = TRUE
INVARIANT ModelProps
CHECK_DEADLOCK FALSE
