SPECIFICATION Spec
CONSTANTS
  Names <- OneName
  MaxDepth = 2
  Perms <- TPerms
  Datas <- QDatas
  Times <- TTimes
  RootOps = FALSE
  MaxTreeDepth = 2
  MaxNodes = 2
  FlagSets = "few"
INVARIANTS TypeOK InvWF ModelProps
CHECK_DEADLOCK FALSE
