------------------------------- MODULE FSTrace -------------------------------
(***************************************************************************)
(* Validation of recorded executions (mechanism B, sequential): the real   *)
(* file systems run the repository's own conformance scenarios behind a    *)
(* logging wrapper (harness/tracefs); every FS-level call and every call   *)
(* on a handle is one record of TraceData!Events, with its arguments and    *)
(* what it returned.  This module replays the log through the SAME         *)
(* operators TLC model-checks elsewhere - FSCore!Eval for the namespace,   *)
(* Handles!Eval for reads, writes, seeks, truncation and closing - and     *)
(* compares every result.  The trace is deterministic given the log, so    *)
(* the state space is a line; a record that does not match is reported     *)
(* (REJECT) and the rest of that file system's log is skipped.             *)
(*                                                                         *)
(* The two specifications are joined by path: a handle refers to the file  *)
(* at its path; Rename rewrites the paths of the handles below the moved   *)
(* name; Remove, RemoveAll and a Rename that replaces a file turn the      *)
(* handles of the vanished file into handles of an unlinked file whose     *)
(* bytes live on, shared by all handles that had it open (the inode lives  *)
(* on, the name is gone: what Handles.tla calls link = "none").            *)
(***************************************************************************)
EXTENDS Integers, Sequences, FiniteSets, TLC

VARIABLES i,     \* index of the next record
          t,     \* namespace (FSCore tree)
          hs,    \* handle id -> [p, un, dir, h]; un = 0: the file is linked at p; un = g > 0: unlinked, contents in orph[g]
          orph,  \* unlinked files that still have handles: group id -> bytes (all handles of one file share them)
          dead,  \* the current file system's log was rejected: skip to the next reset
          tid,   \* id of the current file system
          cov    \* specification branches taken by accepted records

D  == INSTANCE TraceData
F  == INSTANCE FSCore WITH tree <- t, Names <- {}, MaxDepth <- 0, Perms <- {}, Datas <- {}, Times <- {}, RootOps <- TRUE,
                           MaxTreeDepth <- 99, MaxNodes <- 9999, FlagSets <- "few"
HN == INSTANCE Handles WITH st <- hs, NH <- 1, MaxLen <- 0, Bytes <- {}, WriteLens <- {}, ReadLens <- {}, Offs <- {}, Whences <- {},
                            InitData <- << >>, NsOps <- FALSE
E  == D!Events
Ev == E[i]
NoHandles == [x \in {} |-> 0]

IsPre(a, b) == Len(a) <= Len(b) /\ SubSeq(b, 1, Len(a)) = a

\* ---- namespace records -------------------------------------------------------------------------
MatchErr(m, o) == m = o \/ (m = "OTHER" /\ o # "ok")
MatchOut(op, m, o) ==
  CASE op = "stat" -> /\ m.k = o.k
                      /\ (m.perm = -1 \/ m.perm = o.perm)
                      /\ (m.size = -1 \/ m.size = o.size)
    [] op \in {"readdir", "readfile"} -> m = o
    [] OTHER -> TRUE

FileData(tr, p) == IF p \in DOMAIN tr /\ tr[p].k = "file" THEN tr[p].d ELSE << >>
\* the handles that have the file at p open share one group: the smallest of their ids
Group(p) == LET S == { x \in DOMAIN hs : hs[x].un = 0 /\ hs[x].p = p } IN CHOOSE g \in S : \A y \in S : g <= y
Unlink(h) == [h EXCEPT !.un = Group(h.p)]
\* what a successful Remove / RemoveAll / Rename does to the open handles
Adjust(c, h) ==
  IF h.un # 0 THEN h
  ELSE CASE c.op = "remove" /\ h.p = c.p -> Unlink(h)
         [] c.op = "removeall" /\ IsPre(c.p, h.p) -> Unlink(h)
         [] c.op = "rename" /\ c.p # c.q /\ h.p = c.q -> Unlink(h)                         \* the replaced file
         [] c.op = "rename" /\ c.p # c.q /\ IsPre(c.p, h.p) ->
              [h EXCEPT !.p = c.q \o SubSeq(h.p, Len(c.p) + 1, Len(h.p))]                  \* the handle follows the file
         [] OTHER -> h

FsStep ==
  LET c == Ev.c
      r == F!Eval(t, c)
      rootany == r.e = "ROOTANY"     \* removing the root: either refusal or an emptied root is accepted
      nosys == Ev.e = "ENOSYS"       \* the file system does not offer the operation: nothing happens
      ok == \/ nosys
            \/ rootany
            \/ (MatchErr(r.e, Ev.e) /\ (r.e = "ok" => MatchOut(c.op, r.o, Ev.o)))
      t1 == IF nosys THEN t ELSE IF rootany THEN (IF Ev.e = "ok" THEN F!Empty ELSE t) ELSE r.t
      changed == ~nosys /\ Ev.e = "ok" /\ c.op \in {"remove", "removeall", "rename"}
      hs0 == IF changed THEN [x \in DOMAIN hs |-> Adjust(c, hs[x])] ELSE hs
      \* a directory handle may go on listing what it buffered before the namespace changed
      hs1 == IF ~nosys /\ t1 # t THEN [x \in DOMAIN hs0 |-> [hs0[x] EXCEPT !.stale = TRUE]] ELSE hs0
      \* the files that lost their name just now keep their bytes for their handles
      gone == { x \in DOMAIN hs : hs[x].un = 0 /\ hs1[x].un # 0 }
      orph1 == [g \in (DOMAIN orph) \cup { hs1[x].un : x \in gone } |->
                  IF g \in DOMAIN orph THEN orph[g] ELSE FileData(t, hs[g].p)]
      opened == ~nosys /\ c.op = "open" /\ Ev.e = "ok"
      newh == [p |-> c.p, un |-> 0, stale |-> FALSE, dir |-> (c.p \in DOMAIN t1 /\ t1[c.p].k = "dir"),
               h |-> [s |-> "open", acc |-> c.f.acc, app |-> c.f.ap, off |-> 0]]
  IN /\ IF ok THEN /\ t' = t1
                   /\ hs' = IF opened THEN (Ev.hid :> newh) @@ hs1 ELSE hs1
                   /\ orph' = orph1
                   /\ dead' = FALSE
                   /\ cov' = cov \cup {IF nosys THEN c.op \o "/not-offered" ELSE r.b}
             ELSE /\ PrintT(<<"REJECT", tid, i, "fs", c.op, r.b, "expected", r.e, "observed", IF MatchErr(r.e, Ev.e) THEN "different-output" ELSE Ev.e>>)
                  \* a query changes nothing whatever it answered: the log stays in step with the model and is checked further
                  /\ dead' = (c.op \notin {"stat", "readdir", "readfile"})
                  /\ UNCHANGED <<t, hs, orph, cov>>

\* ---- handle records ----------------------------------------------------------------------------
HMatch(op, r, ev) ==
  CASE r.e = "ANY"     -> TRUE
    [] r.e = "ZERO"    -> ev.cnt = 0
    [] r.e = "FAIL"    -> ev.e # "ok"
    [] r.e = "ECLOSED" -> ev.e = "ECLOSED"
    [] r.e = "EOF"     -> ev.e = "EOF" /\ (op \in {"read", "readat"} => ev.cnt = r.n /\ ev.rb = r.bs)
    [] r.e = "ok"      ->
         /\ (ev.e = "ok" \/ (ev.e = "EOF" /\ r.may))
         /\ CASE op \in {"read", "readat"}   -> ev.cnt = r.n /\ ev.rb = r.bs
              [] op \in {"write", "writeat"} -> ev.cnt = r.n
              [] op = "seek"                 -> ev.ret = r.ret
              [] op = "stat"                 -> ev.ret = r.ret /\ ev.sk = "file"
              [] OTHER                       -> TRUE

HStep ==
  LET hid == Ev.h
      hr  == hs[hid]
      op  == Ev.op
      data == IF hr.un # 0 THEN orph[hr.un] ELSE FileData(t, hr.p)
      ps  == [data |-> data, link |-> "f", hs |-> <<hr.h>>]
      call == HN!C(op, 1, Ev.n, Ev.off, Ev.bs, Ev.wh, "RO", FALSE, FALSE)
      r   == HN!Eval(ps, call)
      nosys == Ev.e = "ENOSYS"
      \* directory handles: only their life cycle and the membership of what they list are checked here (paging: DirH.tla)
      closed == hr.h.s = "closed"
      kids == IF hr.un # 0 \/ hr.p \notin DOMAIN t THEN {} ELSE { [n |-> x[Len(x)], k |-> t[x].k] : x \in F!Kids(t, hr.p) }
      dirok == CASE op = "close"   -> IF closed THEN Ev.e # "ok" ELSE Ev.e = "ok"
                 [] op = "readdir" -> IF closed THEN Ev.e # "ok"
                                      ELSE IF hr.un # 0 THEN TRUE   \* a removed directory: listing it may fail or list nothing
                                      ELSE (Ev.e \in {"ok", "EOF"} /\ (hr.stale \/ Ev.ls \subseteq kids))
                 [] op = "stat"    -> IF closed THEN Ev.e # "ok" ELSE (Ev.e = "ok" /\ Ev.sk = "dir")
                 [] OTHER          -> TRUE
      ok == IF nosys THEN TRUE ELSE IF hr.dir THEN dirok ELSE HMatch(op, r, Ev)
      applies == ~nosys /\ ~hr.dir /\ r.e = "ok"
      newdata == IF applies THEN r.st.data ELSE data
      newh == IF nosys THEN hr.h
              ELSE IF hr.dir THEN (IF op = "close" /\ ~closed THEN [hr.h EXCEPT !.s = "closed"] ELSE hr.h)
              ELSE IF applies THEN r.st.hs[1] ELSE hr.h
      chmod == ~nosys /\ op = "chmod" /\ Ev.e = "ok" /\ hr.un = 0 /\ hr.p \in DOMAIN t /\ hr.p # << >>
      t1 == IF hr.un = 0 /\ ~hr.dir /\ newdata # data THEN [t EXCEPT ![hr.p].d = newdata, ![hr.p].mt = "*"] ELSE t
      t2 == IF chmod THEN [t1 EXCEPT ![hr.p].perm = Ev.perm] ELSE t1
  IN /\ IF hid \notin DOMAIN hs
        THEN /\ PrintT(<<"REJECT", tid, i, "h", Ev.op, "unknown-handle", "expected", "-", "observed", Ev.e>>)
             /\ dead' = TRUE /\ UNCHANGED <<t, hs, orph, cov>>
        ELSE IF ok
        THEN /\ t' = t2
             /\ hs' = [hs EXCEPT ![hid].h = newh]
             /\ orph' = IF hr.un # 0 /\ ~hr.dir THEN [orph EXCEPT ![hr.un] = newdata] ELSE orph
             /\ dead' = FALSE
             /\ cov' = cov \cup {IF nosys THEN op \o "/not-offered" ELSE IF hr.dir THEN "dirhandle/" \o op ELSE r.b}
        ELSE /\ PrintT(<<"REJECT", tid, i, "h", op, IF hr.dir THEN "dirhandle/" \o op ELSE r.b, "expected", IF hr.dir THEN "-" ELSE r.e,
                        "observed", IF ~hr.dir /\ (r.e = Ev.e \/ (r.e = "ok" /\ Ev.e = "EOF" /\ r.may)) THEN "different-data" ELSE Ev.e>>)
             /\ dead' = TRUE
             /\ UNCHANGED <<t, hs, orph, cov>>

\* ---- the line -----------------------------------------------------------------------------------
Init == /\ i = 1 /\ t = F!Empty /\ hs = NoHandles /\ orph = NoHandles /\ dead = FALSE /\ tid = 0 /\ cov = {}
Step ==
  /\ i <= Len(E)
  /\ i' = i + 1
  /\ CASE Ev.k = "reset" -> /\ t' = F!Empty /\ hs' = NoHandles /\ orph' = NoHandles /\ dead' = FALSE /\ tid' = Ev.id /\ UNCHANGED cov
       [] dead           -> UNCHANGED <<t, hs, orph, dead, tid, cov>>
       [] Ev.k = "inv"   -> \* a name that is no path at all: ErrInvalid (or not offered), nothing changes (NameGate.tla has the details)
                            /\ IF Ev.e \in {"EINVAL", "ENOSYS"} THEN dead' = FALSE
                               ELSE PrintT(<<"REJECT", tid, i, "fs", Ev.op, "invalid-name", "expected", "EINVAL", "observed", Ev.e>>) /\ dead' = TRUE
                            /\ UNCHANGED <<t, hs, orph, tid, cov>>
       [] Ev.k = "panic" -> \* the real code panicked inside this call
                            /\ PrintT(<<"REJECT", tid, i, Ev.kind, Ev.op, "no-panic", "expected", "-", "observed", "PANIC">>)
                            /\ dead' = TRUE
                            /\ UNCHANGED <<t, hs, orph, tid, cov>>
       [] Ev.k = "fs"    -> FsStep /\ UNCHANGED tid
       [] Ev.k = "h"     -> HStep /\ UNCHANGED tid
Done == /\ i = Len(E) + 1
        /\ PrintT(<<"BRANCHES", cov>>)
        /\ i' = i + 1 /\ UNCHANGED <<t, hs, orph, dead, tid, cov>>
Next == Step \/ Done
Spec == Init /\ [][Next]_<<i, t, hs, orph, dead, tid, cov>>

\* the namespace the log leads through is always a well-formed tree
WFInv == F!WF(t)
=============================================================================
