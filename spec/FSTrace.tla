------------------------------- MODULE FSTrace -------------------------------
(***************************************************************************)
(* Validation of recorded executions (mechanism B, sequential): the real   *)
(* file systems run the repository's own conformance scenarios behind a    *)
(* logging wrapper (harness/tracefs); every FS-level call and every call   *)
(* on a handle is one record of TraceData!Events, with its arguments and    *)
(* what it returned.  This module replays the log through the SAME         *)
(* operators TLC model-checks elsewhere - FSCore!Eval for the namespace,   *)
(* Handles!Eval for reads, writes, seeks, truncation and closing - and     *)
(* compares every result.  The trace is deterministic given the log, so    *)
(* the state space is a line; a record that does not match is reported     *)
(* (REJECT) and the rest of that file system's log is skipped.             *)
(*                                                                         *)
(* The two specifications are joined by path: a handle refers to the file  *)
(* at its path; Rename rewrites the paths of the handles below the moved   *)
(* name; Remove, RemoveAll and a Rename that replaces a file turn the      *)
(* handles of the vanished file into handles of an unlinked file with a    *)
(* private copy of its bytes (the inode lives on, the name is gone: what   *)
(* Handles.tla calls link = "none").                                       *)
(***************************************************************************)
EXTENDS Integers, Sequences, FiniteSets, TLC

VARIABLES i,     \* index of the next record
          t,     \* namespace (FSCore tree)
          hs,    \* handle id -> [p, un, d, dir, h]
          dead,  \* the current file system's log was rejected: skip to the next reset
          tid,   \* id of the current file system
          cov    \* specification branches taken by accepted records

D  == INSTANCE TraceData
F  == INSTANCE FSCore WITH tree <- t, Names <- {}, MaxDepth <- 0, Perms <- {}, Datas <- {}, Times <- {}, RootOps <- TRUE,
                           MaxTreeDepth <- 99, MaxNodes <- 9999, FlagSets <- "few"
HN == INSTANCE Handles WITH st <- hs, NH <- 1, MaxLen <- 0, Bytes <- {}, WriteLens <- {}, ReadLens <- {}, Offs <- {}, Whences <- {},
                            InitData <- << >>, NsOps <- FALSE
E  == D!Events
Ev == E[i]
NoHandles == [x \in {} |-> 0]

IsPre(a, b) == Len(a) <= Len(b) /\ SubSeq(b, 1, Len(a)) = a

\* ---- namespace records -------------------------------------------------------------------------
MatchErr(m, o) == m = o \/ (m = "OTHER" /\ o # "ok")
MatchOut(op, m, o) ==
  CASE op = "stat" -> /\ m.k = o.k
                      /\ (m.perm = -1 \/ m.perm = o.perm)
                      /\ (m.size = -1 \/ m.size = o.size)
    [] op \in {"readdir", "readfile"} -> m = o
    [] OTHER -> TRUE

FileData(tr, p) == IF p \in DOMAIN tr /\ tr[p].k = "file" THEN tr[p].d ELSE << >>
Unlink(h) == [h EXCEPT !.un = TRUE, !.d = FileData(t, h.p)]
\* what a successful Remove / RemoveAll / Rename does to the open handles
Adjust(c, h) ==
  IF h.un THEN h
  ELSE CASE c.op = "remove" /\ h.p = c.p -> Unlink(h)
         [] c.op = "removeall" /\ IsPre(c.p, h.p) -> Unlink(h)
         [] c.op = "rename" /\ c.p # c.q /\ h.p = c.q -> Unlink(h)                         \* the replaced file
         [] c.op = "rename" /\ c.p # c.q /\ IsPre(c.p, h.p) ->
              [h EXCEPT !.p = c.q \o SubSeq(h.p, Len(c.p) + 1, Len(h.p))]                  \* the handle follows the file
         [] OTHER -> h

FsStep ==
  LET c == Ev.c
      r == F!Eval(t, c)
      rootany == r.e = "ROOTANY"     \* removing the root: either refusal or an emptied root is accepted
      nosys == Ev.e = "ENOSYS"       \* the file system does not offer the operation: nothing happens
      ok == \/ nosys
            \/ rootany
            \/ (MatchErr(r.e, Ev.e) /\ (r.e = "ok" => MatchOut(c.op, r.o, Ev.o)))
      t1 == IF nosys THEN t ELSE IF rootany THEN (IF Ev.e = "ok" THEN F!Empty ELSE t) ELSE r.t
      changed == ~nosys /\ Ev.e = "ok" /\ c.op \in {"remove", "removeall", "rename"}
      hs1 == IF changed THEN [x \in DOMAIN hs |-> Adjust(c, hs[x])] ELSE hs
      opened == ~nosys /\ c.op = "open" /\ Ev.e = "ok"
      newh == [p |-> c.p, un |-> FALSE, d |-> << >>, dir |-> (c.p \in DOMAIN t1 /\ t1[c.p].k = "dir"),
               h |-> [s |-> "open", acc |-> c.f.acc, app |-> c.f.ap, off |-> 0]]
  IN /\ IF ok THEN /\ t' = t1
                   /\ hs' = IF opened THEN (Ev.hid :> newh) @@ hs1 ELSE hs1
                   /\ dead' = FALSE
                   /\ cov' = cov \cup {IF nosys THEN c.op \o "/not-offered" ELSE r.b}
             ELSE /\ PrintT(<<"REJECT", tid, i, "fs", c.op, r.b, "expected", r.e, "observed", IF MatchErr(r.e, Ev.e) THEN "different-output" ELSE Ev.e>>)
                  /\ dead' = TRUE
                  /\ UNCHANGED <<t, hs, cov>>

\* ---- handle records ----------------------------------------------------------------------------
HMatch(op, r, ev) ==
  CASE r.e = "ANY"     -> TRUE
    [] r.e = "ZERO"    -> ev.cnt = 0
    [] r.e = "FAIL"    -> ev.e # "ok"
    [] r.e = "ECLOSED" -> ev.e = "ECLOSED"
    [] r.e = "EOF"     -> ev.e = "EOF" /\ (op \in {"read", "readat"} => ev.cnt = r.n /\ ev.rb = r.bs)
    [] r.e = "ok"      ->
         /\ (ev.e = "ok" \/ (ev.e = "EOF" /\ r.may))
         /\ CASE op \in {"read", "readat"}   -> ev.cnt = r.n /\ ev.rb = r.bs
              [] op \in {"write", "writeat"} -> ev.cnt = r.n
              [] op = "seek"                 -> ev.ret = r.ret
              [] op = "stat"                 -> ev.ret = r.ret /\ ev.sk = "file"
              [] OTHER                       -> TRUE

HStep ==
  LET hid == Ev.h
      hr  == hs[hid]
      op  == Ev.op
      data == IF hr.un THEN hr.d ELSE FileData(t, hr.p)
      ps  == [data |-> data, link |-> "f", hs |-> <<hr.h>>]
      call == HN!C(op, 1, Ev.n, Ev.off, Ev.bs, Ev.wh, "RO", FALSE, FALSE)
      r   == HN!Eval(ps, call)
      nosys == Ev.e = "ENOSYS"
      \* directory handles: only their life cycle and the membership of what they list are checked here (paging: DirH.tla)
      closed == hr.h.s = "closed"
      kids == IF hr.un \/ hr.p \notin DOMAIN t THEN {} ELSE { [n |-> x[Len(x)], k |-> t[x].k] : x \in F!Kids(t, hr.p) }
      dirok == CASE op = "close"   -> IF closed THEN Ev.e # "ok" ELSE Ev.e = "ok"
                 [] op = "readdir" -> IF closed THEN Ev.e # "ok" ELSE (Ev.e \in {"ok", "EOF"} /\ (hr.un \/ Ev.ls \subseteq kids))
                 [] op = "stat"    -> IF closed THEN Ev.e # "ok" ELSE (Ev.e = "ok" /\ Ev.sk = "dir")
                 [] OTHER          -> TRUE
      ok == IF nosys THEN TRUE ELSE IF hr.dir THEN dirok ELSE HMatch(op, r, Ev)
      applies == ~nosys /\ ~hr.dir /\ r.e = "ok"
      newdata == IF applies THEN r.st.data ELSE data
      newh == IF nosys THEN hr.h
              ELSE IF hr.dir THEN (IF op = "close" /\ ~closed THEN [hr.h EXCEPT !.s = "closed"] ELSE hr.h)
              ELSE IF applies THEN r.st.hs[1] ELSE hr.h
      chmod == ~nosys /\ op = "chmod" /\ Ev.e = "ok" /\ ~hr.un /\ hr.p \in DOMAIN t /\ hr.p # << >>
      t1 == IF ~hr.un /\ ~hr.dir /\ newdata # data THEN [t EXCEPT ![hr.p].d = newdata, ![hr.p].mt = "*"] ELSE t
      t2 == IF chmod THEN [t1 EXCEPT ![hr.p].perm = Ev.perm] ELSE t1
  IN /\ IF hid \notin DOMAIN hs
        THEN /\ PrintT(<<"REJECT", tid, i, "h", Ev.op, "unknown-handle", "expected", "-", "observed", Ev.e>>)
             /\ dead' = TRUE /\ UNCHANGED <<t, hs, cov>>
        ELSE IF ok
        THEN /\ t' = t2
             /\ hs' = [hs EXCEPT ![hid].h = newh, ![hid].d = IF hr.un THEN newdata ELSE @]
             /\ dead' = FALSE
             /\ cov' = cov \cup {IF nosys THEN op \o "/not-offered" ELSE IF hr.dir THEN "dirhandle/" \o op ELSE r.b}
        ELSE /\ PrintT(<<"REJECT", tid, i, "h", op, IF hr.dir THEN "dirhandle/" \o op ELSE r.b, "expected", IF hr.dir THEN "-" ELSE r.e,
                        "observed", IF ~hr.dir /\ (r.e = Ev.e \/ (r.e = "ok" /\ Ev.e = "EOF" /\ r.may)) THEN "different-data" ELSE Ev.e>>)
             /\ dead' = TRUE
             /\ UNCHANGED <<t, hs, cov>>

\* ---- the line -----------------------------------------------------------------------------------
Init == /\ i = 1 /\ t = F!Empty /\ hs = NoHandles /\ dead = FALSE /\ tid = 0 /\ cov = {}
Step ==
  /\ i <= Len(E)
  /\ i' = i + 1
  /\ CASE Ev.k = "reset" -> /\ t' = F!Empty /\ hs' = NoHandles /\ dead' = FALSE /\ tid' = Ev.id /\ UNCHANGED cov
       [] dead           -> UNCHANGED <<t, hs, dead, tid, cov>>
       [] Ev.k = "inv"   -> \* a name that is no path at all: ErrInvalid (or not offered), nothing changes (NameGate.tla has the details)
                            /\ IF Ev.e \in {"EINVAL", "ENOSYS"} THEN dead' = FALSE
                               ELSE PrintT(<<"REJECT", tid, i, "fs", Ev.op, "invalid-name", "expected", "EINVAL", "observed", Ev.e>>) /\ dead' = TRUE
                            /\ UNCHANGED <<t, hs, tid, cov>>
       [] Ev.k = "fs"    -> FsStep /\ UNCHANGED tid
       [] Ev.k = "h"     -> HStep /\ UNCHANGED tid
Done == /\ i = Len(E) + 1
        /\ PrintT(<<"BRANCHES", cov>>)
        /\ i' = i + 1 /\ UNCHANGED <<t, hs, dead, tid, cov>>
Next == Step \/ Done
Spec == Init /\ [][Next]_<<i, t, hs, dead, tid, cov>>

\* the namespace the log leads through is always a well-formed tree
WFInv == F!WF(t)
=============================================================================
