SPECIFICATION SpecFine
CONSTANTS
  Alphabet <- ImplTiny
  MaxEntries = 1
  Wants <- OneG
  EnvKinds <- OnlyCancel
  MaxEnv = 1
  Fixed = FALSE
INVARIANT NoSuccessOnIncomplete
CHECK_DEADLOCK FALSE
