SPECIFICATION Spec
CONSTANTS
  Names <- SNames
  MaxDepth = 2
  Perms <- QPerms
  Datas <- OneData
  Times <- NoTimes
  RootOps = FALSE
  MaxTreeDepth = 2
  MaxNodes = 5
  FlagSets = "few"
INVARIANTS TypeOK InvWF ModelProps
CHECK_DEADLOCK FALSE
