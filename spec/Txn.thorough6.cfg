SPECIFICATION Spec
CONSTANTS
  Keys <- K1
  Vals <- V1
  Handlers <- HAll
  MaxCalls = 6
INVARIANT ModelProps
CHECK_DEADLOCK FALSE
