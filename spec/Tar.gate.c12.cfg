SPECIFICATION SpecGate
CONSTANTS
  Alphabet <- ImplC12
  MaxEntries = 3
  Wants <- NoClients
  EnvKinds <- None
  MaxEnv = 0
  Fixed = FALSE
INVARIANT ImplProps
INVARIANT FinalTreeIsArchive
CHECK_DEADLOCK FALSE
