SPECIFICATION SpecLive
CONSTANTS
  Alphabet <- ImplQuick
  MaxEntries = 2
  Wants <- Two
  EnvKinds <- AllEnv
  MaxEnv = 1
  Fixed = FALSE
INVARIANT ImplProps
PROPERTY Termination
CHECK_DEADLOCK FALSE
