SPECIFICATION Spec
CONSTANTS
  Prog <- P3
  Present <- PresentB
  Start <- StartFileB
INVARIANT ModelProps
CHECK_DEADLOCK FALSE
