-------------------------------- MODULE Cache --------------------------------
(***************************************************************************)
(* cache.ReadOnlyFS (properties C10, C11): requirement and implementation- *)
(* shaped specification in one module.                                      *)
(*                                                                         *)
(* REQUIREMENT part (CacheReq of DESIGN.md): what a call on the cache file  *)
(* system returns is what the same call on the source returns.  The Ref*    *)
(* operators compute results from the static source tree and the visible    *)
(* part of a handle (entry, offset, cursor, open/closed) only.              *)
(*                                                                         *)
(* IMPLEMENTATION-SHAPED part (CacheImpl): an Open is the step sequence of  *)
(* cache/fs.go,                                                            *)
(*   Stat via memo | source Open+Stat   ("statopen": gate at source.Open)   *)
(*   pathlock.Lock(name)                ("waiting" while another holds it)  *)
(*   cache store look-up                (hit: unlock, serve the cache file) *)
(*   source Open                        ("copyopen": gate at source.Open)   *)
(*   RetainData?                        (no: unlock, serve the source file) *)
(*   MkdirAll(parent) ; OpenFile(create|truncate)   ("create": gate)        *)
(*   { source Read ; store Write } per 512-byte chunk ("read"/"write")      *)
(*   Close copy ; rewind source handle or re-open from the store ; Unlock   *)
(* over the state: cache store contents per file (cs: -1 absent, k chunks   *)
(* written, complete iff k = Chunks), stat memo, path lock, open handles.   *)
(*                                                                         *)
(* Mode "seq":  one call at a time; Open runs its steps to completion       *)
(*   (Run).  Calls: open stat list | read seek readdir hstat close.         *)
(*   so / sr = number of source Open / source Read calls the call makes     *)
(*   (the harness counts them in a wrapper around the source); instead of   *)
(*   a growing counter in the state they are outputs of every transition.   *)
(* Mode "conc": NT goroutines open cfg.target; a call releases ONE opener   *)
(*   from the gate it waits at (step) or makes the gated primitive fail     *)
(*   (fail).  A step ends at the opener's next gate, blocked on the path    *)
(*   lock ("waiting"), or returned ("done").                                *)
(*                                                                         *)
(* What is REQUIRED after a failed fill is what the model does: the open    *)
(* reports an error, nothing of the copy stays visible (cs = -1), the lock  *)
(* is released.  The harness accepts "absent or complete" (C11).            *)
(*                                                                         *)
(* Tolerances (complete list):                                              *)
(*  - EOF timing: may = TRUE  =>  io.EOF may accompany the last bytes.      *)
(*  - zero-length Read: only "no bytes".  Read on a directory handle:       *)
(*    any failure incl. io.EOF (mem answers EOF: known C02 finding).        *)
(*  - pages of a directory handle are compared as a partition (order free). *)
(*  - error kinds of failing handle calls are not compared.                 *)
(*  - so / sr are compared only where the model says 0.                     *)
(*  - modification times are not compared.                                  *)
(***************************************************************************)
EXTENDS Integers, Sequences, FiniteSets, TLC
SX == INSTANCE SequencesExt

CONSTANTS Mode,       \* "seq" | "conc"
          Inits,      \* set of [cfg, src]: static part of the initial states
          NH,         \* handle slots (seq)
          NT,         \* openers (conc)
          MaxSteps,   \* seq: bound on state-changing calls
          OpenNames, StatNames, ListNames,
          ReadLens, Seeks, Pages,
          MaxFail,    \* conc: number of injected failures per run (0 | 1)
          StoreRemoves \* conc: the cache store offers Remove (a failed fill is cleaned up in a step of its own, under the lock);
                       \* FALSE: a store with OpenFile + Mkdir only (the fill is marked incomplete, nothing to wait for)

VARIABLE st

\* size classes: the harness builds files of exactly these many bytes
Sz  == <<0, 1, 511, 512, 513, 2100>>
Buf == 512

Min2(a, b) == IF a < b THEN a ELSE b
Max2(a, b) == IF a > b THEN a ELSE b

\* ---------------------------------------------------------------------------
\* static tree: src is a sequence of entries [k, m, p, par, z]; index 0 = no such name
Idx(s, name) == IF \E i \in 1..Len(s.src) : s.src[i].p = name
                THEN CHOOSE i \in 1..Len(s.src) : s.src[i].p = name ELSE 0
Size(s, i)   == Sz[s.src[i].z]
Chunks(s, i) == (Size(s, i) + Buf - 1) \div Buf
Kids(s, i)   == Cardinality({ j \in 1..Len(s.src) : s.src[j].par = s.src[i].p })
Retain(s, i) == CASE s.cfg.pol = "always" -> TRUE
                  [] s.cfg.pol = "never"  -> FALSE
                  [] s.cfg.pol = "name"   -> s.src[i].p \in s.cfg.keep
                  [] s.cfg.pol = "size"   -> Size(s, i) <= Buf

UnusedH == [bk |-> "-", cur |-> 0, i |-> 0, k |-> "-", off |-> 0, s |-> "unused"]
IdleT   == [c |-> 0, i |-> 0, pc |-> "idle", res |-> "-", so |-> 0, sr |-> 0]
NTh     == IF Mode = "seq" THEN 1 ELSE NT
NHs     == IF Mode = "seq" THEN NH ELSE 0
Init0(x) == [cfg |-> x.cfg, cs |-> [i \in 1..Len(x.src) |-> -1], hs |-> [h \in 1..NHs |-> UnusedH], lock |-> 0,
             memo |-> [i \in 1..Len(x.src) |-> FALSE], n |-> 0, nf |-> 0, src |-> x.src, th |-> [t \in 1..NTh |-> IdleT]]

\* ---------------------------------------------------------------------------
\* IMPLEMENTATION-SHAPED: the steps of one opener t
Done(s, t, res) == [s EXCEPT !.th[t].pc = "done", !.th[t].res = res]
Waiters(s)      == { u \in 1..Len(s.th) : s.th[u].pc = "waiting" }
Copiers(s)      == { u \in 1..Len(s.th) : s.th[u].pc \in {"copyopen", "create", "read", "write", "cleanup"} }

RECURSIVE Lookup(_, _), Unlock(_)
\* t holds the path lock and looks the name up in the cache store
Lookup(s, t) ==
  LET i == s.th[t].i IN
  IF s.cs[i] >= 0 THEN Unlock(Done(s, t, IF s.cs[i] = Chunks(s, i) THEN "cache" ELSE "partial"))
  ELSE [s EXCEPT !.th[t].pc = "copyopen"]
\* the holder lets go; the lowest waiter (the model never has two when it matters) gets the lock and looks up
Unlock(s) ==
  LET W == Waiters(s) IN
  IF W = {} THEN [s EXCEPT !.lock = 0]
  ELSE LET u == CHOOSE x \in W : \A y \in W : x <= y IN Lookup([s EXCEPT !.lock = u], u)

TryLock(s, t)   == IF s.lock = 0 THEN Lookup([s EXCEPT !.lock = t], t) ELSE [s EXCEPT !.th[t].pc = "waiting"]
AfterStat(s, t) == IF s.src[s.th[t].i].k = "dir" THEN Done(s, t, "dir") ELSE TryLock(s, t)
\* Open(name) begins: Stat through the memo, or through the source
Start(s, t, i) ==
  LET s1 == [s EXCEPT !.th[t].i = i] IN
  IF i # 0 /\ s.memo[i] THEN AfterStat(s1, t) ELSE [s1 EXCEPT !.th[t].pc = "statopen"]
Finish(s, t) == Unlock(Done(s, t, "filled"))
Step(s, t) ==
  LET x == s.th[t]  i == x.i IN
  CASE x.pc = "statopen" -> IF i = 0 THEN Done([s EXCEPT !.th[t].so = @ + 1], t, "ENOENT")
                            ELSE AfterStat([s EXCEPT !.th[t].so = @ + 1, !.memo[i] = TRUE], t)
    [] x.pc = "copyopen" -> LET s1 == [s EXCEPT !.th[t].so = @ + 1] IN
                            IF Retain(s, i) THEN [s1 EXCEPT !.th[t].pc = "create"] ELSE Unlock(Done(s1, t, "src"))
    [] x.pc = "create"   -> [s EXCEPT !.cs[i] = 0, !.th[t].pc = "read", !.th[t].c = 1]
    [] x.pc = "cleanup"  -> Unlock(Done([s EXCEPT !.cs[i] = -1], t, "err"))
    [] x.pc = "read"     -> LET s1 == [s EXCEPT !.th[t].sr = @ + 1] IN
                            IF Size(s, i) - Buf * (x.c - 1) <= 0 THEN Finish(s1, t) ELSE [s1 EXCEPT !.th[t].pc = "write"]
    [] x.pc = "write"    -> LET s1 == [s EXCEPT !.cs[i] = x.c] IN
                            IF x.c = Chunks(s, i) /\ s.cfg.eof = "with" THEN Finish(s1, t)
                            ELSE [s1 EXCEPT !.th[t].pc = "read", !.th[t].c = x.c + 1]
\* the primitive t waits at fails: the open reports an error, no partial copy stays, the lock is released
Fail(s, t) ==
  LET x == s.th[t]  i == x.i  s0 == [s EXCEPT !.nf = @ + 1] IN
  CASE x.pc = "statopen" -> Done([s0 EXCEPT !.th[t].so = @ + 1], t, "err")
    [] x.pc = "copyopen" -> Unlock(Done([s0 EXCEPT !.th[t].so = @ + 1], t, "err"))
    \* a failure inside the copy: what was written so far is removed from the cache store BEFORE the lock is released
    \* (pc "cleanup": the opener stands at the store's Remove, still holding the lock, the partial copy still there)
    [] x.pc = "create"   -> IF StoreRemoves THEN [s0 EXCEPT !.th[t].pc = "cleanup"] ELSE Unlock(Done(s0, t, "err"))
    [] x.pc = "read"     -> IF StoreRemoves THEN [s0 EXCEPT !.th[t].sr = @ + 1, !.th[t].pc = "cleanup"]
                            ELSE Unlock(Done([s0 EXCEPT !.cs[i] = -1, !.th[t].sr = @ + 1], t, "err"))
    [] x.pc = "write"    -> IF StoreRemoves THEN [s0 EXCEPT !.th[t].pc = "cleanup"] ELSE Unlock(Done([s0 EXCEPT !.cs[i] = -1], t, "err"))
RECURSIVE Run(_, _)
Run(s, t) == IF s.th[t].pc = "done" THEN s ELSE Run(Step(s, t), t)

\* ---------------------------------------------------------------------------
\* REQUIREMENT: results as functions of the source tree and the visible handle state
R(e, k, z, m, cnt, off, may, so, sr, s, b) ==
  [e |-> e, k |-> k, z |-> z, m |-> m, cnt |-> cnt, off |-> off, may |-> may, so |-> so, sr |-> sr, w |-> {}, st |-> s, b |-> b]
Plain(e, s, b) == R(e, "-", 0, 0, 0, 0, FALSE, -1, -1, s, b)
RefStat(s, i)  == IF i = 0 THEN [e |-> "ENOENT", k |-> "-", z |-> 0, m |-> 0]
                  ELSE [e |-> "ok", k |-> s.src[i].k, z |-> IF s.src[i].k = "dir" THEN 0 ELSE s.src[i].z, m |-> s.src[i].m]
RefRead(size, off, n) == Max2(0, Min2(n, size - off))
RefPage(kids, cur, n) == IF n <= 0 THEN kids - cur ELSE Min2(n, kids - cur)

H(s, h)      == s.hs[h]
SetH(s, h, x) == [s EXCEPT !.hs[h] = x]

OpenCall(s, h, name) ==
  LET i  == Idx(s, name)
      s1 == Run(Start(s, 1, i), 1)
      x  == s1.th[1]
      s2 == [s1 EXCEPT !.th[1] = s.th[1]]   \* idle again (records of the state are only ever changed by EXCEPT: print order)
      rs == RefStat(s, i)
      bk == CASE x.res \in {"cache", "partial"} -> "cache"
              [] x.res = "filled" -> IF s.cfg.seek THEN "src" ELSE "cache"
              [] OTHER -> "src"
      nh == [H(s, h) EXCEPT !.bk = bk, !.cur = 0, !.i = i, !.k = rs.k, !.off = 0, !.s = "open"]
  IN IF x.res = "ENOENT" THEN R("ENOENT", "-", 0, 0, 0, 0, FALSE, x.so, x.sr, s2, "open/missing")
     ELSE R("ok", rs.k, rs.z, rs.m, 0, 0, FALSE, x.so, x.sr, SetH(s2, h, nh),
            CASE x.res = "dir"     -> "open/dir"
              [] x.res = "cache"   -> "open/hit"
              [] x.res = "partial" -> "open/hit-partial"
              [] x.res = "src"     -> "open/pass"
              [] x.res = "filled"  -> IF s.cfg.seek THEN "open/fill-rewind" ELSE "open/fill-reopen")

StatCall(s, name) ==
  LET i == Idx(s, name)  rs == RefStat(s, i) IN
  IF i = 0 THEN R("ENOENT", "-", 0, 0, 0, 0, FALSE, 1, 0, s, "stat/missing")
  ELSE IF s.memo[i] THEN R("ok", rs.k, rs.z, rs.m, 0, 0, FALSE, 0, 0, s, "stat/memo")
  ELSE R("ok", rs.k, rs.z, rs.m, 0, 0, FALSE, 1, 0, [s EXCEPT !.memo[i] = TRUE], "stat/source")

\* hackpadfs.ReadDir(cacheFS, name): Open (Stat) + ReadDir(-1) + sort; only directories and missing names are in the alphabet
ListCall(s, name) ==
  LET i == Idx(s, name) IN
  IF i = 0 THEN R("ENOENT", "-", 0, 0, 0, 0, FALSE, -1, 0, s, "list/missing")
  ELSE R("ok", "dir", 0, 0, Kids(s, i), 0, FALSE, -1, 0, [s EXCEPT !.memo[i] = TRUE], IF s.memo[i] THEN "list/memo" ELSE "list/source")

ReadCall(s, h, n) ==
  LET x == H(s, h)  size == Size(s, x.i)  k == RefRead(size, x.off, n)  sr == IF x.bk = "cache" THEN 0 ELSE -1 IN
  IF x.s = "closed" THEN Plain(IF n = 0 THEN "ZERO" ELSE "FAIL", s, "read/closed")
  ELSE IF x.k = "dir" THEN Plain(IF n = 0 THEN "ZERO" ELSE "FAILEOF", s, "read/dir")
  ELSE IF n = 0 THEN R("ZERO", "-", 0, 0, 0, x.off, FALSE, 0, sr, s, "read/zero")
  ELSE IF k = 0 THEN R("EOF", "-", 0, 0, 0, x.off, FALSE, 0, sr, s, IF x.off > size THEN "read/beyond-end" ELSE "read/at-end")
  ELSE R("ok", "-", 0, 0, k, x.off, x.off + k = size, 0, sr, SetH(s, h, [x EXCEPT !.off = x.off + k]),
         (IF k < n THEN "read/short" ELSE "read/full") \o (IF x.bk = "cache" THEN "-cached" ELSE "-source"))

SeekCall(s, h, off, wh) ==
  LET x == H(s, h) IN
  IF x.s = "closed" THEN Plain("FAIL", s, "seek/closed")
  ELSE IF x.k = "dir" THEN R("ok", "-", 0, 0, 0, 0, FALSE, 0, 0, SetH(s, h, [x EXCEPT !.cur = 0]), "seek/dir-rewind")
  ELSE IF wh \notin {0, 1, 2} THEN Plain("FAIL", s, "seek/bad-whence")
  ELSE LET base == CASE wh = 0 -> 0 [] wh = 1 -> x.off [] wh = 2 -> Size(s, x.i)
           new  == base + off
       IN IF new < 0 THEN Plain("FAIL", s, "seek/negative")
          ELSE R("ok", "-", 0, 0, 0, new, FALSE, 0, 0, SetH(s, h, [x EXCEPT !.off = new]),
                 "seek/" \o (CASE wh = 0 -> "start" [] wh = 1 -> "current" [] wh = 2 -> "end"))

ReadDirCall(s, h, n) ==
  LET x == H(s, h)  K == Kids(s, x.i)  rem == K - x.cur  c == RefPage(K, x.cur, n) IN
  IF x.s = "closed" THEN Plain("FAIL", s, "readdir/closed")
  ELSE IF x.k = "file" THEN Plain("FAIL", s, "readdir/file")
  ELSE IF n <= 0 THEN R("ok", "-", 0, 0, c, 0, FALSE, -1, 0, SetH(s, h, [x EXCEPT !.cur = K]),
                        IF rem = 0 THEN "readdir/all-at-end" ELSE IF x.cur = 0 THEN "readdir/all-fresh" ELSE "readdir/all-rest")
  ELSE IF rem = 0 THEN R("EOF", "-", 0, 0, 0, 0, FALSE, -1, 0, s, IF K = 0 THEN "readdir/page-empty-dir" ELSE "readdir/page-at-end")
  ELSE R("ok", "-", 0, 0, c, 0, FALSE, -1, 0, SetH(s, h, [x EXCEPT !.cur = x.cur + c]),
         IF c < n THEN "readdir/page-short" ELSE IF c = rem THEN "readdir/page-last-exact" ELSE "readdir/page")

HStatCall(s, h) ==
  LET x == H(s, h)  rs == RefStat(s, x.i) IN
  IF x.s = "closed" THEN Plain("FAIL", s, "hstat/closed")
  ELSE R("ok", rs.k, rs.z, rs.m, 0, 0, FALSE, -1, IF x.bk = "cache" THEN 0 ELSE -1, s, "hstat/" \o rs.k)

CloseCall(s, h) ==
  LET x == H(s, h) IN
  IF x.s = "closed" THEN Plain("FAIL", s, "close/closed-" \o x.k)
  ELSE R("ok", "-", 0, 0, 0, 0, FALSE, 0, IF x.bk = "cache" THEN 0 ELSE -1, SetH(s, h, [x EXCEPT !.s = "closed"]), "close/open-" \o x.k)

\* conc mode: one step of opener t
Status(x) == IF x.pc = "done" THEN "done-" \o x.res ELSE x.pc
ThreadCall(s, t, fail) ==
  LET x  == s.th[t]
      s1 == IF fail THEN Fail(s, t) ELSE IF x.pc = "idle" THEN Start(s, t, Idx(s, s.cfg.target)) ELSE Step(s, t)
      y  == s1.th[t]
      w  == { u \in 1..Len(s.th) : u # t /\ s1.th[u] # s.th[u] }
  IN [e |-> Status(y), k |-> "-", z |-> 0, m |-> 0, cnt |-> 0, off |-> 0, may |-> FALSE, so |-> y.so, sr |-> y.sr, w |-> w, st |-> s1,
      b |-> (IF fail THEN "fail/" ELSE "step/") \o x.pc \o ">" \o Status(y) \o (IF w = {} THEN "" ELSE "+wake")]

\* ---------------------------------------------------------------------------
C(op, h, name, n, off, wh, t) == [op |-> op, h |-> h, name |-> name, n |-> n, off |-> off, wh |-> wh, t |-> t]
HS == 1..NH
SeqCalls ==
       { C("open", h, nm, 0, 0, 0, 0) : h \in HS, nm \in OpenNames }
  \cup { C("stat", 0, nm, 0, 0, 0, 0) : nm \in StatNames }
  \cup { C("list", 0, nm, 0, 0, 0, 0) : nm \in ListNames }
  \cup { C("read", h, "", n, 0, 0, 0) : h \in HS, n \in ReadLens }
  \cup { C("seek", h, "", 0, sk[1], sk[2], 0) : h \in HS, sk \in Seeks }
  \cup { C("readdir", h, "", n, 0, 0, 0) : h \in HS, n \in Pages }
  \cup { C(op, h, "", 0, 0, 0, 0) : h \in HS, op \in {"hstat", "close"} }
ConcCalls ==
       { C("step", 0, "", 0, 0, 0, t) : t \in 1..NT }
  \cup (IF MaxFail > 0 THEN { C("fail", 0, "", 0, 0, 0, t) : t \in 1..NT } ELSE {})
Calls == IF Mode = "seq" THEN SeqCalls ELSE ConcCalls

Enabled(s, c) ==
  CASE c.op = "open" -> H(s, c.h).s = "unused" /\ \A j \in 1..(c.h - 1) : H(s, j).s # "unused"
    [] c.op \in {"stat", "list"} -> TRUE
    [] c.op = "seek" -> /\ H(s, c.h).s # "unused" /\ s.cfg.seek
                        /\ (H(s, c.h).k = "dir" => c.off = 0 /\ c.wh = 0)
    [] c.op = "step" -> /\ s.th[c.t].pc \notin {"waiting", "done"}
                        \* (which of two waiters the mutex wakes is not specified: the failed fill ends with at most one)
                        /\ (s.th[c.t].pc = "cleanup" => Cardinality(Waiters(s)) <= 1)
                        /\ (s.th[c.t].pc = "idle" => \A u \in 1..(c.t - 1) : s.th[u].pc # "idle")
    [] c.op = "fail" -> /\ s.th[c.t].pc \in {"statopen", "copyopen", "create", "read", "write"}
                        /\ s.nf < MaxFail /\ Cardinality(Waiters(s)) <= 1
                        \* a Read that fails after every byte was written (the trailing (0, EOF) read; the only read of an
                        \* empty file) leaves the complete bytes: whether that copy is kept is not constrained, so the
                        \* model does not inject it here (the fault enumeration of the seq mode does, accepting both)
                        /\ ~(s.th[c.t].pc = "read" /\ s.cs[s.th[c.t].i] = Chunks(s, s.th[c.t].i))
    [] OTHER -> H(s, c.h).s # "unused"

Bump(s, r) == IF r.st = s THEN r ELSE [r EXCEPT !.st.n = s.n + 1]
Eval(s, c) ==
  CASE c.op = "open"    -> Bump(s, OpenCall(s, c.h, c.name))
    [] c.op = "stat"    -> Bump(s, StatCall(s, c.name))
    [] c.op = "list"    -> Bump(s, ListCall(s, c.name))
    [] c.op = "read"    -> Bump(s, ReadCall(s, c.h, c.n))
    [] c.op = "seek"    -> Bump(s, SeekCall(s, c.h, c.off, c.wh))
    [] c.op = "readdir" -> Bump(s, ReadDirCall(s, c.h, c.n))
    [] c.op = "hstat"   -> Bump(s, HStatCall(s, c.h))
    [] c.op = "close"   -> Bump(s, CloseCall(s, c.h))
    [] c.op = "step"    -> ThreadCall(s, c.t, FALSE)
    [] c.op = "fail"    -> ThreadCall(s, c.t, TRUE)
InBounds(s) == Mode = "conc" \/ s.n <= MaxSteps

CallSeq == SX!SetToSeq(Calls)
Tr(s, c) ==
  IF ~Enabled(s, c) THEN [e |-> "-", n |-> "skip"]
  ELSE LET r == Eval(s, c) IN
    [e |-> r.e, k |-> r.k, z |-> r.z, m |-> r.m, cnt |-> r.cnt, off |-> r.off, may |-> r.may, so |-> r.so, sr |-> r.sr, w |-> r.w, b |-> r.b,
     n |-> IF r.st = s THEN "=" ELSE IF InBounds(r.st) THEN r.st ELSE "skip"]
Line(s) == [s |-> s, r |-> [i \in 1..Len(CallSeq) |-> Tr(s, CallSeq[i])]]

Init == /\ st \in { Init0(x) : x \in Inits }
        /\ PrintT(ToString([calls |-> CallSeq]))
Next == /\ PrintT(ToString(Line(st)))
        /\ \E c \in { x \in Calls : Enabled(st, x) } : st' = Eval(st, c).st /\ InBounds(st')
Spec == Init /\ [][Next]_st

\* ---------------------------------------------------------------------------
\* what TLC checks on the model (INVARIANT ModelProps): the requirement predicates, evaluated in every reachable state
\* and on every call enabled in it
Files(s)       == { i \in 1..Len(s.src) : s.src[i].k = "file" }
Complete(s, i) == s.cs[i] = Chunks(s, i)
Threads        == 1..Len(st.th)

\* at most one copy of a name is in progress at any moment (all openers of the conc model open the same name)
AtMostOneCopyPerName == Cardinality(Copiers(st)) <= 1
\* the path lock is held exactly by the opener between its look-up and the end of its fill, nobody waits for a free
\* lock (no lost wake-up), and it is free whenever no Open is in progress
LockAlwaysReleased ==
  /\ (st.lock = 0 <=> Copiers(st) = {})
  /\ (st.lock # 0 => Copiers(st) = {st.lock})
  /\ (Waiters(st) # {} => st.lock # 0)
  /\ ((\A t \in Threads : st.th[t].pc \in {"idle", "done"}) => st.lock = 0)
\* whoever returned got the complete file or an error (errors only after an injected failure); a handle served from the
\* cache store belongs to a complete copy; a partial copy exists only while its copier is at work
NoPartialServed ==
  /\ \A t \in Threads : st.th[t].pc = "done" => st.th[t].res \in {"cache", "filled", "src", "dir", "ENOENT", "err"}
  /\ ((\E t \in Threads : st.th[t].res = "err") => st.nf > 0)
  /\ \A h \in 1..Len(st.hs) : st.hs[h].s = "open" /\ st.hs[h].bk = "cache" => Complete(st, st.hs[h].i)
  /\ \A i \in Files(st) : (st.cs[i] >= 0 /\ ~Complete(st, i)) =>
        \E t \in Copiers(st) : st.th[t].i = i /\ st.th[t].pc \in {"read", "write", "cleanup"}
\* the visible result of a call is the source's, whatever the cache holds (r = Eval(st, c))
Transparent(c, r) ==
  /\ (c.op \in {"open", "stat"} => LET rs == RefStat(st, Idx(st, c.name)) IN r.e = rs.e /\ r.k = rs.k /\ r.z = rs.z /\ r.m = rs.m)
  /\ (c.op = "hstat" /\ H(st, c.h).s = "open" => LET rs == RefStat(st, H(st, c.h).i) IN r.e = "ok" /\ r.k = rs.k /\ r.z = rs.z /\ r.m = rs.m)
  /\ (c.op = "read" /\ H(st, c.h).s = "open" /\ H(st, c.h).k = "file" =>
        LET x == H(st, c.h)  k == RefRead(Size(st, x.i), x.off, c.n) IN
        /\ r.cnt = k /\ r.off = x.off /\ r.st.hs[c.h].off = x.off + k
        /\ (r.e = "EOF" <=> (c.n > 0 /\ k = 0)) /\ (r.may => x.off + k = Size(st, x.i)))
  /\ (c.op = "readdir" /\ H(st, c.h).s = "open" /\ H(st, c.h).k = "dir" =>
        LET x == H(st, c.h)  K == Kids(st, x.i) IN
        /\ r.cnt = RefPage(K, x.cur, c.n) /\ r.st.hs[c.h].cur = x.cur + r.cnt
        /\ (c.n > 0 => ((r.cnt = 0) = (r.e = "EOF")) /\ ((r.e = "EOF") = (x.cur = K)))
        /\ (c.n <= 0 => r.e = "ok"))
  /\ (c.op = "list" /\ Idx(st, c.name) # 0 => r.e = "ok" /\ r.cnt = Kids(st, Idx(st, c.name)))
  \* handles are independent; closed handles fail and change nothing
  /\ (c.h # 0 => \A j \in 1..Len(st.hs) : j # c.h => r.st.hs[j] = st.hs[j])
  /\ (c.h # 0 /\ c.op # "open" /\ H(st, c.h).s = "closed" => r.e \in {"FAIL", "ZERO"} /\ r.st = st)
\* a retained file that was filled is served without touching the source again
SecondOpenNoSourceRead(c, r) ==
  /\ (c.op = "open" /\ Idx(st, c.name) # 0 /\ st.src[Idx(st, c.name)].k = "file" /\ Complete(st, Idx(st, c.name)) =>
        r.so = 0 /\ r.sr = 0 /\ r.b = "open/hit" /\ r.st.hs[c.h].bk = "cache")
  /\ (c.op \in {"read", "hstat", "close"} /\ H(st, c.h).s = "open" /\ H(st, c.h).bk = "cache" => r.sr = 0)
\* a fill leaves a complete copy exactly when the policy retains the file; nothing else changes the cache store
FillsFollowPolicy(c, r) ==
  /\ (c.op = "open" /\ r.b \in {"open/fill-rewind", "open/fill-reopen"} => Complete(r.st, Idx(st, c.name)) /\ Retain(st, Idx(st, c.name)))
  /\ (c.op = "open" /\ r.b = "open/pass" => r.st.cs = st.cs /\ ~Retain(st, Idx(st, c.name)))
  /\ (c.op \notin {"open", "step", "fail"} => r.st.cs = st.cs)
  /\ (Mode = "seq" => r.st.lock = 0 /\ r.st.th = st.th)
\* conc: a step without an injected failure makes nobody fail; a woken opener finds the complete file or becomes the
\* next copier; a failed fill reports an error, leaves nothing partial and releases the lock
FailedFillIsClean(c, r) ==
  /\ (c.op = "step" => \A u \in Threads : r.st.th[u].res = "err" => (st.th[u].res = "err" \/ (u = c.t /\ st.th[u].pc = "cleanup")))
  /\ (c.op \in {"step", "fail"} => \A u \in r.w : r.st.th[u].pc = "copyopen" \/ (r.st.th[u].pc = "done" /\ r.st.th[u].res = "cache"))
  /\ (c.op = "fail" => (r.st.th[c.t].res = "err" /\ r.st.lock # c.t) \/ (r.st.th[c.t].pc = "cleanup" /\ r.st.lock = c.t))
  \* the clean-up happens under the lock: nobody else moves until the partial copy is gone
  /\ (c.op = "fail" /\ r.st.th[c.t].pc = "cleanup" => r.w = {})
  /\ (c.op = "step" /\ st.th[c.t].pc = "cleanup" => r.st.th[c.t].res = "err" /\ r.st.lock # c.t /\ r.st.cs[st.th[c.t].i] = -1)

ModelProps ==
  /\ AtMostOneCopyPerName
  /\ LockAlwaysReleased
  /\ NoPartialServed
  /\ \A c \in { x \in Calls : Enabled(st, x) } : LET r == Eval(st, c) IN
       /\ Transparent(c, r)
       /\ SecondOpenNoSourceRead(c, r)
       /\ FillsFollowPolicy(c, r)
       /\ FailedFillIsClean(c, r)
=============================================================================
