SPECIFICATION SpecFine
CONSTANTS
  Alphabet <- ImplTiny
  MaxEntries = 1
  Wants <- OneG
  EnvKinds <- OnlyCut
  MaxEnv = 1
  Fixed = FALSE
INVARIANT AtomicVisibilityCut
CHECK_DEADLOCK FALSE
