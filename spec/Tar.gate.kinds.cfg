SPECIFICATION SpecGate
CONSTANTS
  Alphabet <- ImplKinds
  MaxEntries = 2
  Wants <- OneG
  EnvKinds <- AllEnv
  MaxEnv = 1
  Fixed = FALSE
INVARIANT ImplProps
CHECK_DEADLOCK FALSE
