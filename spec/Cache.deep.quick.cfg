SPECIFICATION Spec
CONSTANTS
  Mode = "seq"
  Inits <- InitsDeepQ
  NH = 2
  NT = 0
  MaxSteps = 4
  OpenNames <- NamesDeep
  StatNames <- NamesDeep
  ListNames <- DirsDeep
  ReadLens <- RLall
  Seeks <- SK0
  Pages <- None
  MaxFail = 0
  StoreRemoves = TRUE
INVARIANT ModelProps
CHECK_DEADLOCK FALSE
