SPECIFICATION Spec
CONSTANTS
  Threads = {1, 2, 3}
  PointIsDir = FALSE
INVARIANTS ExactlyOneWinner MutexOK
PROPERTY Termination
CHECK_DEADLOCK FALSE
