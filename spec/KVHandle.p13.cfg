SPECIFICATION Spec
CONSTANTS
  Prog <- P13
  Present <- PresentB
  Start <- StartFileB
INVARIANT ModelProps
CHECK_DEADLOCK FALSE
