SPECIFICATION Spec
CONSTANTS
  Prog <- P2
  Present <- PresentB
  Start <- StartFileB
INVARIANT ModelProps
CHECK_DEADLOCK FALSE
