------------------------------ MODULE MountAdd ------------------------------
(***************************************************************************)
(* Implementation-shaped model of mount.FS.AddMount (property C06: "the    *)
(* mount table changes only by a successful AddMount; at most one mount    *)
(* per point; a look-up sees the longest mounted prefix"), for several     *)
(* goroutines calling AddMount concurrently.                               *)
(*                                                                         *)
(* Steps follow mount/fs.go addMount, one action per step between the      *)
(* points the verif hook exposes:                                          *)
(*   start  --PreCheck-->  unlocked look-up of the table: ErrExist, or go  *)
(*                         on to the lock                                  *)
(*   lock   --TryLock-->   mountMu.Lock: taken, or the goroutine blocks    *)
(*                         until the holder returns                        *)
(*   stat   --Check-->     Open+Stat of the mount point THROUGH THE        *)
(*                         CURRENT TABLE (a point below another mount      *)
(*                         point is looked up in that mount once it is     *)
(*                         there): error, or go on                         *)
(*   store  --Store-->     LoadOrStore: ok or ErrExist; deferred Unlock    *)
(*                         hands the lock to a blocked goroutine           *)
(* Look-ups (Mount(path)) are atomic reads of the table at any time.       *)
(*                                                                         *)
(* One variable, pure operators, one printed line per distinct state (the  *)
(* harness forces every step on the real mount.FS through the hook gates). *)
(* At most one goroutine is blocked on the mutex at a time (which of two    *)
(* waiters sync.Mutex wakes is not specified).                             *)
(***************************************************************************)
EXTENDS Integers, Sequences, FiniteSets, TLC
SX == INSTANCE SequencesExt

CONSTANTS Threads,    \* set of goroutine ids (positive integers)
          PointOf,    \* goroutine -> the point it mounts at ("a", "b", "a/b")
          RootKind,   \* point -> "dir" | "file" | "missing" in the root file system (mounted file systems are empty)
          Probes,     \* paths whose look-up is observed
          PrefixPoints, \* probe -> the points that are a prefix of it (TLC has no string operations)
          DepthOf       \* point -> number of elements

VARIABLE st   \* [pc, table, lock, res]

Points == { PointOf[t] : t \in Threads }
\* the point directly above p that can be a mount point itself ("" if none)
Parent(p) == IF p = "a/b" THEN "a" ELSE ""
IsPrefix(p, q) == p \in PrefixPoints[q]

\* po, rk: the configuration, carried in the state so that the harness builds the same fixture (never changed)
Init0 == [po    |-> PointOf,
          rk    |-> RootKind,
          pc    |-> [t \in Threads |-> "start"],
          table |-> [p \in Points |-> 0],
          lock  |-> 0,
          res   |-> [t \in Threads |-> "-"]]

Blocked(s) == { u \in Threads : s.pc[u] = "blocked" }
\* the holder lets go: a blocked goroutine (at most one) gets the lock and stands after mountMu.Lock
Release(s) == IF Blocked(s) = {} THEN [s EXCEPT !.lock = 0]
              ELSE LET u == CHOOSE x \in Blocked(s) : TRUE IN [s EXCEPT !.lock = u, !.pc[u] = "stat"]
Woken(s)   == IF Blocked(s) = {} THEN 0 ELSE CHOOSE x \in Blocked(s) : TRUE

\* e: where the goroutine stands after the step ("at:<hook point>", "blocked", "done:<result>"); w: goroutine woken
Out(e, w, s, b) == [e |-> e, w |-> w, f |-> 0, st |-> s, b |-> b]
Finish(s, t, r) == [s EXCEPT !.pc[t] = "done", !.res[t] = r]

\* what Open+Stat of point p finds, through the table as it is now
Found(s, p) == IF Parent(p) # "" /\ Parent(p) \in Points /\ s.table[Parent(p)] # 0 THEN "missing"  \* mounted file systems are empty
               ELSE RootKind[p]

Step(s, t) ==
  LET p == PointOf[t] IN
  CASE s.pc[t] = "start" ->
         IF s.table[p] # 0 THEN Out("done:EEXIST", 0, Finish(s, t, "EEXIST"), "precheck/mounted")
         ELSE Out("at:prechecked", 0, [s EXCEPT !.pc[t] = "lock"], "precheck/free")
    [] s.pc[t] = "lock" ->
         IF s.lock = 0 THEN Out("at:locked", 0, [s EXCEPT !.lock = t, !.pc[t] = "stat"], "lock/free")
         ELSE Out("blocked", 0, [s EXCEPT !.pc[t] = "blocked"], "lock/held")
    [] s.pc[t] = "stat" ->
         LET k == Found(s, p) IN
         IF k = "dir" THEN Out("at:checked", 0, [s EXCEPT !.pc[t] = "store"], "check/dir")
         ELSE LET r == IF k = "file" THEN "ENOTDIR" ELSE "ENOENT" IN
              Out("done:" \o r, Woken(s), Release(Finish(s, t, r)),
                  "check/" \o k \o (IF Parent(p) # "" /\ Found(s, p) # RootKind[p] THEN "-hidden-by-mount" ELSE "")
                           \o (IF Blocked(s) # {} THEN "-wakes" ELSE ""))
    [] s.pc[t] = "store" ->
         IF s.table[p] = 0
         THEN Out("done:ok", Woken(s), Release(Finish([s EXCEPT !.table[p] = t], t, "ok")), "store/first" \o (IF Blocked(s) # {} THEN "-wakes" ELSE ""))
         ELSE Out("done:EEXIST", Woken(s), Release(Finish(s, t, "EEXIST")), "store/lost-race" \o (IF Blocked(s) # {} THEN "-wakes" ELSE ""))

\* look-up: the file system serving path q = the longest mounted point that is a prefix of q (0: the root file system)
Serving(s, q) ==
  LET cands == { p \in Points : s.table[p] # 0 /\ IsPrefix(p, q) } IN
  IF cands = {} THEN 0
  ELSE s.table[CHOOSE p \in cands : \A o \in cands : DepthOf[o] <= DepthOf[p]]
Lookup(s, q) == [e |-> "ok", w |-> 0, f |-> Serving(s, q), st |-> s,
                 b |-> "lookup/" \o (IF Serving(s, q) = 0 THEN "root" ELSE "mounted")]

-----------------------------------------------------------------------------
C(op, t, q) == [op |-> op, t |-> t, q |-> q]
Calls == { C("step", t, "") : t \in Threads } \cup { C("lookup", 0, q) : q \in Probes }
Enabled(s, c) ==
  IF c.op = "lookup" THEN TRUE
  ELSE /\ s.pc[c.t] \in {"start", "lock", "stat", "store"}
       \* a second goroutine is not sent into the held mutex while one is blocked there
       /\ (s.pc[c.t] = "lock" /\ s.lock # 0 => Blocked(s) = {})
Eval(s, c) == IF c.op = "lookup" THEN Lookup(s, c.q) ELSE Step(s, c.t)

CallSeq == SX!SetToSeq(Calls)
Tr(s, c) ==
  IF ~Enabled(s, c) THEN [e |-> "-", w |-> 0, f |-> 0, b |-> "-", n |-> "skip"]
  ELSE LET r == Eval(s, c) IN [e |-> r.e, w |-> r.w, f |-> r.f, b |-> r.b, n |-> IF r.st = s THEN "=" ELSE r.st]
Line(s) == [s |-> s, r |-> [i \in 1..Len(CallSeq) |-> Tr(s, CallSeq[i])]]

Init == /\ st = Init0
        /\ PrintT(ToString([calls |-> CallSeq]))
Next == /\ PrintT(ToString(Line(st)))
        /\ \E c \in { x \in Calls : x.op = "step" /\ Enabled(st, x) } : st' = Eval(st, c).st
Spec == Init /\ [][Next]_st

\* the same behaviours without printing, with fairness, for the liveness property
NextQ == \E c \in { x \in Calls : x.op = "step" /\ Enabled(st, x) } : st' = Eval(st, c).st
SpecLive == st = Init0 /\ [][NextQ]_st /\ WF_st(NextQ)

-----------------------------------------------------------------------------
AllDone == \A t \in Threads : st.pc[t] = "done"
Winners(p) == { t \in Threads : PointOf[t] = p /\ st.res[t] = "ok" }
ModelProps ==
  \* the mutex: whoever stands between Lock and the return holds it, and nobody else does
  /\ \A t \in Threads : st.pc[t] \in {"stat", "store"} <=> st.lock = t
  /\ (st.lock = 0 => Blocked(st) = {})
  \* the table changes only by a successful AddMount of that point, and is never overwritten
  /\ \A p \in Points : st.table[p] # 0 => st.table[p] \in Winners(p)
  /\ \A p \in Points : Cardinality(Winners(p)) <= 1
  /\ \A p \in Points : Winners(p) # {} => st.table[p] \in Winners(p)
  \* every attempt on an occupied point fails with ErrExist, never silently
  /\ \A t \in Threads : st.res[t] = "EEXIST" => st.table[PointOf[t]] # 0
  \* when all have returned: a point that is a directory where it was looked up has exactly one winner
  /\ (AllDone => \A p \in Points : (RootKind[p] = "dir" /\ Parent(p) = "") => Cardinality(Winners(p)) = 1)
  /\ (AllDone => \A p \in Points : RootKind[p] # "dir" => Winners(p) = {})
  \* a look-up never names a file system that was not mounted on a prefix of the path
  /\ \A q \in Probes : LET f == Serving(st, q) IN f # 0 => IsPrefix(PointOf[f], q) /\ st.res[f] = "ok"
Termination == <>AllDone
=============================================================================
