------------------------------ MODULE MountAdd ------------------------------
(***************************************************************************)
(* Implementation-shaped model of mount.FS.AddMount (property C06, last      *)
(* clause): several goroutines mount at the SAME point concurrently.         *)
(* Steps follow mount/fs.go addMount: an unlocked pre-check of the table,    *)
(* mountMu.Lock, Open+Stat of the mount point through the current table,     *)
(* LoadOrStore, Unlock.  TLC explores every interleaving and checks that     *)
(* exactly one attempt succeeds and the table ends with exactly that mount.  *)
(***************************************************************************)
EXTENDS Integers, FiniteSets, TLC

CONSTANTS Threads,      \* e.g. {1, 2, 3}
          PointIsDir    \* TRUE: the mount point exists as a directory (else every attempt must fail)

VARIABLES pc, table, lock, res

vars == <<pc, table, lock, res>>
None == 0

Init == /\ pc = [t \in Threads |-> "precheck"]
        /\ table = None          \* which thread's FS is mounted at the point (0 = none)
        /\ lock = None
        /\ res = [t \in Threads |-> "-"]

Finish(t, r) == /\ res' = [res EXCEPT ![t] = r]
                /\ pc' = [pc EXCEPT ![t] = "done"]

PreCheck(t) == /\ pc[t] = "precheck"
               /\ IF table # None THEN Finish(t, "EEXIST") /\ UNCHANGED <<table, lock>>
                  ELSE pc' = [pc EXCEPT ![t] = "lock"] /\ UNCHANGED <<table, lock, res>>
Lock(t)     == /\ pc[t] = "lock" /\ lock = None
               /\ lock' = t /\ pc' = [pc EXCEPT ![t] = "stat"] /\ UNCHANGED <<table, res>>
Stat(t)     == /\ pc[t] = "stat"
               /\ IF PointIsDir THEN pc' = [pc EXCEPT ![t] = "store"] /\ UNCHANGED <<table, lock, res>>
                  ELSE Finish(t, "ENOTDIR-or-ENOENT") /\ lock' = None /\ UNCHANGED table
Store(t)    == /\ pc[t] = "store"
               /\ IF table = None THEN table' = t /\ Finish(t, "ok") ELSE Finish(t, "EEXIST") /\ UNCHANGED table
               /\ lock' = None           \* deferred Unlock
Next == \E t \in Threads : PreCheck(t) \/ Lock(t) \/ Stat(t) \/ Store(t)
Spec == Init /\ [][Next]_vars /\ WF_vars(Next)

AllDone == \A t \in Threads : pc[t] = "done"
Winners == { t \in Threads : res[t] = "ok" }
ExactlyOneWinner ==
  AllDone => IF PointIsDir THEN Cardinality(Winners) = 1 /\ table \in Winners
             ELSE Winners = {} /\ table = None
MutexOK == \A t \in Threads : pc[t] \in {"stat", "store"} => lock = t
Termination == <>AllDone
=============================================================================
