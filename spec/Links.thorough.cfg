SPECIFICATION Spec
CONSTANTS
  RootNames <- RN4
  Child = "c"
  LinkAt <- LA4
  Datas <- DAB
  MaxNodes = 5
INVARIANTS TypeOK ModelProps
CHECK_DEADLOCK FALSE
