SPECIFICATION Spec
CONSTANTS
  Prog <- P9
  Present <- PresentB
  Start <- StartFileB
INVARIANT ModelProps
CHECK_DEADLOCK FALSE
