---------------------------- MODULE MC_Mount ----------------------------
EXTENDS Mount
MNames   == {"a", "ab", "b", "f"}
MPerms   == {420}
MDatas   == { <<7>> }
MTimes   == {"T1"}
MPoints  == { <<"a">>, <<"ab">>, <<"a", "a">>, <<"a", "ab">>, <<"a", "a", "b">> }
MBad     == { << >>, <<"f">>, <<"ab", "a">>, <<"f", "a">>, <<"a", "f">> }
AllPaths(n) == UNION { [1..k -> MNames] : k \in 0..n }
Paths4   == AllPaths(4)
Paths3   == AllPaths(3)
Paths2   == AllPaths(2)
RenQ     == AllPaths(2) \cup { <<"a", "a", "b">>, <<"a", "a", "f">>, <<"a", "ab", "f">> }
=========================================================================
