SPECIFICATION Spec
CONSTANTS
  Keys <- K2
  Emitters <- Em2
  Waiters <- Wa2
  KeyOf <- KO2
  WithCancel = TRUE
INVARIANT NoStrandedWaiter
INVARIANT SubsAreBlocked
PROPERTY NoLostWakeup
PROPERTY AllEmitsEnd
CHECK_DEADLOCK FALSE
