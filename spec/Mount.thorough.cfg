SPECIFICATION Spec
CONSTANTS
  Names <- MNames
  MaxDepth = 0
  Perms <- MPerms
  Datas <- MDatas
  Times <- MTimes
  RootOps = TRUE
  MaxTreeDepth = 4
  MaxNodes = 99
  FlagSets = "all"
  Points <- MPoints
  BadPoints <- MBad
  MaxMounts = 3
  MaxSteps = 2
  OpPaths <- Paths4
  RenPaths <- RenQ
INVARIANT ModelProps
CHECK_DEADLOCK FALSE
