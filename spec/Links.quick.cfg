SPECIFICATION Spec
CONSTANTS
  RootNames <- RN4
  Child = "c"
  LinkAt <- LA4
  Datas <- DA
  MaxNodes = 4
INVARIANTS TypeOK ModelProps
CHECK_DEADLOCK FALSE
