------------------------------- MODULE OSPath -------------------------------
(***************************************************************************)
(* Requirement specification of the name <-> OS path mapping of os.FS       *)
(* (property C09).  The mapping is a pure function of (volume, root, name), *)
(* so the model is a case generator with an oracle: the only state is the   *)
(* FS under test -- [goos, vol, root] -- built by a "newfs" call followed   *)
(* by real Sub calls; every other call is a self-loop whose REQUIRED        *)
(* result is printed for the harness.                                       *)
(*                                                                         *)
(* Strings are sequences of TOKENS; joining with the separator gives the    *)
(* string:  <<"">> = ""   <<"","x">> = "/x"   <<"x","">> = "x/"             *)
(*   FS names     : token sequences joined with "/"                         *)
(*   OS paths     : a volume token ("", "C:", "D:", "UNC" = \\srv\share,    *)
(*                  "UNCX" = \\srv\sharex, "=" = the FS's own volume)       *)
(*                  followed by a token sequence joined with the            *)
(*                  convention's separator ("rest"; <<"","a">> = \a)        *)
(* Symbolic tokens the harness instantiates: "BS" = the element  a\b        *)
(* (contains the Windows separator).                                        *)
(*                                                                         *)
(* A second call family ("os calls", configuration OSPath.oserr.cfg) runs   *)
(* failing real system calls through os.FS rooted in a temp directory that  *)
(* holds a self-similar fixture (every directory contains directory "d"     *)
(* and regular file "f"; "m" is missing) and prescribes which path the      *)
(* returned *PathError / *LinkError must name.                              *)
(*                                                                         *)
(* Tolerances (complete list):                                              *)
(*  T1 FromOS of an absolute path of the FS's volume that is NOT clean but  *)
(*     whose cleaned form lies inside the root may be accepted (result =    *)
(*     the cleaned remainder) or refused: e = "ok|EINVAL".                  *)
(*  T2 the internal representation of an empty root ("" or ".") is not      *)
(*     compared, only its observable consequences (state flag dot).         *)
(*  T3 MkdirAll / RemoveAll errors may name an ancestor of the caller's     *)
(*     name (the os package itself does): x = "prefix".                     *)
(***************************************************************************)
EXTENDS Integers, Sequences, FiniteSets, TLC
SX == INSTANCE SequencesExt

CONSTANTS NewFs,       \* set of <<goos, vol>> the FS under test is created with
          SubArgs,     \* arguments of Sub (token sequences, valid and invalid)
          MaxRoot,     \* bound on the number of root elements
          ToNames,     \* candidate FS names for ToOS
          FromRests,   \* candidate OS paths (after the volume) tried with the FS's own volume
          FromVols,    \* explicit volumes ...
          FromRestsV,  \* ... and the candidate OS paths tried with each of them
          SepElems,    \* tokens standing for an element that contains the Windows separator
          LookPairs,   \* pairs <<x, y>> of tokens where one string is a proper prefix of the other
          OsOps1,      \* one-name os calls
          OsOps2,      \* two-name os calls (rename, symlink)
          OsNames,     \* names for os calls
          OsNew        \* second names for two-name os calls

VARIABLE st            \* [goos, vol, root, dot]

Init0 == [goos |-> "none", vol |-> "", root |-> <<>>, dot |-> FALSE]

IsPrefix(a, b) == Len(a) <= Len(b) /\ SubSeq(b, 1, Len(a)) = a
Front(s) == SubSeq(s, 1, Len(s) - 1)
Drop(s, k) == SubSeq(s, k + 1, Len(s))

(* io/fs.ValidPath on token sequences (never the empty sequence) *)
Valid(nm) == nm = <<".">> \/ \A i \in 1..Len(nm) : nm[i] \notin {"", ".", ".."}
NameEl(nm) == IF nm = <<".">> THEN <<>> ELSE nm
ElName(el) == IF el = <<>> THEN <<".">> ELSE el

(* lexical cleaning of the elements of an absolute path: "" and "." vanish, ".." pops (never above the top) *)
RECURSIVE CleanAcc(_, _)
CleanAcc(el, acc) ==
  IF el = <<>> THEN acc
  ELSE LET h == Head(el) IN
       CleanAcc(Tail(el), IF h \in {"", "."} THEN acc
                          ELSE IF h = ".." THEN (IF acc = <<>> THEN acc ELSE Front(acc))
                          ELSE Append(acc, h))
Clean(el) == CleanAcc(el, <<>>)
(* the rest (path after the volume) of the absolute path with these elements: "\" for none *)
AbsRest(el) == IF el = <<>> THEN <<"", "">> ELSE <<"">> \o el

IsUNC(v) == v \in {"UNC", "UNCX"}
EffVol(s) == IF s.goos = "windows" /\ s.vol = "" THEN "C:" ELSE s.vol
(* filepath.IsAbs: Unix = begins with the separator; Windows = has a volume and (UNC or separator after it) *)
IsAbs(g, v, rest) ==
  IF g = "windows" THEN v # "" /\ (IsUNC(v) \/ (Len(rest) >= 2 /\ rest[1] = ""))
  ELSE v = "" /\ Len(rest) >= 2 /\ rest[1] = ""

Res(e, v, p, s, b) == [e |-> e, v |-> v, p |-> p, st |-> s, b |-> b]

(* ------------------------------ building the FS ------------------------------ *)
NewFsR(s, g, v) == Res("ok", "", <<>>, [goos |-> g, vol |-> v, root |-> <<>>, dot |-> FALSE], "newfs/" \o g)
SubR(s, d) ==
  IF ~Valid(d) THEN Res("EINVAL", "", <<>>, s, "sub/invalid")
  ELSE LET r == s.root \o NameEl(d) IN
       Res("ok", "", <<>>, [s EXCEPT !.root = r, !.dot = (r = <<>>)], IF d = <<".">> THEN "sub/dot" ELSE "sub/join")

(* ----------------------------------- ToOS ------------------------------------ *)
(* Refuse invalid names.  A valid name with an element that contains the convention's separator  *)
(* (a\b on Windows) has no reversible image inside the root (the OS would read it as two         *)
(* elements), so it must be refused as well -- os.DirFS does the same.  Otherwise the result is  *)
(* volume + separator + root elements + name elements.                                           *)
HasSepElem(s, nm) == s.goos = "windows" /\ \E i \in 1..Len(nm) : nm[i] \in SepElems
ToOSR(s, nm) ==
  IF ~Valid(nm) THEN Res("EINVAL", "", <<>>, s, "toos/invalid")
  ELSE IF HasSepElem(s, nm) THEN Res("EINVAL", "", <<>>, s, "toos/sep-in-element")
  ELSE Res("ok", EffVol(s), AbsRest(s.root \o NameEl(nm)), s,
           IF nm = <<".">> THEN "toos/root" ELSE IF s.root = <<>> THEN "toos/name" ELSE "toos/join")

(* ---------------------------------- FromOS ----------------------------------- *)
Unclean(el) ==     \* why the elements of an absolute path are not clean
  CASE \E i \in 1..Len(el) : el[i] = ".." -> "dotdot"
    [] \E i \in 1..(Len(el) - 1) : el[i] = "" -> "empty-elem"
    [] \E i \in 1..Len(el) : el[i] = "." -> "dot"
    [] OTHER -> "trailing-sep"
Lookalike(root, el) ==
  \E i \in 1..Len(root) : /\ Len(el) >= i /\ SubSeq(el, 1, i - 1) = SubSeq(root, 1, i - 1)
                          /\ <<root[i], el[i]>> \in LookPairs
FromOSR(s, v0, rest) ==
  LET v   == IF v0 = "=" THEN EffVol(s) ELSE v0
      q   == IF s.dot THEN "@dotroot" ELSE ""        \* label only (tolerance T2)
      R(e, p, b) == Res(e, "", p, s, "fromos/" \o b \o q)
  IN
  IF ~IsAbs(s.goos, v, rest) THEN R("EINVAL", <<>>, "relative")
  ELSE IF v # EffVol(s) THEN R("EINVAL", <<>>, IF IsUNC(v) /\ IsUNC(EffVol(s)) THEN "lookalike-volume" ELSE "other-volume")
  ELSE LET raw == Tail(rest)                         \* elements as written (rest[1] = "")
           el  == Clean(raw)
           canon == rest = AbsRest(el)
       IN
       IF IsPrefix(s.root, el)
       THEN LET nm == ElName(Drop(el, Len(s.root))) IN
            IF canon THEN R("ok", nm, IF nm = <<".">> THEN "root-itself" ELSE "inside-clean")
            ELSE IF raw = <<>> THEN R("ok|EINVAL", nm, "volume-only")
            ELSE R("ok|EINVAL", nm, "unclean-" \o Unclean(raw))
       ELSE IF IsPrefix(s.root, raw) THEN R("EINVAL", <<>>, "dotdot-escape")
       ELSE IF Lookalike(s.root, el) THEN R("EINVAL", <<>>, "lookalike-root")
       ELSE R("EINVAL", <<>>, IF canon THEN "outside-root" ELSE "unclean-outside")

(* --------------------------------- os calls ---------------------------------- *)
(* fixture: every directory holds directory "d" and regular file "f"; anything else is missing *)
RECURSIVE KindOf(_, _)
KindOf(el, cur) ==
  IF el = <<>> THEN cur
  ELSE LET h == Head(el) IN
       KindOf(Tail(el), IF cur = "dir" THEN (IF h = "d" THEN "dir" ELSE IF h = "f" THEN "file" ELSE "missing")
                        ELSE IF cur = "file" THEN "thru" ELSE cur)
Kind(nm) == KindOf(NameEl(nm), "dir")
ParentKind(nm) == IF NameEl(nm) = <<>> THEN "none" ELSE KindOf(Front(NameEl(nm)), "dir")
Sit(nm) ==
  IF ~Valid(nm) THEN "invalid" ELSE IF nm = <<".">> THEN "dot"
  ELSE LET k == Kind(nm) IN
       IF k = "missing" THEN (IF ParentKind(nm) = "dir" THEN "missing" ELSE "no-parent")
       ELSE IF k = "thru" THEN "through-file" ELSE k
Creatable(nm) == Kind(nm) = "missing" /\ ParentKind(nm) = "dir"
OsRes(e, x, s, b) == [e |-> e, v |-> x, p |-> <<>>, st |-> s, b |-> b]
Os1R(s, op, nm) ==
  LET k == Kind(nm)
      gone == k \in {"missing", "thru"}
      fails ==
        CASE op \in {"stat", "lstat", "open", "chmod", "chtimes", "chown", "fclosed", "fwrite", "fseek"} ->
               gone \/ op \in {"fclosed", "fwrite", "fseek"}
          [] op \in {"readdir", "freaddir"} -> k # "dir"
          [] op \in {"readfile", "fread"}   -> k # "file"
          [] op = "mkdir"     -> ~Creatable(nm)
          [] op = "mkdirall"  -> k \in {"file", "thru"}
          [] op = "remove"    -> k # "file"           \* every fixture directory is non-empty
          [] op = "removeall" -> k = "thru"
          [] op \in {"create", "writefile"} -> ~(k = "file" \/ Creatable(nm))
  IN IF ~Valid(nm) THEN OsRes("EINVAL", "exact", s, op \o "/invalid")
     ELSE OsRes(IF fails THEN "FAIL" ELSE "ok", IF op \in {"mkdirall", "removeall"} THEN "prefix" ELSE "exact", s, op \o "/" \o Sit(nm))
Os2R(s, op, old, new) ==
  LET ko == Kind(old)  kn == Kind(new)
      newbad == kn = "thru" \/ (kn = "missing" /\ ParentKind(new) # "dir")
      fails ==
        IF op = "rename"
        THEN \/ ko \in {"missing", "thru"} \/ newbad \/ kn = "dir"
             \/ (old # new /\ IsPrefix(NameEl(old), NameEl(new)))
             \/ (ko = "dir" /\ kn = "file")
        ELSE newbad \/ kn \in {"dir", "file"}       \* symlink: only the new name matters
  IN IF ~Valid(old) \/ ~Valid(new) THEN OsRes("EINVAL", "exact", s, op \o "/invalid")
     ELSE OsRes(IF fails THEN "FAIL" ELSE "ok", "exact", s, op \o "/" \o Sit(old) \o "+new-" \o Sit(new))

(* -------------------------------- call alphabet ------------------------------ *)
C(op, g, v, p, q) == [op |-> op, g |-> g, v |-> v, p |-> p, q |-> q]
Calls ==      { C("newfs", x[1], x[2], <<>>, <<>>) : x \in NewFs }
         \cup { C("sub", "", "", d, <<>>) : d \in SubArgs }
         \cup { C("toos", "", "", nm, <<>>) : nm \in ToNames }
         \cup { C("fromos", "", "=", r, <<>>) : r \in FromRests }
         \cup { C("fromos", "", v, r, <<>>) : v \in FromVols, r \in FromRestsV }
         \cup { C(op, "", "", nm, <<>>) : op \in OsOps1, nm \in OsNames }
         \cup { C(op, "", "", nm, nw) : op \in OsOps2, nm \in OsNames, nw \in OsNew }
Enabled(s, c) ==
  CASE c.op = "newfs"  -> s.goos = "none"
    [] s.goos = "none" -> FALSE
    [] c.op = "sub"    -> ~Valid(c.p) \/ Len(s.root \o NameEl(c.p)) <= MaxRoot
    [] c.op = "toos"   -> TRUE
    [] c.op = "fromos" -> LET v == IF c.v = "=" THEN EffVol(s) ELSE c.v IN
                          /\ (s.goos = "linux" => v = "")
                          /\ (IsUNC(v) => c.p[1] = "")
    [] OTHER           -> s.goos = "linux" /\ s.vol = ""
Eval(s, c) ==
  CASE c.op = "newfs"  -> NewFsR(s, c.g, c.v)
    [] c.op = "sub"    -> SubR(s, c.p)
    [] c.op = "toos"   -> ToOSR(s, c.p)
    [] c.op = "fromos" -> FromOSR(s, c.v, c.p)
    [] c.op \in OsOps2 -> Os2R(s, c.op, c.p, c.q)
    [] OTHER           -> Os1R(s, c.op, c.p)

CallSeq == SX!SetToSeq(Calls)
Tr(s, c) ==
  IF ~Enabled(s, c) THEN [e |-> "-", n |-> "skip"]
  ELSE LET r == Eval(s, c) IN
    [e |-> r.e, v |-> r.v, p |-> r.p, b |-> r.b, n |-> IF r.st = s THEN "=" ELSE r.st]
Line(s) == [s |-> s, r |-> [i \in 1..Len(CallSeq) |-> Tr(s, CallSeq[i])]]

Init == st = Init0 /\ PrintT(ToString([calls |-> CallSeq]))
Next == /\ PrintT(ToString(Line(st)))
        /\ \E c \in Calls : Enabled(st, c) /\ st' = Eval(st, c).st
Spec == Init /\ [][Next]_st

(* ----------------------- the property's clauses, on the model ----------------------- *)
On(op) == { c \in Calls : c.op = op /\ Enabled(st, c) }
VolRoot == AbsRest(st.root)                 \* the root's own OS path (after the volume)
(* valid (mappable) names map to volume + root joined with the name, lexically inside the root; *)
(* everything else is refused and yields no path                                                 *)
InsideRoot ==
  \A c \in On("toos") : LET r == ToOSR(st, c.p) IN
    IF Valid(c.p) /\ ~HasSepElem(st, c.p)
    THEN /\ r.e = "ok" /\ r.v = EffVol(st)
         /\ IsPrefix(st.root, Tail(r.p))
         /\ r.p = AbsRest(st.root \o NameEl(c.p))
         /\ Clean(Tail(r.p)) = st.root \o NameEl(c.p)        \* already clean: no way back out of the root
    ELSE r.e = "EINVAL" /\ r.p = <<>>
(* FromOS inverts ToOS on every name ToOS accepts *)
RoundTrip ==
  \A c \in On("toos") : LET r == ToOSR(st, c.p) IN
    r.e = "ok" => LET b == FromOSR(st, r.v, r.p) IN b.e = "ok" /\ b.p = c.p
(* whatever FromOS may accept is absolute, of the FS's volume, inside the root after cleaning, *)
(* and the answer is a valid FS path that ToOS maps back to the cleaned input                   *)
FromOSOnlyValid ==
  \A c \in On("fromos") : LET r == FromOSR(st, c.v, c.p)  v == IF c.v = "=" THEN EffVol(st) ELSE c.v IN
    r.e # "EINVAL" =>
      /\ r.e \in {"ok", "ok|EINVAL"}
      /\ Valid(r.p) /\ IsAbs(st.goos, v, c.p) /\ v = EffVol(st)
      /\ IsPrefix(st.root, Clean(Tail(c.p)))
      /\ ToOSR(st, r.p).e = "ok" /\ ToOSR(st, r.p).p = AbsRest(Clean(Tail(c.p)))
      /\ (r.e = "ok" <=> c.p = AbsRest(Clean(Tail(c.p))))
(* a path under a sibling whose name merely starts like (or is a prefix of) a root element is refused *)
LookalikeRootsRejected ==
  \A c \in On("fromos") : LET v == IF c.v = "=" THEN EffVol(st) ELSE c.v IN
    (IsAbs(st.goos, v, c.p) /\ Lookalike(st.root, Clean(Tail(c.p)))) => FromOSR(st, c.v, c.p).e = "EINVAL"
(* os calls: an invalid name is refused, a refused or failing call never changes the model state *)
OsCallsStateless ==
  \A c \in { x \in Calls : x.op \in OsOps1 \cup OsOps2 /\ Enabled(st, x) } : LET r == Eval(st, c) IN
    r.st = st /\ ((~Valid(c.p) \/ (c.op \in OsOps2 /\ ~Valid(c.q))) <=> r.e = "EINVAL")
ModelProps == InsideRoot /\ RoundTrip /\ FromOSOnlyValid /\ LookalikeRootsRejected /\ OsCallsStateless
=============================================================================
