SPECIFICATION Spec
CONSTANTS
  K = 5
  NH = 2
  Pages <- PagesT
INVARIANT ModelProps
CHECK_DEADLOCK FALSE
