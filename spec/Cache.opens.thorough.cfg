SPECIFICATION Spec
CONSTANTS
  Mode = "seq"
  Inits <- InitsOpensT
  NH = 2
  NT = 0
  MaxSteps = 5
  OpenNames <- NamesAll3
  StatNames <- NamesAll3
  ListNames <- Dirs
  ReadLens <- RLall
  Seeks <- SK0
  Pages <- None
  MaxFail = 0
  StoreRemoves = TRUE
INVARIANT ModelProps
CHECK_DEADLOCK FALSE
