SPECIFICATION SpecGate
CONSTANTS
  Alphabet <- ImplEsc
  MaxEntries = 2
  Wants <- NoClients
  EnvKinds <- None
  MaxEnv = 0
  Fixed = FALSE
INVARIANT ImplProps
CHECK_DEADLOCK FALSE
