SPECIFICATION SpecReq
CONSTANTS
  Alphabet <- ReqWF
  MaxEntries = 3
  Wants <- NoClients
  EnvKinds <- None
  MaxEnv = 0
  Fixed = FALSE
INVARIANT ReqProps
CHECK_DEADLOCK FALSE
