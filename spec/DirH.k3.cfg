SPECIFICATION Spec
CONSTANTS
  K = 3
  NH = 2
  Pages <- PagesQ
INVARIANT ModelProps
CHECK_DEADLOCK FALSE
