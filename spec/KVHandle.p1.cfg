SPECIFICATION Spec
CONSTANTS
  Prog <- P1
  Present <- PresentB
  Start <- StartFileB
INVARIANT ModelProps
CHECK_DEADLOCK FALSE
