SPECIFICATION Spec
CONSTANTS
  Mode = "seq"
  Inits <- InitsFaultQ
  NH = 2
  NT = 0
  MaxSteps = 2
  OpenNames <- NamesF3
  StatNames <- NamesF3
  ListNames <- None
  ReadLens <- None
  Seeks <- None
  Pages <- None
  MaxFail = 0
  StoreRemoves = TRUE
INVARIANT ModelProps
CHECK_DEADLOCK FALSE
