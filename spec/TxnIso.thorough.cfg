SPECIFICATION Spec
CONSTANTS
  NT = 3
  Keys <- K1
  MaxCalls = 2
  WithAbort = TRUE
  Modes <- ModesAll
INVARIANT ModelProps
CHECK_DEADLOCK FALSE
