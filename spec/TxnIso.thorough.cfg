SPECIFICATION Spec
CONSTANTS
  NT = 3
  Keys <- K1
  MaxCalls = 2
  WithAbort = TRUE
INVARIANT ModelProps
CHECK_DEADLOCK FALSE
