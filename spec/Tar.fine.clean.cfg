SPECIFICATION SpecFine
CONSTANTS
  Alphabet <- ImplMore
  MaxEntries = 2
  Wants <- Two
  EnvKinds <- None
  MaxEnv = 0
  Fixed = FALSE
INVARIANT ImplProps
INVARIANT AtomicVisibility
INVARIANT NoSuccessOnIncomplete
INVARIANT FaultSurfaces
INVARIANT FinalTreeIsArchive
INVARIANT EscapingNameFails
CHECK_DEADLOCK FALSE
