SPECIFICATION Spec
CONSTANTS
  Threads <- T3
  PointOf <- PO_aab
  RootKind <- RK_dirs
  Probes <- PR
  PrefixPoints <- PP
  DepthOf <- DO
INVARIANT ModelProps
CHECK_DEADLOCK FALSE
