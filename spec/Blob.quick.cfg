SPECIFICATION Spec
CONSTANTS
  NS = 3
  MaxLen = 4
  InitData <- D3
  Lits <- L1
  Args <- A4
  MaxSteps = 3
INVARIANT ModelProps
CHECK_DEADLOCK FALSE
