---------------------------- MODULE MC_FSCore ----------------------------
EXTENDS FSCore
QNames == {"a", "b"}
QPerms == {420}
TPerms == {420, 448}
QDatas == { << >>, <<1>> }
QTimes == {"T1"}
NoTimes == {}
OneName == {"a"}
\* names one of which is a string prefix of the other: "a" vs "ab" (element boundaries, not string prefixes, decide)
PNames == {"a", "ab"}
\* a name that starts with a dot (valid, like any other)
DNames == {".a", "a"}
\* names with characters that mean something to path.Match / glob: they are ordinary names ("a[b]" as a pattern matches "ab")
GNames == {"a[b]", "ab"}
SNames == {"a*", "ab"}
TTimes == {"T1", "T2"}
OneData == { <<1>> }
==========================================================================
