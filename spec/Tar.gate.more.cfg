SPECIFICATION SpecGate
CONSTANTS
  Alphabet <- ImplTiny
  MaxEntries = 2
  Wants <- ThreeFew
  EnvKinds <- AllEnv
  MaxEnv = 1
  Fixed = FALSE
INVARIANT ImplProps
CHECK_DEADLOCK FALSE
