-------------------------------- MODULE TxnIso --------------------------------
(***************************************************************************)
(* Isolation of concurrent transactions of a TransactionStore (C18, last   *)
(* clause): NT transactions, each Begin ; <= MaxCalls Get/Set ; Commit (or *)
(* Abort), every interleaving of their steps.                              *)
(*                                                                         *)
(* Requirement, in the shape the in-memory store implements it: the store  *)
(* is held from Begin to the end of the transaction (Commit or Abort); a   *)
(* Begin while another transaction holds the store BLOCKS and returns when *)
(* the holder ends.  Hence at most one transaction is active at any time,  *)
(* every execution is a serial execution of the transactions in the order  *)
(* in which their Begins returned, and no transaction reads a value        *)
(* written by a transaction that has not ended.                            *)
(*                                                                         *)
(* Each step is one call made by transaction t in its own goroutine; the   *)
(* harness releases one step at a time.  e = "BLOCKED" means: the call     *)
(* does not return now; it returns when the holder ends (field w of the    *)
(* holder's ending step names the transaction woken by it).                *)
(*                                                                         *)
(* Bounds: at most one transaction waits at a time (which of two waiters   *)
(* a sync.Mutex wakes first is not specified, the replay is deterministic);*)
(* transactions begin in index order (symmetry).  As in Txn.tla: Sets take *)
(* effect when called and Abort keeps them (no roll-back); Get/Set after   *)
(* Abort are not repeated here (Txn.tla covers them); Commit after Abort   *)
(* returns the result list and releases nothing.  Transaction t writes the *)
(* value "v<t>", so every value read names its writer.  A Begin names the   *)
(* transaction mode (read-only / read-write): isolation is required of     *)
(* both alike, a read-only transaction must not run inside another one.    *)
(***************************************************************************)
EXTENDS Integers, Sequences, FiniteSets, TLC
SX == INSTANCE SequencesExt

CONSTANTS NT,        \* number of transactions
          Keys,      \* set of strings
          MaxCalls,  \* Get/Set calls per transaction
          WithAbort, \* TRUE: Abort is part of the alphabet
          Modes      \* transaction modes a Begin may ask for ("rw", "ro"): the requirement is the same for all

VARIABLE st   \* [store, lock, tx]

Absent == "-"
T      == 1..NT
Idle   == [s |-> "idle", res |-> << >>]
Init0  == [store |-> [k \in Keys |-> Absent], lock |-> 0, tx |-> [t \in T |-> Idle]]
ValOf(t) == "v" \o ToString(t)

R(id, v, e) == [id |-> id, v |-> v, e |-> e]
\* e: outcome class; id: OpID returned; rs: list returned by Commit; w: transaction whose blocked Begin returns
Out(e, id, rs, w, s, b) == [e |-> e, id |-> id, rs |-> rs, w |-> w, st |-> s, b |-> b]

Waiting(s)  == { u \in T : s.tx[u].s = "waiting" }
Holds(s, t) == s.lock = t

\* the holder t lets go: a waiting transaction (at most one in the model) gets the store
Release(s) ==
  IF Waiting(s) = {} THEN [s EXCEPT !.lock = 0]
  ELSE LET u == CHOOSE x \in Waiting(s) : TRUE IN [s EXCEPT !.lock = u, !.tx[u].s = "active"]
Woken(s) == IF Waiting(s) = {} THEN 0 ELSE CHOOSE x \in Waiting(s) : TRUE

Begin(s, t) ==
  IF s.lock = 0 THEN Out("ok", -1, << >>, 0, [s EXCEPT !.lock = t, !.tx[t].s = "active"], "begin/free")
  ELSE Out("BLOCKED", -1, << >>, 0, [s EXCEPT !.tx[t].s = "waiting"], "begin/held")

Push(s, t, r) == [s EXCEPT !.tx[t].res = Append(@, r)]
Get(s, t, k) ==
  LET id == Len(s.tx[t].res) IN
  IF s.tx[t].s = "aborted" THEN Out("ABORTED", id, << >>, 0, Push(s, t, R(id, Absent, "ABORTED")), "get/aborted")
  ELSE LET v == s.store[k]  e == IF v = Absent THEN "ENOENT" ELSE "ok" IN
       Out(e, id, << >>, 0, Push(s, t, R(id, v, e)),
           IF v = Absent THEN "get/missing" ELSE IF v = ValOf(t) THEN "get/own-write" ELSE "get/others-write")
Set(s, t, k, v) ==
  LET id == Len(s.tx[t].res) IN
  IF s.tx[t].s = "aborted" THEN Out("ABORTED", id, << >>, 0, Push(s, t, R(id, Absent, "ABORTED")), "set/aborted")
  ELSE Out("ok", id, << >>, 0, Push([s EXCEPT !.store[k] = IF v = "nil" THEN Absent ELSE ValOf(t)], t, R(id, Absent, "ok")),
           IF v = "nil" THEN "set/delete" ELSE "set/write")
Abort(s, t) ==
  Out("ok", -1, << >>, Woken(s), Release([s EXCEPT !.tx[t].s = "aborted"]), IF Waiting(s) = {} THEN "abort/active" ELSE "abort/active-wakes")
Commit(s, t) ==
  IF s.tx[t].s = "aborted"
  THEN Out("ANY", -1, s.tx[t].res, 0, [s EXCEPT !.tx[t] = [s |-> "done-aborted", res |-> << >>]],
           IF s.lock = 0 THEN "commit/aborted" ELSE "commit/aborted-other-holds")
  ELSE Out("ok", -1, s.tx[t].res, Woken(s), Release([s EXCEPT !.tx[t] = [s |-> "done", res |-> << >>]]),
           IF Waiting(s) = {} THEN "commit/active" ELSE "commit/active-wakes")

-----------------------------------------------------------------------------
C(t, op, k, v) == [t |-> t, op |-> op, k |-> k, v |-> v]
Calls ==
       { C(t, op, "", "") : t \in T, op \in {"commit"} \cup (IF WithAbort THEN {"abort"} ELSE {}) }
  \cup { C(t, "begin", m, "") : t \in T, m \in Modes }   \* field k carries the mode
  \cup { C(t, "get", k, "") : t \in T, k \in Keys }
  \cup { C(t, "set", k, v) : t \in T, k \in Keys, v \in {"own", "nil"} }

Enabled(s, c) ==
  LET x == s.tx[c.t] IN
  CASE c.op = "begin"  -> /\ x.s = "idle" /\ Waiting(s) = {}
                          /\ \A u \in 1..(c.t - 1) : s.tx[u].s # "idle"
    [] c.op = "abort"  -> x.s = "active"
    [] c.op = "commit" -> x.s \in {"active", "aborted"}
    [] OTHER           -> x.s = "active" /\ Len(x.res) < MaxCalls   \* calls after Abort: Txn.tla

Eval(s, c) ==
  CASE c.op = "begin"  -> Begin(s, c.t)
    [] c.op = "get"    -> Get(s, c.t, c.k)
    [] c.op = "set"    -> Set(s, c.t, c.k, c.v)
    [] c.op = "abort"  -> Abort(s, c.t)
    [] c.op = "commit" -> Commit(s, c.t)

CallSeq == SX!SetToSeq(Calls)
Tr(s, c) ==
  IF ~Enabled(s, c) THEN [e |-> "-", n |-> "skip"]
  ELSE LET r == Eval(s, c) IN
    [e |-> r.e, id |-> r.id, rs |-> r.rs, w |-> r.w, b |-> r.b, n |-> IF r.st = s THEN "=" ELSE r.st]
Line(s) == [s |-> s, r |-> [i \in 1..Len(CallSeq) |-> Tr(s, CallSeq[i])]]

Init == /\ st = Init0
        /\ PrintT(ToString([calls |-> CallSeq]))
Next == /\ PrintT(ToString(Line(st)))
        /\ \E c \in Calls : Enabled(st, c) /\ st' = Eval(st, c).st
Spec == Init /\ [][Next]_st

-----------------------------------------------------------------------------
Active(s)  == { u \in T : s.tx[u].s = "active" }
Ended(s, u) == s.tx[u].s \in {"aborted", "done", "done-aborted"}
ModelProps ==
  \* mutual exclusion from Begin to the end; the lock is free exactly when nobody is active
  /\ Cardinality(Active(st)) <= 1
  /\ (st.lock = 0 <=> Active(st) = {})
  /\ (st.lock # 0 => Active(st) = {st.lock})
  \* the store is always released: nobody waits for a free store
  /\ (st.lock = 0 => Waiting(st) = {})
  \* every value in the store was written by a transaction that began
  /\ \A k \in Keys : st.store[k] # Absent => \E u \in T : st.store[k] = ValOf(u) /\ st.tx[u].s \notin {"idle", "waiting"}
  /\ \A u \in T : \A i \in DOMAIN st.tx[u].res : st.tx[u].res[i].id = i - 1
  /\ \A c \in { x \in Calls : Enabled(st, x) } : LET r == Eval(st, c)  t == c.t IN
    \* a step of t touches only t (and wakes at most the one waiter, only when t ends while holding)
    /\ \A u \in T \ {t} : \/ r.st.tx[u] = st.tx[u]
                          \/ (u = r.w /\ st.tx[u].s = "waiting" /\ r.st.tx[u].s = "active" /\ Holds(st, t) /\ c.op \in {"abort", "commit"})
    /\ (r.w # 0 => r.st.lock = r.w)
    \* no partial effects observed: a Get never returns a value of a transaction that has not ended
    /\ (c.op = "get" /\ r.e = "ok" =>
          LET v == r.st.tx[t].res[Len(r.st.tx[t].res)].v IN \E u \in T : v = ValOf(u) /\ (u = t \/ Ended(st, u)))
    \* only the holder changes the store
    /\ (r.st.store # st.store => Holds(st, t) /\ c.op = "set" /\ st.tx[t].s = "active")
    \* a Begin returns at once iff the store is free; blocked otherwise
    /\ (c.op = "begin" => (r.e = "ok" <=> st.lock = 0) /\ (r.e = "BLOCKED" <=> st.lock # 0))
    \* Commit returns one result per call made
    /\ (c.op = "commit" => r.rs = st.tx[t].res)
    /\ (c.op \in {"get", "set"} => Len(r.st.tx[t].res) = Len(st.tx[t].res) + 1 /\ r.id = Len(st.tx[t].res))
    \* ending while holding frees the store or hands it to the waiter; an aborted transaction's
    \* later calls and Commit never touch the lock
    /\ (c.op \in {"abort", "commit"} /\ Holds(st, t) => r.st.lock # t)
    /\ (st.tx[t].s = "aborted" => r.st.lock = st.lock /\ r.st.store = st.store /\ r.w = 0)
=============================================================================
