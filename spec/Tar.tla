--------------------------------- MODULE Tar ---------------------------------
(***************************************************************************)
(* tar.ReaderFS (properties C12 and C13).                                  *)
(*                                                                         *)
(* TarReq  -- the requirement: what an archive (a sequence of entries with *)
(*   raw names, kinds, permission bits, size classes) must unpack to.      *)
(*   Raw names are token sequences joined with "/" ("./a" = <<".","a">>,   *)
(*   "/a" = <<"","a">>, "a//b" = <<"a","","b">>, "a/" = <<"a","">>).       *)
(*   Resolve = path.Clean + strip the leading "/" ; a name whose resolved  *)
(*   form starts with ".." escapes the root.  Expected(archive) = every    *)
(*   entry at its resolved path with its kind / permission bits / bytes,   *)
(*   every proper ancestor as a directory (permission bits of an ancestor  *)
(*   that is not itself an entry are not constrained: perm = -1), nothing  *)
(*   else.  An escaping entry => unpacking fails and that entry creates    *)
(*   nothing (what exists is a subset of what the other entries give).     *)
(*                                                                         *)
(* TarImpl -- what /repo/tar/fs.go does, one action per step that can      *)
(*   interleave: the reader loop (poll errs, Next = stream gate, check     *)
(*   cancel, MkdirAll(parent) = one destination Mkdir per prefix, spawn a  *)
(*   directory writer, first read, spawn a small-file writer, big files in *)
(*   the foreground create / write / read chunk / write chunk / close+emit,*)
(*   final select on errs / wg, store error, cancel caller ctx, close      *)
(*   Done), the background writers (Mkdir [EEXIST: Chmod]; OpenFile,       *)
(*   Write, Close+Emit; error -> errs (capacity 1); wg.Done), the clients  *)
(*   (Open = pubsub Wait, check UnarchiveErr, destination Open) and the    *)
(*   environment (Cancel; stream ends / fails at a segment boundary or     *)
(*   inside a data segment; one destination call fails).                   *)
(*   pubsub and buffer pools are atomic here (PubSub.tla, BufferPool.tla   *)
(*   model them at lock / CAS granularity).  File Close is not a step: it  *)
(*   changes nothing a reader of the destination can see.                  *)
(*                                                                         *)
(*   GATES are the steps a harness wrapper can hold: stream reads (hdr,    *)
(*   rd1, brd), destination calls (mk, bcreate, bwr, wmkdir, wchmod,       *)
(*   wcreate, wwrite), the start of a client and its destination Open.     *)
(*   Everything else is internal.  Three specifications:                   *)
(*     SpecFine : every step interleaves (model checking: safety, liveness)*)
(*     SpecGate : one released gate + all internal steps it enables        *)
(*                (SettleAll: the set of quiescent states reachable by     *)
(*                internal steps; > 1 element = a race the harness cannot  *)
(*                force, every element is an accepted outcome).  Printed   *)
(*                as the graph vh tar-sched forces onto the real code.     *)
(*     SpecReq  : one line per archive with Expected(archive) (engine      *)
(*                format: the call is "unpack").                           *)
(***************************************************************************)
EXTENDS Integers, Sequences, FiniteSets, TLC
SX == INSTANCE SequencesExt

CONSTANTS Alphabet,    \* set of entries [k, perm, raw, sz]
          MaxEntries,  \* archives have 1..MaxEntries entries
          Wants,       \* set of client programs: sequences of paths (one per client)
          EnvKinds,    \* subset of {"cancel", "cut", "err", "fault"}
          MaxEnv,      \* number of environment events per run
          Fixed        \* FALSE: tar/fs.go as it is; TRUE: with the four proposed repairs (docs/tar-proposed-repair.diff):
                       \*   pubsub bound to the reader's context (Cancel no longer wakes waiting Opens), fullReader keeps
                       \*   ErrUnexpectedEOF, errs is polled once more after wg.Wait, directories are made by the reader

VARIABLE st

-----------------------------------------------------------------------------
(* TarReq *)

RECURSIVE CleanStack(_, _, _, _)
CleanStack(raw, i, stk, rooted) ==
  IF i > Len(raw) THEN stk
  ELSE LET t == raw[i] IN
    IF t = "" \/ t = "." THEN CleanStack(raw, i + 1, stk, rooted)
    ELSE IF t = ".."
      THEN IF Len(stk) > 0 /\ stk[Len(stk)] # ".." THEN CleanStack(raw, i + 1, SubSeq(stk, 1, Len(stk) - 1), rooted)
           ELSE IF rooted THEN CleanStack(raw, i + 1, stk, rooted)
           ELSE CleanStack(raw, i + 1, Append(stk, ".."), rooted)
      ELSE CleanStack(raw, i + 1, Append(stk, t), rooted)

Rooted(raw)  == Len(raw) >= 2 /\ raw[1] = ""
Resolve(raw) == CleanStack(raw, 1, << >>, Rooted(raw))      \* << >> is the root "."
Invalid(p)   == p # << >> /\ p[1] = ".."                     \* not a valid FS path
Escapes(raw) == Invalid(Resolve(raw))
Parent(p)    == SubSeq(p, 1, Len(p) - 1)
Anc(p)       == { SubSeq(p, 1, i) : i \in 1..(Len(p) - 1) }  \* proper ancestors below the root
IsPrefix(p, q) == Len(p) < Len(q) /\ SubSeq(q, 1, Len(p)) = p

PathOf(ar, i) == Resolve(ar[i].raw)
Good(ar)      == { i \in DOMAIN ar : ~Escapes(ar[i].raw) }

WellFormed(ar) ==
  /\ \A i, j \in DOMAIN ar : i # j => ar[i].raw # ar[j].raw
  /\ \A i, j \in Good(ar) : i # j => PathOf(ar, i) # PathOf(ar, j)
  /\ \A i \in Good(ar) : ar[i].k = "file" =>
        /\ PathOf(ar, i) # << >>
        /\ \A j \in Good(ar) : ~IsPrefix(PathOf(ar, i), PathOf(ar, j))

\* the tree the entries with indices I must produce (root not included: its own mode is not projected)
ExpectedOf(ar, I) ==
  LET P == { PathOf(ar, i) : i \in I } \ {<< >>}
      A == UNION { Anc(PathOf(ar, i)) : i \in I }
      Ent(p) == CHOOSE i \in I : PathOf(ar, i) = p
  IN [ p \in P \cup A |-> IF p \in P THEN [k |-> ar[Ent(p)].k, perm |-> ar[Ent(p)].perm, src |-> Ent(p)]
                          ELSE [k |-> "dir", perm |-> -1, src |-> 0] ]

Expected(ar) == ExpectedOf(ar, Good(ar))

RECURSIVE SeqsOver(_, _)
SeqsOver(S, n) == IF n = 0 THEN {<< >>}
                  ELSE LET R == SeqsOver(S, n - 1) IN R \cup { Append(q, e) : q \in { x \in R : Len(x) = n - 1 }, e \in S }
Archives == { ar \in SeqsOver(Alphabet, MaxEntries) : ar # << >> /\ WellFormed(ar) }
\* the archives a run uses: all of the above unless a configuration names a fixed set (ArchiveSet <- ...)
ArchiveSet == Archives

ReqBranch(ar) ==
  IF \E i \in DOMAIN ar : Escapes(ar[i].raw)
  THEN (IF \E i \in DOMAIN ar : Escapes(ar[i].raw) /\ Len(PathOf(ar, i)) = 1 THEN "unpack/escape-self" ELSE "unpack/escape-parent")
  ELSE IF \E i, j \in DOMAIN ar : i < j /\ IsPrefix(PathOf(ar, j), PathOf(ar, i)) THEN "unpack/child-before-parent"
  ELSE IF \E i \in DOMAIN ar : \E a \in Anc(PathOf(ar, i)) : \A j \in DOMAIN ar : PathOf(ar, j) # a THEN "unpack/implicit-parent"
  ELSE IF \E i \in DOMAIN ar : ar[i].raw # PathOf(ar, i) /\ ar[i].raw # Append(PathOf(ar, i), "") THEN "unpack/spelling"
  ELSE "unpack/plain"

ReqTr(ar) == [b |-> ReqBranch(ar),
              e |-> IF Good(ar) = DOMAIN ar THEN "ok" ELSE "FAIL",
              n |-> "=",
              tree |-> Expected(ar)]

ReqCalls == << [op |-> "unpack"] >>
InitReq == /\ PrintT(ToString([calls |-> ReqCalls]))
           /\ st \in { [ar |-> a] : a \in ArchiveSet }
NextReq == /\ PrintT(ToString([s |-> st, r |-> << ReqTr(st.ar) >>]))
           /\ st' = st
SpecReq == InitReq /\ [][NextReq]_st

\* sanity of the requirement operators on the alphabet (TLC evaluates it as an invariant of SpecReq)
ReqProps ==
  LET ar == st.ar  ex == Expected(ar) IN
  /\ \A p \in DOMAIN ex : ~Invalid(p) /\ p # << >>
  /\ \A p \in DOMAIN ex : Len(p) > 1 => Parent(p) \in DOMAIN ex /\ ex[Parent(p)].k = "dir"
  /\ \A i \in Good(ar) : PathOf(ar, i) # << >> => ex[PathOf(ar, i)].src = i
  /\ \A p \in DOMAIN ex : ex[p].src = 0 => \E i \in Good(ar) : IsPrefix(p, PathOf(ar, i))


-----------------------------------------------------------------------------
(* TarReq, stream faults: the archive byte stream is cut (clean EOF), fails (reader error), has the header block
   of an entry corrupted, or the caller's context is cancelled, at a 512-byte block boundary b (blocks 0..b-1 were
   delivered). USTAR layout: one header block per entry, data padded to whole blocks, two zero blocks at the end. *)
SizeOf(sz) == CASE sz = "0" -> 0 [] sz = "1" -> 1 [] sz = "75k" -> 76800 [] sz = "150k-1" -> 153599 [] sz = "150k" -> 153600
                [] sz = "150k+1" -> 153601 [] sz = "155k" -> 158600 [] sz = "4m" -> 4347905
DataBlocks(e) == IF e.k = "dir" THEN 0 ELSE (SizeOf(e.sz) + 511) \div 512
RECURSIVE HdrAt(_, _)
HdrAt(ar, i) == IF i = 1 THEN 0 ELSE HdrAt(ar, i - 1) + 1 + DataBlocks(ar[i - 1])     \* block index of header i; i = Len+1: trailer
TotalBlocks(ar) == HdrAt(ar, Len(ar) + 1) + 2
\* entries completely delivered when b blocks were delivered
CompleteAt(ar, b) == { i \in DOMAIN ar : HdrAt(ar, i + 1) <= b }
IsBoundary(ar, b) == \E i \in 1..(Len(ar) + 1) : HdrAt(ar, i) = b
CutKinds == {"eof", "err", "cancel", "corrupt"}
\* outcome: "ok" = Done() closes with UnarchiveErr() = nil and the tree is exactly that of the entries in `has`;
\* "FAIL" = UnarchiveErr() # nil (then every Open fails); in both cases no Open ever succeeds with partial bytes.
CutOutcome(ar, b, kind) ==
  LET n == Len(ar)  trailer == HdrAt(ar, n + 1)  all == DOMAIN ar IN
  CASE kind = "eof" ->
         IF b >= trailer THEN [e |-> "ok", has |-> all, b |-> IF b = trailer THEN "cut/eof-before-trailer" ELSE "cut/eof-in-trailer"]
         ELSE IF IsBoundary(ar, b) THEN [e |-> "ok", has |-> CompleteAt(ar, b), b |-> "cut/eof-at-entry-boundary"]
         ELSE [e |-> "FAIL", has |-> {}, b |-> "cut/eof-inside-entry"]
    [] kind = "err" ->
         IF b >= trailer + 2 THEN [e |-> "ok", has |-> all, b |-> "cut/err-after-end"]
         ELSE [e |-> "FAIL", has |-> {}, b |-> IF b >= trailer THEN "cut/err-in-trailer" ELSE IF IsBoundary(ar, b) THEN "cut/err-at-header" ELSE "cut/err-inside-entry"]
    [] kind = "corrupt" ->      \* block b is a header block whose checksum is broken
         [e |-> "FAIL", has |-> {}, b |-> "cut/corrupt-header"]
    [] kind = "cancel" ->       \* the reader looks at the context once per entry, after reading its header
         IF b > HdrAt(ar, n) THEN [e |-> "ok", has |-> all, b |-> "cut/cancel-after-last-header"]
         ELSE [e |-> "FAIL", has |-> {}, b |-> "cut/cancel-before-a-header"]
CutEnabled(ar, b, kind) ==
  /\ b <= TotalBlocks(ar)
  /\ (kind = "corrupt" => \E i \in DOMAIN ar : HdrAt(ar, i) = b)
  /\ (kind = "cancel" => b < TotalBlocks(ar))
MaxBlocks == LET S == { TotalBlocks(a) : a \in ArchiveSet } IN CHOOSE m \in S : \A x \in S : x <= m
CutCalls == SX!SetToSeq({ [at |-> b, kind |-> k, op |-> "cut"] : b \in 0..MaxBlocks, k \in CutKinds })
CutTr(ar, c) ==
  IF ~CutEnabled(ar, c.at, c.kind) THEN [e |-> "-", n |-> "skip"]
  ELSE LET o == CutOutcome(ar, c.at, c.kind) IN
       [b |-> o.b, e |-> o.e, n |-> "=", tree |-> IF o.e = "ok" THEN ExpectedOf(ar, o.has) ELSE Expected(ar)]
InitCut == /\ PrintT(ToString([calls |-> CutCalls]))
           /\ st \in { [ar |-> a] : a \in ArchiveSet }
NextCut == /\ PrintT(ToString([s |-> st, r |-> [i \in DOMAIN CutCalls |-> CutTr(st.ar, CutCalls[i])]]))
           /\ st' = st
SpecCut == InitCut /\ [][NextCut]_st
CutProps ==
  LET ar == st.ar IN
  /\ \A i \in DOMAIN ar : HdrAt(ar, i) < HdrAt(ar, i + 1)
  /\ \A b \in 0..TotalBlocks(ar) : CompleteAt(ar, b) \subseteq DOMAIN ar
  /\ CutOutcome(ar, TotalBlocks(ar), "eof").e = "ok" /\ CutOutcome(ar, TotalBlocks(ar), "eof").has = DOMAIN ar
  /\ \A b \in 0..TotalBlocks(ar) : CutOutcome(ar, b, "eof").e = "ok" => \A i \in CutOutcome(ar, b, "eof").has : HdrAt(ar, i + 1) <= b

-----------------------------------------------------------------------------
(* TarImpl *)

\* number of destination Write calls that make the file complete, by size class
\*   "0": empty; "1", "150k-1", "75k": one first read that hits EOF (small file, background writer)
\*   "150k": the first read fills the small buffer exactly. Unrepaired code (io.ReadFull drops the EOF that comes with the
\*           last bytes): foreground, no copy chunk. Repaired code (Fixed; the first read reports n = len, io.EOF as the tar
\*           reader delivers it): a small file like the others, written in the background
\*   "150k+1", "155k": one copy chunk; "4m": 4 MiB + 150 KiB + 1: two copy chunks
Small(sz)  == sz \in {"0", "1", "75k", "150k-1"} \/ (Fixed /\ sz = "150k")
NW(sz)     == CASE sz = "150k+1" -> 2 [] sz = "155k" -> 2 [] sz = "4m" -> 3 [] OTHER -> 1
\* a stream segment of this class can end inside (at a 512-byte block boundary that is not its start)
MidFirst(sz)    == sz \in {"75k", "150k-1", "150k", "150k+1", "155k", "4m"}    \* first read segment
MidChunk(sz, j) == (sz = "155k" /\ j = 2) \/ (sz = "4m" /\ j = 2)              \* copy chunk j

Put(f, p, v) == [x \in (DOMAIN f) \cup {p} |-> IF x = p THEN v ELSE f[x]]
Has(f, p)    == p \in DOMAIN f
DirNode(perm) == [k |-> "dir", nw |-> 0, perm |-> perm, w |-> 0]
FileNode(perm, nw) == [k |-> "file", nw |-> nw, perm |-> perm, w |-> 0]

MkdirRes(d, p) ==
  IF Invalid(p) THEN "EINVAL" ELSE IF Has(d, p) THEN "EEXIST"
  ELSE IF ~Has(d, Parent(p)) THEN "ENOENT" ELSE IF d[Parent(p)].k # "dir" THEN "ENOTDIR" ELSE "ok"
CreateRes(d, p) ==
  IF Invalid(p) THEN "EINVAL" ELSE IF Has(d, p) /\ d[p].k = "dir" THEN "EISDIR"
  ELSE IF ~Has(d, Parent(p)) THEN "ENOENT" ELSE IF d[Parent(p)].k # "dir" THEN "ENOTDIR" ELSE "ok"

N(s)      == Len(s.ar)
Ent(s)    == s.ar[s.r.i]
EPath(s)  == PathOf(s.ar, s.r.i)
EDir(s)   == Parent(EPath(s))
Clients(s) == DOMAIN s.cl

IdleW == [pc |-> "idle", tr |-> FALSE]
Init0(ar, want) ==
  [ar   |-> ar,
   cb   |-> FALSE,                                     \* caller context cancelled
   cl   |-> [c \in DOMAIN want |-> [pc |-> "idle", res |-> "", want |-> want[c]]],
   dst  |-> (<< >> :> DirNode(-1)),
   env  |-> 0,                                         \* environment events so far
   errs |-> "",                                        \* the errs channel (capacity 1)
   ev   |-> {},                                        \* which kinds of environment events happened
   mk   |-> {},                                        \* mkdirCache
   r    |-> [e |-> "", i |-> 1, j |-> 0, pc |-> "poll", tr |-> FALSE],
   rd   |-> FALSE,                                     \* readerCtx done (Done() closed)
   sticky |-> FALSE,                                   \* archive/tar remembers a read error
   ue   |-> "",                                        \* unarchiveErr
   vis  |-> {},                                        \* pubsub visited
   wg   |-> 0,
   wr   |-> [i \in DOMAIN ar |-> IdleW]]

WakeIf(s, P(_)) == [c \in DOMAIN s.cl |-> IF s.cl[c].pc = "blocked" /\ P(s.cl[c].want) THEN [s.cl[c] EXCEPT !.pc = "chk"] ELSE s.cl[c]]
Emit(s, p) == LET Is(q) == q = p IN [s EXCEPT !.vis = @ \cup {p}, !.cl = WakeIf(s, Is)]
WakeAll(s) == LET Every(q) == TRUE IN WakeIf(s, Every)

EnvOK(s, kind) == kind \in EnvKinds /\ s.env < MaxEnv
Env(s, kind)   == [s EXCEPT !.env = @ + 1, !.ev = @ \cup {kind}]

RFail(s, e)   == [s EXCEPT !.r.pc = "store", !.r.e = e]
NextEntry(s)  == [s EXCEPT !.r.i = @ + 1, !.r.j = 0, !.r.pc = "poll", !.r.tr = FALSE]
Spawn(s, pc, tr) == [s EXCEPT !.wr[s.r.i] = [pc |-> pc, tr |-> tr], !.wg = @ + 1]

\* --- reader ---
RGate(s) == s.r.pc \in {"hdr", "mk", "rd1", "bcreate", "bwr", "brd", "dmk", "dchmod"}
RActs(s) ==
  LET pc == s.r.pc IN
  CASE pc = "hdr" -> {"go"} \cup (IF EnvOK(s, "cut") THEN {"eof"} ELSE {}) \cup (IF EnvOK(s, "err") THEN {"err"} ELSE {})
    [] pc = "rd1" -> {"go"} \cup (IF EnvOK(s, "cut") THEN {"eof"} \cup (IF MidFirst(Ent(s).sz) THEN {"eofmid"} ELSE {}) ELSE {})
                            \cup (IF EnvOK(s, "err") THEN {"err"} ELSE {})
    [] pc = "brd" -> {"go"} \cup (IF EnvOK(s, "cut") THEN {"eof"} \cup (IF MidChunk(Ent(s).sz, s.r.j) THEN {"eofmid"} ELSE {}) ELSE {})
                            \cup (IF EnvOK(s, "err") THEN {"err"} ELSE {})
    [] pc \in {"mk", "bcreate", "bwr", "dmk", "dchmod"} -> {"go"} \cup (IF EnvOK(s, "fault") THEN {"fail"} ELSE {})
    [] pc = "fin" -> (IF s.errs # "" THEN {"selerr"} ELSE {}) \cup (IF s.wg = 0 /\ (~Fixed \/ s.errs = "") THEN {"seldone"} ELSE {})
    [] pc = "end" -> {}
    [] OTHER -> {"go"}

RAct(s, a) ==
  LET pc == s.r.pc IN
  CASE pc = "poll" ->
         IF s.errs # "" THEN RFail([s EXCEPT !.errs = ""], s.errs)
         ELSE IF s.sticky THEN RFail(s, "stream")
         ELSE [s EXCEPT !.r.pc = "hdr"]
    [] pc = "hdr" ->
         IF a = "go" THEN (IF s.r.i <= N(s) THEN [s EXCEPT !.r.pc = "chk"] ELSE [s EXCEPT !.r.pc = "fin"])
         ELSE IF a = "eof" THEN Env([s EXCEPT !.r.pc = "fin"], "cut")           \* EOF at a header boundary is the end of the archive
         ELSE RFail(Env(s, "err"), "stream")
    [] pc = "chk" ->
         IF s.cb THEN RFail(s, "ctx")
         ELSE IF Invalid(EDir(s)) THEN RFail(s, "mkdirall")                     \* hackpadfs.MkdirAll refuses the invalid path, no destination call
         ELSE IF EDir(s) \in s.mk THEN [s EXCEPT !.r.pc = "kind"]
         ELSE [s EXCEPT !.r.pc = "mk", !.r.j = IF EDir(s) = << >> THEN 0 ELSE 1]
    [] pc = "mk" ->
         IF a = "fail" THEN RFail(Env(s, "fault"), "mkdirall")
         ELSE LET q == SubSeq(EDir(s), 1, s.r.j)  res == MkdirRes(s.dst, q)
                  s1 == IF res = "ok" THEN [s EXCEPT !.dst = Put(s.dst, q, DirNode(448))] ELSE s IN   \* 0700
              IF res \notin {"ok", "EEXIST"} \/ (res = "EEXIST" /\ s.dst[q].k # "dir") THEN RFail(s, "mkdirall")
              ELSE IF s.r.j = Len(EDir(s)) THEN [s1 EXCEPT !.mk = @ \cup {EDir(s)}, !.r.pc = "kind"]
              ELSE [s1 EXCEPT !.r.j = @ + 1]
    [] pc = "kind" ->
         IF Ent(s).k = "dir" /\ Fixed THEN [s EXCEPT !.r.pc = "dmk"]
         ELSE IF Ent(s).k = "dir" THEN NextEntry(Spawn(s, "wmkdir", FALSE))
         ELSE IF Ent(s).sz = "0" THEN NextEntry(Spawn(s, "wcreate", FALSE))     \* first read: (0, EOF) without a stream read
         ELSE [s EXCEPT !.r.pc = "rd1"]
    [] pc = "dmk" ->
         IF a = "fail" THEN RFail(Env(s, "fault"), "dir")
         ELSE LET res == MkdirRes(s.dst, EPath(s)) IN
              IF res = "ok" THEN NextEntry([s EXCEPT !.dst = Put(s.dst, EPath(s), DirNode(Ent(s).perm))])
              ELSE IF res = "EEXIST" THEN [s EXCEPT !.r.pc = "dchmod"] ELSE RFail(s, "dir")
    [] pc = "dchmod" ->
         IF a = "fail" THEN RFail(Env(s, "fault"), "dir")
         ELSE NextEntry([s EXCEPT !.dst[EPath(s)].perm = Ent(s).perm])
    [] pc = "rd1" ->
         IF a = "go" THEN (IF Small(Ent(s).sz) THEN NextEntry(Spawn(s, "wcreate", FALSE)) ELSE [s EXCEPT !.r.pc = "bcreate"])
         ELSE IF a \in {"eof", "eofmid"} /\ Fixed THEN RFail(Env([s EXCEPT !.sticky = TRUE], "cut"), "stream")
         ELSE IF a \in {"eof", "eofmid"}                                         \* fullReader turns ErrUnexpectedEOF into EOF: a short small file
           THEN NextEntry(Spawn(Env([s EXCEPT !.sticky = TRUE], "cut"), "wcreate", TRUE))
         ELSE RFail(Env(s, "err"), "stream")
    [] pc = "bcreate" ->
         IF a = "fail" THEN RFail(Env(s, "fault"), "open")
         ELSE IF CreateRes(s.dst, EPath(s)) # "ok" THEN RFail(s, "open")
         ELSE [s EXCEPT !.dst = Put(s.dst, EPath(s), FileNode(Ent(s).perm, NW(Ent(s).sz))), !.r.pc = "bwr", !.r.j = 1]
    [] pc = "bwr" ->
         IF a = "fail" THEN RFail(Env(s, "fault"), "write")
         ELSE IF s.r.tr /\ Fixed THEN RFail(s, "stream")                         \* io.CopyBuffer writes what it got, then returns the error
         ELSE IF s.r.tr THEN [s EXCEPT !.r.pc = "bclose"]                       \* the short last chunk: bytes added, segment not complete
         ELSE LET s1 == [s EXCEPT !.dst[EPath(s)].w = s.r.j] IN
              IF s.r.j = NW(Ent(s).sz) THEN [s1 EXCEPT !.r.pc = "bclose"] ELSE [s1 EXCEPT !.r.pc = "brd", !.r.j = @ + 1]
    [] pc = "brd" ->
         IF a = "go" THEN [s EXCEPT !.r.pc = "bwr"]
         ELSE IF a = "eofmid" THEN Env([s EXCEPT !.sticky = TRUE, !.r.tr = TRUE, !.r.pc = "bwr"], "cut")
         ELSE IF a = "eof" /\ Fixed THEN RFail(Env([s EXCEPT !.sticky = TRUE], "cut"), "stream")
         ELSE IF a = "eof" THEN Env([s EXCEPT !.sticky = TRUE, !.r.pc = "bclose"], "cut")   \* (0, EOF): io.CopyBuffer ends without error
         ELSE RFail(Env(s, "err"), "stream")
    [] pc = "bclose" -> NextEntry(Emit(s, EPath(s)))
    [] pc = "fin" ->
         IF a = "selerr" THEN RFail([s EXCEPT !.errs = ""], s.errs) ELSE RFail(s, "")
    [] pc = "store"  -> [s EXCEPT !.ue = s.r.e, !.r.pc = "cancel"]
    [] pc = "cancel" -> [s EXCEPT !.cb = TRUE, !.cl = IF Fixed THEN s.cl ELSE WakeAll(s), !.r.pc = "rdone"]
    [] pc = "rdone"  -> [s EXCEPT !.rd = TRUE, !.cl = IF Fixed THEN WakeAll(s) ELSE s.cl, !.r.pc = "end"]

\* --- background writer of entry i ---
WGate(s, i) == s.wr[i].pc \in {"wmkdir", "wchmod", "wcreate", "wwrite"}
WActs(s, i) ==
  LET pc == s.wr[i].pc IN
  CASE pc \in {"idle", "end"} -> {}
    [] pc \in {"wmkdir", "wchmod", "wcreate", "wwrite"} -> {"go"} \cup (IF EnvOK(s, "fault") THEN {"fail"} ELSE {})
    [] pc = "werr" -> IF s.errs = "" THEN {"go"} ELSE {}          \* errs has capacity 1: a second failing writer blocks
    [] OTHER -> {"go"}
WAct(s, i, a) ==
  LET pc == s.wr[i].pc  p == PathOf(s.ar, i)  e == s.ar[i]
      To(x, q) == [x EXCEPT !.wr[i].pc = q] IN
  CASE a = "fail" -> To(Env(s, "fault"), "werr")
    [] pc = "wmkdir" ->
         LET res == MkdirRes(s.dst, p) IN
         IF res = "ok" THEN To([s EXCEPT !.dst = Put(s.dst, p, DirNode(e.perm))], "wdone")
         ELSE IF res = "EEXIST" THEN To(s, "wchmod") ELSE To(s, "werr")
    [] pc = "wchmod" -> To([s EXCEPT !.dst[p].perm = e.perm], "wdone")
    [] pc = "wcreate" ->
         IF CreateRes(s.dst, p) # "ok" THEN To(s, "werr")
         ELSE To([s EXCEPT !.dst = Put(s.dst, p, FileNode(e.perm, NW(e.sz)))], "wwrite")
    [] pc = "wwrite" -> IF s.wr[i].tr THEN To(s, "wemit") ELSE To([s EXCEPT !.dst[p].w = 1], "wemit")
    [] pc = "wemit"  -> To(Emit(s, p), "wdone")
    [] pc = "werr"   -> To([s EXCEPT !.errs = "writer"], "wdone")
    [] pc = "wdone"  -> To([s EXCEPT !.wg = @ - 1], "end")

\* --- client c: fs.Open(want) ---
CGate(s, c) == s.cl[c].pc \in {"idle", "open"}
CActs(s, c) == IF s.cl[c].pc \in {"blocked", "ret"} THEN {} ELSE {"go"}
Full(node)  == node.w = node.nw
CAct(s, c, a) ==
  LET pc == s.cl[c].pc  p == s.cl[c].want
      To(q) == [s EXCEPT !.cl[c].pc = q]
      Ret(x) == [s EXCEPT !.cl[c].pc = "ret", !.cl[c].res = x] IN
  CASE pc = "idle" -> To("wait")
    [] pc = "wait" -> IF (IF Fixed THEN s.rd ELSE s.cb) \/ p \in s.vis THEN To("chk") ELSE To("blocked")
    [] pc = "chk"  -> IF s.ue # "" THEN Ret("FAIL") ELSE To("open")
    [] pc = "open" -> IF ~Has(s.dst, p) THEN Ret("ENOENT")
                      ELSE IF s.dst[p].k = "dir" THEN Ret("dir")
                      ELSE IF Full(s.dst[p]) THEN Ret("full") ELSE Ret("prefix")

\* --- threads: 0 reader, 1..N writers, 10+c clients, -1 environment (Cancel) ---
Threads(s) == {-1, 0} \cup (DOMAIN s.ar) \cup { 10 + c : c \in Clients(s) }
Acts(s, t) ==
  IF t = -1 THEN (IF EnvOK(s, "cancel") /\ ~s.cb THEN {"cancel"} ELSE {})
  ELSE IF t = 0 THEN RActs(s) ELSE IF t < 10 THEN WActs(s, t) ELSE CActs(s, t - 10)
Act(s, t, a) ==
  IF t = -1 THEN Env([s EXCEPT !.cb = TRUE, !.cl = IF Fixed THEN s.cl ELSE WakeAll(s)], "cancel")
  ELSE IF t = 0 THEN RAct(s, a) ELSE IF t < 10 THEN WAct(s, t, a) ELSE CAct(s, t - 10, a)
IsGate(s, t) == IF t = -1 THEN TRUE ELSE IF t = 0 THEN RGate(s) ELSE IF t < 10 THEN WGate(s, t) ELSE CGate(s, t - 10)

InitStates == { Init0(ar, w) : ar \in ArchiveSet, w \in Wants }

\* fine-grained
InitFine == st \in InitStates
NextFine == \E t \in Threads(st) : \E a \in Acts(st, t) : st' = Act(st, t, a)
\* progress of every thread that can take a non-environment step (stream delivery included)
Go(t) == t \in Threads(st) /\ \E a \in Acts(st, t) \cap {"go", "selerr", "seldone"} : st' = Act(st, t, a)
AllT  == 0..(10 + 8)
SpecFine == InitFine /\ [][NextFine]_st
SpecLive == SpecFine /\ \A t \in AllT : WF_st(Go(t))

\* gate level
Internal(s) == { t \in Threads(s) : ~IsGate(s, t) /\ Acts(s, t) # {} }
RECURSIVE SettleAll(_)
SettleAll(s) == IF Internal(s) = {} THEN {s}
                ELSE UNION { UNION { SettleAll(Act(s, t, a)) : a \in Acts(s, t) } : t \in Internal(s) }
GateMoves(s) == { <<t, a>> \in (Threads(s) \X {"go", "fail", "eof", "eofmid", "err", "cancel"}) : IsGate(s, t) /\ a \in Acts(s, t) }
GateTr(s, m) == [a |-> m[2], ns |-> SX!SetToSeq(SettleAll(Act(s, m[1], m[2]))), t |-> m[1]]
InitGate == st \in UNION { SettleAll(x) : x \in InitStates }
NextGate == /\ PrintT(ToString([s |-> st, r |-> SX!SetToSeq({ GateTr(st, m) : m \in GateMoves(st) })]))
            /\ \E m \in GateMoves(st) : st' \in SettleAll(Act(st, m[1], m[2]))
SpecGate == InitGate /\ [][NextGate]_st

-----------------------------------------------------------------------------
(* properties of TarImpl, on the model *)

Returned(s) == \A c \in Clients(s) : s.cl[c].pc = "ret"
Results(s)  == { s.cl[c].res : c \in Clients(s) }
IsFileEntry(s, p) == \E i \in Good(s.ar) : PathOf(s.ar, i) = p /\ s.ar[i].k = "file"

\* C13: an Open that succeeds on a regular entry yields the complete bytes (no environment event needed to break it?)
AtomicVisibility      == st.ev = {} => "prefix" \notin Results(st)
AtomicVisibilityCut   == st.ev \subseteq {"cut", "err"} => "prefix" \notin Results(st)
\* C13: after a failure / cancellation no Open succeeds with missing bytes
NoSuccessOnIncomplete == "prefix" \notin Results(st)
\* a failed destination call, a stream error or a cut inside an entry surfaces as UnarchiveErr
FaultSurfaces == (st.rd /\ (st.sticky \/ st.ev \cap {"err", "fault"} # {})) => st.ue # ""
\* C12: after a successful unpack the destination is exactly the tree of the entries delivered
Delivered(s) == 1..(s.r.i - 1)
TreeMatches(s, ex) ==
  /\ DOMAIN s.dst \ {<< >>} = DOMAIN ex
  /\ \A p \in DOMAIN ex : /\ s.dst[p].k = ex[p].k
                          /\ (ex[p].perm # -1 => s.dst[p].perm = ex[p].perm)
                          /\ (ex[p].k = "file" => Full(s.dst[p]))
FinalTreeIsArchive == (st.rd /\ st.ue = "") => TreeMatches(st, ExpectedOf(st.ar, Delivered(st) \cap Good(st.ar)))
\* C12: an escaping name (delivered) makes the unpack fail; what exists is a subset of what the other entries give
EscapingNameFails ==
  (st.rd /\ \E i \in DOMAIN st.ar : Escapes(st.ar[i].raw) /\ i <= st.r.i /\ st.ev \cap {"cut"} = {}) =>
      /\ st.ue # ""
      /\ \A p \in DOMAIN st.dst \ {<< >>} : ~Invalid(p) /\ p \in DOMAIN Expected(st.ar)
\* invariants that hold with every environment
ImplProps ==
  /\ st.wg >= 0 /\ st.wg <= N(st)
  /\ (st.rd => st.cb /\ st.r.pc = "end")
  /\ (st.ue # "" => st.r.pc \in {"cancel", "rdone", "end"})
  /\ \A c \in Clients(st) : st.cl[c].pc = "blocked" => ~(IF Fixed THEN st.rd ELSE st.cb) /\ st.cl[c].want \notin st.vis     \* no lost wake-up
  /\ \A p \in DOMAIN st.dst : p # << >> => Parent(p) \in DOMAIN st.dst
  /\ (st.rd /\ st.ue = "" => st.wg = 0)

\* C13 liveness: every Open returns and Done closes (stream delivery and every thread weakly fair)
Termination == <>[](st.rd /\ Returned(st))
=============================================================================
