SPECIFICATION Spec
CONSTANTS
  Prog <- P5
  Present <- PresentB
  Start <- StartFileB
INVARIANT ModelProps
CHECK_DEADLOCK FALSE
