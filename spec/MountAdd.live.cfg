SPECIFICATION SpecLive
CONSTANTS
  Threads <- T4
  PointOf <- PO_nest4
  RootKind <- RK_dirs
  Probes <- PR
  PrefixPoints <- PP
  DepthOf <- DO
PROPERTY Termination
CHECK_DEADLOCK FALSE
