-------------------------------- MODULE Blob --------------------------------
(***************************************************************************)
(* Requirement specification of blobs (property C19): every Blob is         *)
(* observationally a byte sequence.  Views alias the blob they were taken   *)
(* from, slices and Bytes() are independent copies, out-of-range arguments  *)
(* are answered with an error and change nothing, every call terminates.    *)
(*                                                                         *)
(* State: NS slots.  Slot 1 is the root blob (blob.NewBytes(InitData)); the *)
(* other slots receive the results of View / Slice and can be dropped again.*)
(*   own   : a blob with its own bytes `bs` (the root, or a slice/copy)     *)
(*   view  : an alias of bytes lo+1..hi of the own blob in slot `par`       *)
(*           (a view of a view is flattened to its own ancestor)           *)
(*   stale : a blob whose content the property does not determine any more  *)
(*   free  : no blob                                                       *)
(*                                                                         *)
(* In-range rules (read off keyvalue/blob/bytes.go and the interface docs   *)
(* in blob.go; L = current length of the receiver):                        *)
(*   View/Slice(start,end) : 0 <= start <= end <= L                         *)
(*   Set(src, off)         : 0 <= off <= L; copies min(len(src), L-off)     *)
(*                           bytes and returns that count (Go's copy)       *)
(*   Grow(n)               : n >= 0, appends n zero bytes                   *)
(*   Truncate(size)        : 0 <= size <= L                                 *)
(* Everything else must be answered with an error ("ERR": no panic, no     *)
(* hang, nothing modified).                                                *)
(*                                                                         *)
(* LEFT UNCONSTRAINED, deliberately (DESIGN.md section 6, C19 "O"): a Go    *)
(* slice that is appended to or re-sliced may or may not be relocated, the  *)
(* property's "[]byte model" has the same indeterminacy, hence              *)
(*  (U1) the content of a view after the blob it aliases was grown or       *)
(*       truncated by a non-zero amount: the view becomes `stale`;          *)
(*  (U2) Grow / Truncate OF a view with in-range arguments: result class    *)
(*       "ANY" (ok or error; still no panic, no hang); the view becomes     *)
(*       stale, and for Grow(n>0) so does the whole alias family (in the    *)
(*       []byte model append() on a sub-slice may overwrite the parent);    *)
(*       amounts that change nothing (Grow 0, Truncate L) change nothing;   *)
(*  (U3) calls that are in range but have nothing to do, which bytes.go     *)
(*       itself answers both ways: Set of a non-empty source at off = L     *)
(*       (bytes.go: (0,nil) when L > 0, an error when L = 0) and            *)
(*       Truncate(size > L) (bytes.go: nil, "already shorter"): class       *)
(*       "NOOP" = ok-with-nothing-transferred or error, nothing modified.   *)
(* A stale blob only has to keep answering Len/Bytes without panic or hang  *)
(* ("ANY"); it is not used as receiver or source of anything else and its   *)
(* content is not compared.  Independent copies are never affected by any   *)
(* of this and stay fully constrained.                                     *)
(***************************************************************************)
EXTENDS Integers, Sequences, FiniteSets, TLC
SX == INSTANCE SequencesExt

CONSTANTS NS,        \* number of blob slots (slot 1 = root)
          MaxLen,    \* bound on the length of every blob in the model
          InitData,  \* bytes of the root blob in the initial state
          Lits,      \* byte sequences used as fresh (non-aliasing) Set sources
          Args,      \* start / end / offset / size / amount arguments (negative ones included)
          MaxSteps   \* bound on the number of state-changing calls in one history

VARIABLE st   \* [n |-> number of state-changing calls so far, sl |-> <<slot_1, ..., slot_NS>>]
              \* (the operators below work on the slot tuple `s`; n only bounds the exploration)

Slots == 1..NS
\* (record fields are written in alphabetical order everywhere: TLC prints a state variable's value
\* normalised and a freshly constructed record as written; the replay engine keys states by their text)
Free  == [bs |-> << >>, hi |-> 0, k |-> "free",  lo |-> 0, par |-> 0]
Stale == [bs |-> << >>, hi |-> 0, k |-> "stale", lo |-> 0, par |-> 0]
Own(bs)         == [bs |-> bs,    hi |-> 0, k |-> "own",  lo |-> 0, par |-> 0]
ViewOf(p, l, h) == [bs |-> << >>, hi |-> h, k |-> "view", lo |-> l, par |-> p]
Init0 == [i \in Slots |-> IF i = 1 THEN Own(InitData) ELSE Free]

Min2(a, b) == IF a < b THEN a ELSE b
Zeros(n)   == [i \in 1..n |-> 0]
Live(s, i) == s[i].k \in {"own", "view"}
\* the own blob whose bytes slot i shows, and the window of it
RootOf(s, i) == IF s[i].k = "view" THEN s[i].par ELSE i
Lo(s, i)     == IF s[i].k = "view" THEN s[i].lo ELSE 0
Hi(s, i)     == IF s[i].k = "view" THEN s[i].hi ELSE Len(s[i].bs)
LenOf(s, i)  == Hi(s, i) - Lo(s, i)
\* the byte sequence slot i must present (SeqModel of DESIGN.md section 3.4)
Obs(s, i)    == IF s[i].k = "view" THEN SubSeq(s[s[i].par].bs, s[i].lo + 1, s[i].hi) ELSE s[i].bs
SameFamily(s, i, j) == Live(s, i) /\ Live(s, j) /\ RootOf(s, i) = RootOf(s, j)
ViewsOf(s, r) == { j \in Slots : s[j].k = "view" /\ s[j].par = r }
FreeSlot(s)   == IF \E j \in Slots : s[j].k = "free" THEN CHOOSE j \in Slots : s[j].k = "free" /\ \A m \in 1..(j - 1) : s[m].k # "free" ELSE 0
\* overwrite d[pos+1 .. pos+Len(w)] (caller guarantees it fits)
Patch(d, pos, w) == [i \in 1..Len(d) |-> IF i > pos /\ i <= pos + Len(w) THEN w[i - pos] ELSE d[i]]

\* result: e = expected class; len = length / count returned (-1: none); bs = bytes returned;
\* slot = slot receiving the returned blob (0: none)
Res(e, len, bs, slot, s, b) == [e |-> e, len |-> len, bs |-> bs, slot |-> slot, st |-> s, b |-> b]
ErrR(s, b)    == Res("ERR", -1, << >>, 0, s, b)
AnyR(s, b)    == Res("ANY", -1, << >>, 0, s, b)
NoopR(s, b)   == Res("NOOP", 0, << >>, 0, s, b)
Kind(s, i)   == IF s[i].k = "view" THEN "view" ELSE "own"

BadRange(L, x, y) == x < 0 \/ x > L \/ y < 0 \/ y > L \/ x > y
RangeBranch(op, L, x, y) ==
  op \o (IF x < 0 \/ y < 0 THEN "/negative" ELSE IF x > L \/ y > L THEN "/past-end" ELSE "/start-after-end")

View(s, i, x, y) ==
  LET L == LenOf(s, i)  f == FreeSlot(s) IN
  IF BadRange(L, x, y) THEN ErrR(s, RangeBranch("view", L, x, y))
  ELSE Res("ok", y - x, SubSeq(Obs(s, i), x + 1, y), f,
           [s EXCEPT ![f] = ViewOf(RootOf(s, i), Lo(s, i) + x, Lo(s, i) + y)],
           "view/of-" \o Kind(s, i) \o (IF x = y THEN "-empty" ELSE ""))

Slice(s, i, x, y) ==
  LET L == LenOf(s, i)  f == FreeSlot(s) IN
  IF BadRange(L, x, y) THEN ErrR(s, RangeBranch("slice", L, x, y))
  ELSE Res("ok", y - x, SubSeq(Obs(s, i), x + 1, y), f,
           [s EXCEPT ![f] = Own(SubSeq(Obs(s, i), x + 1, y))],
           "slice/of-" \o Kind(s, i) \o (IF x = y THEN "-empty" ELSE ""))

\* src = 0: the source is a fresh blob holding `lit`; otherwise the blob in slot src
Set(s, d, src, lit, off) ==
  LET data == IF src = 0 THEN lit ELSE Obs(s, src)
      L    == LenOf(s, d)
      k    == Min2(Len(data), L - off)
      rel  == IF src = 0 THEN "lit" ELSE IF src = d THEN "self" ELSE IF SameFamily(s, d, src) THEN "alias" ELSE "other"
      r    == RootOf(s, d)
  IN
  IF off < 0 THEN ErrR(s, "set/negative")
  ELSE IF off > L THEN ErrR(s, "set/past-end")
  ELSE IF Len(data) > 0 /\ k = 0 THEN NoopR(s, "set/at-end-from-" \o rel)          \* (U3)
  ELSE Res("ok", k, << >>, 0,
           [s EXCEPT ![r].bs = Patch(@, Lo(s, d) + off, SubSeq(data, 1, k))],
           "set/" \o Kind(s, d) \o "-from-" \o rel \o (IF k < Len(data) THEN "-partial" ELSE IF k = 0 THEN "-empty" ELSE ""))

StaleViews(s, r) == [j \in Slots |-> IF j \in ViewsOf(s, r) THEN Stale ELSE s[j]]
StaleFamily(s, r) == [j \in Slots |-> IF j = r \/ j \in ViewsOf(s, r) THEN Stale ELSE s[j]]

Grow(s, i, n) ==
  IF n < 0 THEN ErrR(s, "grow/negative-" \o Kind(s, i))
  ELSE IF s[i].k = "view" THEN
         (IF n = 0 THEN AnyR(s, "grow/view-zero") ELSE AnyR(StaleFamily(s, s[i].par), "grow/view"))      \* (U2)
  ELSE IF n = 0 THEN Res("ok", -1, << >>, 0, s, "grow/zero")
  ELSE Res("ok", -1, << >>, 0, StaleViews([s EXCEPT ![i].bs = @ \o Zeros(n)], i),                      \* (U1)
           IF ViewsOf(s, i) = {} THEN "grow/own" ELSE "grow/own-with-views")

Truncate(s, i, size) ==
  LET L == LenOf(s, i) IN
  IF size < 0 THEN ErrR(s, "truncate/negative-" \o Kind(s, i))
  ELSE IF size > L THEN NoopR(s, "truncate/beyond-" \o Kind(s, i))                                       \* (U3)
  ELSE IF s[i].k = "view" THEN
         (IF size = L THEN AnyR(s, "truncate/view-same") ELSE AnyR([s EXCEPT ![i] = Stale], "truncate/view")) \* (U2)
  ELSE IF size = L THEN Res("ok", -1, << >>, 0, s, "truncate/same")
  ELSE Res("ok", -1, << >>, 0, StaleViews([s EXCEPT ![i].bs = SubSeq(@, 1, size)], i),                 \* (U1)
           IF ViewsOf(s, i) = {} THEN "truncate/own" ELSE "truncate/own-with-views")

LenOp(s, i) ==
  IF s[i].k = "stale" THEN AnyR(s, "len/stale") ELSE Res("ok", LenOf(s, i), << >>, 0, s, "len/" \o Kind(s, i))
\* Bytes() must be an independent copy: the harness scribbles over what it got and re-projects
BytesOp(s, i) ==
  IF s[i].k = "stale" THEN AnyR(s, "bytes/stale") ELSE Res("ok", LenOf(s, i), Obs(s, i), 0, s, "bytes/" \o Kind(s, i))
\* the harness forgets the blob in slot i (model bookkeeping only, no call on the real code)
Drop(s, i) == Res("ok", -1, << >>, 0, [s EXCEPT ![i] = Free], "drop/" \o s[i].k)

-----------------------------------------------------------------------------
C(op, b, x, y, src, lit) == [op |-> op, b |-> b, x |-> x, y |-> y, src |-> src, lit |-> lit]
Calls ==
       { C(op, i, x, y, 0, << >>) : op \in {"view", "slice"}, i \in Slots, x \in Args, y \in Args }
  \cup { C("set", i, x, 0, j, << >>) : i \in Slots, j \in Slots, x \in Args }
  \cup { C("set", i, x, 0, 0, l) : i \in Slots, l \in Lits, x \in Args }
  \cup { C(op, i, x, 0, 0, << >>) : op \in {"grow", "truncate"}, i \in Slots, x \in Args }
  \cup { C(op, i, 0, 0, 0, << >>) : op \in {"len", "bytes", "drop"}, i \in Slots }

\* a call is part of the model when the slots it names are in the right life-cycle state
Enabled(s, c) ==
  CASE c.op \in {"view", "slice"} -> Live(s, c.b) /\ (FreeSlot(s) # 0 \/ BadRange(LenOf(s, c.b), c.x, c.y))
    [] c.op = "set"               -> Live(s, c.b) /\ (c.src = 0 \/ Live(s, c.src))
    [] c.op \in {"grow", "truncate"} -> Live(s, c.b)
    [] c.op \in {"len", "bytes"}  -> s[c.b].k # "free"
    [] c.op = "drop"              -> c.b # 1 /\ s[c.b].k # "free" /\ ViewsOf(s, c.b) = {}

Eval(s, c) ==
  CASE c.op = "view"     -> View(s, c.b, c.x, c.y)
    [] c.op = "slice"    -> Slice(s, c.b, c.x, c.y)
    [] c.op = "set"      -> Set(s, c.b, c.src, c.lit, c.x)
    [] c.op = "grow"     -> Grow(s, c.b, c.x)
    [] c.op = "truncate" -> Truncate(s, c.b, c.x)
    [] c.op = "len"      -> LenOp(s, c.b)
    [] c.op = "bytes"    -> BytesOp(s, c.b)
    [] c.op = "drop"     -> Drop(s, c.b)

InBounds(s) == \A i \in Slots : Len(s[i].bs) <= MaxLen
StInit   == [n |-> 0, sl |-> Init0]
After(t) == [n |-> st.n + 1, sl |-> t]

CallSeq == SX!SetToSeq(Calls)
Tr(s, c) ==
  IF ~Enabled(s, c) THEN [e |-> "-", n |-> "skip"]
  ELSE LET r == Eval(s, c) IN
    [e |-> r.e, len |-> r.len, bs |-> r.bs, slot |-> r.slot, b |-> r.b,
     n |-> IF r.st = s THEN "=" ELSE IF InBounds(r.st) /\ st.n < MaxSteps THEN After(r.st) ELSE "skip"]
Line == [s |-> st, r |-> [i \in 1..Len(CallSeq) |-> Tr(st.sl, CallSeq[i])]]

Init == /\ st = StInit
        /\ PrintT(ToString([calls |-> CallSeq]))
Next == /\ PrintT(ToString(Line))
        /\ st.n < MaxSteps
        /\ \E c \in { x \in Calls : Enabled(st.sl, x) } :      \* (a set filter: disjunctions inside Enabled stay expressions)
              LET t == Eval(st.sl, c).st IN
              /\ t # st.sl /\ InBounds(t)
              /\ st' = After(t)
Spec == Init /\ [][Next]_st

-----------------------------------------------------------------------------
(* what TLC checks on the model: every successor of every reachable state *)
WellFormed(s) ==
  \A i \in Slots :
    /\ s[i].k \in {"own", "view", "stale", "free"}
    /\ (s[i].k = "view" => /\ s[i].par \in Slots /\ s[s[i].par].k = "own"
                           /\ 0 <= s[i].lo /\ s[i].lo <= s[i].hi /\ s[i].hi <= Len(s[s[i].par].bs))
    /\ (s[i].k # "own" => s[i].bs = << >>)

\* arguments the property calls negative or out of range
OutOfRange(s, c) ==
  LET L == LenOf(s, c.b) IN
  CASE c.op \in {"view", "slice"} -> BadRange(L, c.x, c.y)
    [] c.op = "set"               -> c.x < 0 \/ c.x > L
    [] c.op = "grow"              -> c.x < 0
    [] c.op = "truncate"          -> c.x < 0
    [] OTHER                      -> FALSE

S == st.sl
ModelProps ==
  /\ WellFormed(S)
  /\ \A c \in { x \in Calls : Enabled(S, x) } : LET r == Eval(S, c)  t == r.st IN
      /\ WellFormed(t)
      \* BadArgsChangeNothing: bad arguments are errors and change nothing; so do all errors and no-ops
      /\ (OutOfRange(S, c) => r.e = "ERR")
      /\ (r.e \in {"ERR", "NOOP"} => t = S)
      /\ (c.op \in {"len", "bytes"} => t = S)
      \* in-range calls on determinate blobs have a determinate outcome, except (U2) and (U3)
      /\ (~OutOfRange(S, c) /\ r.e \notin {"ok"} =>
             \/ (c.op \in {"grow", "truncate"} /\ S[c.b].k = "view")
             \/ (c.op = "truncate" /\ c.x > LenOf(S, c.b))
             \/ (c.op = "set" /\ c.x = LenOf(S, c.b))
             \/ (c.op \in {"len", "bytes"} /\ S[c.b].k = "stale"))
      \* View / Slice: the returned blob shows exactly the requested bytes, nothing else changes
      /\ (c.op \in {"view", "slice"} /\ r.e = "ok" =>
             /\ S[r.slot].k = "free" /\ Live(t, r.slot)
             /\ Obs(t, r.slot) = SubSeq(Obs(S, c.b), c.x + 1, c.y) /\ r.bs = Obs(t, r.slot)
             /\ t[r.slot].k = (IF c.op = "view" THEN "view" ELSE "own")
             /\ \A j \in Slots \ {r.slot} : t[j] = S[j])
      \* Set: views alias (every live blob of the receiver's family shows the written bytes at the
      \* written positions and its old bytes elsewhere), slices are independent (nothing else changes),
      \* lengths never change, the source is read before anything is written
      /\ (c.op = "set" /\ r.e = "ok" =>
             LET data == IF c.src = 0 THEN c.lit ELSE Obs(S, c.src)
                 p    == Lo(S, c.b) + c.x          \* absolute position in the family's own blob
             IN /\ r.len = Min2(Len(data), LenOf(S, c.b) - c.x)
                /\ \A j \in Slots :
                     /\ t[j].k = S[j].k /\ (Live(S, j) => LenOf(t, j) = LenOf(S, j))
                     /\ (Live(S, j) /\ ~SameFamily(S, j, c.b) => Obs(t, j) = Obs(S, j))
                     /\ (SameFamily(S, j, c.b) =>
                           \A a \in 1..LenOf(S, j) :
                              LET abs == Lo(S, j) + a IN      \* 1-based absolute index
                              Obs(t, j)[a] = IF abs > p /\ abs <= p + r.len THEN data[abs - p] ELSE Obs(S, j)[a]))
      \* Grow / Truncate of an own blob: exact bytes; blobs outside its family never change
      /\ (c.op = "grow" /\ r.e = "ok" => Obs(t, c.b) = Obs(S, c.b) \o Zeros(c.x))
      /\ (c.op = "truncate" /\ r.e = "ok" => Obs(t, c.b) = SubSeq(Obs(S, c.b), 1, c.x))
      /\ (c.op \in {"grow", "truncate"} =>
             \A j \in Slots : (Live(S, j) /\ ~SameFamily(S, j, c.b)) => t[j] = S[j])
=============================================================================
