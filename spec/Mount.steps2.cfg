SPECIFICATION Spec
CONSTANTS
  Names <- MNames
  MaxDepth = 0
  Perms <- MPerms
  Datas <- MDatas
  Times <- MTimes
  RootOps = TRUE
  MaxTreeDepth = 4
  MaxNodes = 99
  FlagSets = "all"
  Points <- MPoints
  BadPoints <- MBad
  MaxMounts = 1
  MaxSteps = 2
  OpPaths <- Paths3
  RenPaths <- RenQ
INVARIANT ModelProps
CHECK_DEADLOCK FALSE
