SPECIFICATION Spec
CONSTANTS
  Names <- GNames
  MaxDepth = 0
  Perms <- GPerms
  Datas <- GDatas
  Times <- GTimes
  RootOps = TRUE
  MaxTreeDepth = 9
  MaxNodes = 99
  FlagSets = "all"
  Tokens <- GTokens
  MaxTok = 2
  ValidName <- GValid
INVARIANT ModelProps
CHECK_DEADLOCK FALSE
