SPECIFICATION Spec
CONSTANTS
  NT = 3
  Keys <- K1
  MaxCalls = 1
  WithAbort = TRUE
  Modes <- ModesAll
INVARIANT ModelProps
CHECK_DEADLOCK FALSE
