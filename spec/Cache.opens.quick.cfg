SPECIFICATION Spec
CONSTANTS
  Mode = "seq"
  Inits <- InitsOpensQ
  NH = 2
  NT = 0
  MaxSteps = 5
  OpenNames <- NamesFew
  StatNames <- NamesFew
  ListNames <- DirsFew
  ReadLens <- RLall
  Seeks <- SK0
  Pages <- None
  MaxFail = 0
  StoreRemoves = TRUE
INVARIANT ModelProps
CHECK_DEADLOCK FALSE
