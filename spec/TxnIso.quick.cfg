SPECIFICATION Spec
CONSTANTS
  NT = 2
  Keys <- K2
  MaxCalls = 3
  WithAbort = TRUE
INVARIANT ModelProps
CHECK_DEADLOCK FALSE
