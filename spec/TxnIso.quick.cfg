SPECIFICATION Spec
CONSTANTS
  NT = 2
  Keys <- K2
  MaxCalls = 3
  WithAbort = TRUE
  Modes <- ModesAll
INVARIANT ModelProps
CHECK_DEADLOCK FALSE
