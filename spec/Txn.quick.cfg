SPECIFICATION Spec
CONSTANTS
  Keys <- K2
  Vals <- V2
  Handlers <- HAll
  MaxCalls = 4
INVARIANT ModelProps
CHECK_DEADLOCK FALSE
