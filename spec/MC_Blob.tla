------------------------------ MODULE MC_Blob ------------------------------
EXTENDS Blob
\* root contents: pairwise distinct bytes, so that a copy taken from the wrong position shows
D3 == <<1, 2, 3>>
D4 == <<1, 2, 3, 4>>
\* fresh Set sources: values that occur nowhere else
L1 == {<<9>>}
L12 == {<<9>>, <<8, 7>>}
L012 == {<< >>, <<9>>, <<8, 7>>}
\* start / end / offset / size / amount: -2 .. MaxLen+2
A3 == -2..5
A4 == -2..6
A5 == -2..7
A6 == -2..8
============================================================================
