-------------------------------- MODULE Links --------------------------------
(***************************************************************************)
(* Symbolic links: the part of the namespace FSCore leaves out.            *)
(*                                                                         *)
(* Ground truth is the os package (hackpadfs os.FS is a thin layer over    *)
(* it); the helpers the module is there for are Lstat, LstatOrStat, Stat   *)
(* and Symlink (property C08 lists them), which only differ from each      *)
(* other on a tree that has links.  The tree is small: four names at the   *)
(* root and one child name below directories.  A node is a regular file    *)
(* (with a one-letter content), a directory, or a link whose target is a   *)
(* name at the root of the file system (os.FS.Symlink resolves the target  *)
(* as an FS path from the root).  Links may dangle, chain and loop.        *)
(*                                                                         *)
(* Resolution (Walk) is the POSIX rule: every intermediate element that is *)
(* a link is followed; the last one is followed by Stat, ReadFile,         *)
(* WriteFile (O_CREATE|O_TRUNC, so writing through a dangling link creates *)
(* its target) and ReadDir, and not by Lstat, Remove, Mkdir and Symlink    *)
(* (which see the link itself: Mkdir and Symlink on an existing link give  *)
(* EEXIST).  Following more links than any loop-free resolution can need   *)
(* is ELOOP.                                                               *)
(*                                                                         *)
(* Same shape as FSCore: one variable, pure operators, one printed line    *)
(* per distinct state with the outcome of every call of the alphabet.      *)
(***************************************************************************)
EXTENDS Integers, Sequences, FiniteSets, TLC
SX == INSTANCE SequencesExt

CONSTANTS RootNames,  \* names at the root
          Child,      \* the one name used below directories
          LinkAt,     \* paths at which Symlink is called
          Datas,      \* file contents written by WriteFile
          MaxNodes    \* bound on the number of entries (the root included)

VARIABLE tree  \* path (sequence of names) -> node

Paths   == { <<n>> : n \in RootNames } \cup { <<n, Child>> : n \in RootNames }
Fuel    == 13     \* 6 entries at most can be links, two path elements: a loop-free resolution follows < 13 links
File(d) == [d |-> d,  k |-> "file", t |-> ""]
Dir     == [d |-> "", k |-> "dir",  t |-> ""]
Link(t) == [d |-> "", k |-> "link", t |-> t]
Empty   == (<< >> :> Dir)   \* the root directory is always there

Has(s, p)      == p \in DOMAIN s
Children(s, p) == { q \in DOMAIN s : Len(q) = Len(p) + 1 /\ SubSeq(q, 1, Len(p)) = p }

\* Walk: e = "ok": the entry at p exists (p canonical, link-free prefix); "new": everything but the last element
\* exists, p is where the entry would be created; otherwise the error class
RECURSIVE Walk(_, _, _, _, _)
Walk(s, cur, rest, follow, fuel) ==
  IF fuel = 0 THEN [e |-> "ELOOP", p |-> << >>]
  ELSE IF rest = << >> THEN [e |-> "ok", p |-> cur]
  ELSE LET q == Append(cur, Head(rest))  last == Len(rest) = 1 IN
    IF ~Has(s, q) THEN (IF last THEN [e |-> "new", p |-> q] ELSE [e |-> "ENOENT", p |-> << >>])
    ELSE IF s[q].k = "link" /\ (~last \/ follow) THEN Walk(s, << >>, <<s[q].t>> \o Tail(rest), follow, fuel - 1)
    ELSE IF last THEN [e |-> "ok", p |-> q]
    ELSE IF s[q].k = "dir" THEN Walk(s, q, Tail(rest), follow, fuel)
    ELSE [e |-> "ENOTDIR", p |-> << >>]
Res(s, p, follow) == Walk(s, << >>, p, follow, Fuel)
ErrOf(r) == IF r.e = "new" THEN "ENOENT" ELSE r.e

\* e: result class; k: kind reported ("" none); d: bytes read; ls: listing; ae/ak: the other acceptable outcome
\* (LstatOrStat on a file system without any Lstat answers like Stat)
Out(e, k, d, ls, ae, ak, s, b) == [e |-> e, k |-> k, d |-> d, ls |-> ls, ae |-> ae, ak |-> ak, st |-> s, b |-> b]
Fail(e, s, b) == Out(e, "", "", {}, "-", "", s, b)

StatLike(s, p, follow, op) ==
  LET r == Res(s, p, follow) IN
  IF r.e # "ok" THEN Fail(ErrOf(r), s, op \o (IF r.e = "new" THEN "/missing" ELSE IF r.e = "ELOOP" THEN "/loop" ELSE "/anc-" \o r.e))
  ELSE Out("ok", s[r.p].k, "", {}, "-", "", s,
           op \o "/" \o s[r.p].k \o (IF r.p # p THEN "-via-link" ELSE ""))
Stat(s, p)  == StatLike(s, p, TRUE, "stat")
Lstat(s, p) == StatLike(s, p, FALSE, "lstat")
LstatOrStat(s, p) ==
  LET l == StatLike(s, p, FALSE, "lstatorstat")  f == StatLike(s, p, TRUE, "lstatorstat") IN
  [l EXCEPT !.ae = f.e, !.ak = f.k]

Symlink(s, t, p) ==
  LET r == Res(s, p, FALSE) IN
  IF r.e = "ok" THEN Fail("EEXIST", s, "symlink/exists-" \o s[r.p].k)
  ELSE IF r.e # "new" THEN Fail(r.e, s, "symlink/anc-" \o r.e)
  ELSE Out("ok", "", "", {}, "-", "", (r.p :> Link(t)) @@ s,
           "symlink/" \o (IF Res(s, <<t>>, TRUE).e = "ok" THEN "to-existing" ELSE IF t = p[Len(p)] /\ Len(p) = 1 THEN "to-itself" ELSE "dangling")
                       \o (IF r.p # p THEN "-via-link" ELSE ""))

Mkdir(s, p) ==
  LET r == Res(s, p, FALSE) IN
  IF r.e = "ok" THEN Fail("EEXIST", s, "mkdir/exists-" \o s[r.p].k)
  ELSE IF r.e # "new" THEN Fail(r.e, s, "mkdir/anc-" \o r.e)
  ELSE Out("ok", "", "", {}, "-", "", (r.p :> Dir) @@ s, "mkdir/ok" \o (IF r.p # p THEN "-via-link" ELSE ""))

Remove(s, p) ==
  LET r == Res(s, p, FALSE) IN
  IF r.e # "ok" THEN Fail(ErrOf(r), s, "remove/" \o (IF r.e = "new" THEN "missing" ELSE "anc-" \o r.e))
  ELSE IF s[r.p].k = "dir" /\ Children(s, r.p) # {} THEN Fail("ENOTEMPTY", s, "remove/non-empty")
  ELSE Out("ok", "", "", {}, "-", "", [q \in DOMAIN s \ {r.p} |-> s[q]],
           "remove/" \o s[r.p].k \o (IF r.p # p THEN "-via-link" ELSE ""))

\* os.MkdirAll: nothing to do when the path resolves (links followed) to a directory; otherwise the parents first, then
\* Mkdir of the last element - which sees a dangling or looping link as an existing entry (EEXIST)
RECURSIVE MkdirAllR(_, _)
MkdirAllR(s, p) ==
  IF p = << >> THEN Out("ok", "", "", {}, "-", "", s, "mkdirall/exists")
  ELSE LET st == Res(s, p, TRUE) IN
    IF st.e = "ok" THEN (IF s[st.p].k = "dir" THEN Out("ok", "", "", {}, "-", "", s, "mkdirall/exists" \o (IF st.p # p THEN "-via-link" ELSE ""))
                         ELSE Fail("ENOTDIR", s, "mkdirall/is-file" \o (IF st.p # p THEN "-via-link" ELSE "")))
    ELSE LET pr == MkdirAllR(s, SubSeq(p, 1, Len(p) - 1)) IN
      IF pr.e # "ok" THEN [pr EXCEPT !.st = s, !.b = "mkdirall/parent-" \o pr.e]
      ELSE LET m == Mkdir(pr.st, p) IN
        IF m.e = "ok" THEN [m EXCEPT !.b = "mkdirall/created" \o (IF pr.st # s THEN "-with-parents" ELSE "") \o (IF Res(s, SubSeq(p, 1, Len(p) - 1), FALSE).p # SubSeq(p, 1, Len(p) - 1) THEN "-via-link" ELSE "")]
        ELSE Fail(m.e, s, "mkdirall/last-" \o m.b)
MkdirAll(s, p) == MkdirAllR(s, p)

\* os.RemoveAll: the entry itself and, for a directory, everything below it; a link is removed, never followed;
\* a missing name is no error
RemoveAll(s, p) ==
  LET r == Res(s, p, FALSE) IN
  IF r.e \in {"new", "ENOENT"} THEN Out("ok", "", "", {}, "-", "", s, "removeall/missing")
  ELSE IF r.e # "ok" THEN Fail(r.e, s, "removeall/anc-" \o r.e)
  ELSE LET gone == { q \in DOMAIN s : Len(q) >= Len(r.p) /\ SubSeq(q, 1, Len(r.p)) = r.p } IN
       Out("ok", "", "", {}, "-", "", [q \in DOMAIN s \ gone |-> s[q]],
           "removeall/" \o s[r.p].k \o (IF Cardinality(gone) > 1 THEN "-with-children" ELSE "")
                        \o (IF s[r.p].k = "link" /\ Res(s, p, TRUE).e = "ok" /\ s[Res(s, p, TRUE).p].k = "dir" THEN "-to-dir" ELSE "")
                        \o (IF r.p # p THEN "-via-link" ELSE ""))

WriteFile(s, p, d) ==
  LET r == Res(s, p, TRUE) IN
  IF r.e = "ok" THEN
       (IF s[r.p].k = "dir" THEN Fail("EISDIR", s, "writefile/dir" \o (IF r.p # p THEN "-via-link" ELSE ""))
        ELSE Out("ok", "", "", {}, "-", "", [s EXCEPT ![r.p] = File(d)], "writefile/overwrite" \o (IF r.p # p THEN "-via-link" ELSE "")))
  ELSE IF r.e = "new" THEN Out("ok", "", "", {}, "-", "", (r.p :> File(d)) @@ s,
                               "writefile/create" \o (IF r.p # p THEN "-via-dangling-link" ELSE ""))
  ELSE Fail(r.e, s, "writefile/" \o (IF r.e = "ELOOP" THEN "loop" ELSE "anc-" \o r.e))

ReadFile(s, p) ==
  LET r == Res(s, p, TRUE) IN
  IF r.e # "ok" THEN Fail(ErrOf(r), s, "readfile/" \o (IF r.e = "new" THEN "missing" ELSE IF r.e = "ELOOP" THEN "loop" ELSE "anc-" \o r.e))
  ELSE IF s[r.p].k = "dir" THEN Fail("EISDIR", s, "readfile/dir")
  ELSE Out("ok", "", s[r.p].d, {}, "-", "", s, "readfile/file" \o (IF r.p # p THEN "-via-link" ELSE ""))

ReadDir(s, p) ==
  LET r == Res(s, p, TRUE) IN
  IF r.e # "ok" THEN Fail(ErrOf(r), s, "readdir/" \o (IF r.e = "new" THEN "missing" ELSE IF r.e = "ELOOP" THEN "loop" ELSE "anc-" \o r.e))
  ELSE IF s[r.p].k # "dir" THEN Fail("ENOTDIR", s, "readdir/file")
  ELSE Out("ok", "", "", { [n |-> q[Len(q)], k |-> s[q].k] : q \in Children(s, r.p) }, "-", "", s,
           "readdir/" \o (IF \E q \in Children(s, r.p) : s[q].k = "link" THEN "with-link" ELSE "plain") \o (IF r.p # p THEN "-via-link" ELSE ""))

-----------------------------------------------------------------------------
C(op, p, t, d) == [op |-> op, p |-> p, t |-> t, d |-> d]
Calls ==
       { C(op, p, "", "") : op \in {"stat", "lstat", "lstatorstat", "readfile"}, p \in Paths }
  \cup { C(op, <<n>>, "", "") : op \in {"remove", "mkdir", "readdir", "removeall"}, n \in RootNames }
  \cup { C("mkdirall", p, "", "") : p \in Paths }
  \cup { C("remove", <<n, Child>>, "", "") : n \in RootNames }
  \cup { C("symlink", p, t, "") : p \in LinkAt, t \in RootNames }
  \cup { C("writefile", p, "", d) : p \in Paths, d \in Datas }

Eval(s, c) ==
  CASE c.op = "stat"        -> Stat(s, c.p)
    [] c.op = "lstat"       -> Lstat(s, c.p)
    [] c.op = "lstatorstat" -> LstatOrStat(s, c.p)
    [] c.op = "symlink"     -> Symlink(s, c.t, c.p)
    [] c.op = "mkdir"       -> Mkdir(s, c.p)
    [] c.op = "mkdirall"    -> MkdirAll(s, c.p)
    [] c.op = "removeall"   -> RemoveAll(s, c.p)
    [] c.op = "remove"      -> Remove(s, c.p)
    [] c.op = "writefile"   -> WriteFile(s, c.p, c.d)
    [] c.op = "readfile"    -> ReadFile(s, c.p)
    [] c.op = "readdir"     -> ReadDir(s, c.p)

Bounded(s) == Cardinality(DOMAIN s) <= MaxNodes
CallSeq == SX!SetToSeq(Calls)
Tr(s, c) == LET r == Eval(s, c) IN
  [e |-> r.e, k |-> r.k, d |-> r.d, ls |-> r.ls, ae |-> r.ae, ak |-> r.ak, b |-> r.b,
   n |-> IF r.st = s THEN "=" ELSE IF Bounded(r.st) THEN r.st ELSE "skip"]
Line(s) == [s |-> s, r |-> [i \in 1..Len(CallSeq) |-> Tr(s, CallSeq[i])]]

Init == /\ tree = Empty
        /\ PrintT(ToString([calls |-> CallSeq]))
Next == /\ PrintT(ToString(Line(tree)))
        /\ \E c \in Calls : /\ tree' = Eval(tree, c).st
                            /\ Bounded(tree')
Spec == Init /\ [][Next]_tree

-----------------------------------------------------------------------------
\* well-formed: every entry's parent is a directory (links and files have no children)
WF(s) == /\ Has(s, << >>) /\ s[<< >>] = Dir
         /\ \A q \in DOMAIN s : Len(q) > 0 => LET par == SubSeq(q, 1, Len(q) - 1) IN Has(s, par) /\ s[par].k = "dir"
TypeOK == /\ DOMAIN tree \subseteq Paths \cup {<< >>}
          /\ \A q \in DOMAIN tree : tree[q].k \in {"file", "dir", "link"} /\ (tree[q].k = "link" <=> tree[q].t # "")
ModelProps ==
  /\ WF(tree)
  /\ \A c \in Calls : LET r == Eval(tree, c) IN
       /\ WF(r.st)
       \* a failed call changes nothing; queries never change anything
       /\ (r.e # "ok" => r.st = tree)
       /\ (c.op \in {"stat", "lstat", "lstatorstat", "readfile", "readdir"} => r.st = tree)
       \* Stat never reports a link, Lstat reports one exactly when the entry itself is one
       /\ (c.op = "stat" /\ r.e = "ok" => r.k \in {"file", "dir"})
       /\ (c.op = "lstat" /\ r.e = "ok" /\ Len(c.p) = 1 => r.k = tree[c.p].k)
       \* Lstat and Stat agree except on links (where Stat sees the target or fails)
       /\ (c.op = "lstatorstat" /\ r.e = "ok" /\ r.k # "link" => r.ae = "ok" /\ r.ak = r.k)
       /\ (c.op = "lstatorstat" /\ r.e # "ok" => r.ae = r.e)
       \* what Symlink creates is a link, visible to Lstat at once, whatever the target
       /\ (c.op = "symlink" /\ r.e = "ok" => Lstat(r.st, c.p).k = "link")
       \* RemoveAll of a link removes the link only; after any successful RemoveAll the name is gone
       /\ (c.op = "removeall" /\ r.e = "ok" => ~Has(r.st, c.p))
       /\ (c.op = "removeall" /\ r.e = "ok" /\ Has(tree, c.p) /\ tree[c.p].k = "link" =>
             \A q \in DOMAIN tree \ {c.p} : Has(r.st, q) /\ r.st[q] = tree[q])
       \* after a successful MkdirAll the path resolves to a directory
       /\ (c.op = "mkdirall" /\ r.e = "ok" => LET x == Res(r.st, c.p, TRUE) IN x.e = "ok" /\ r.st[x.p].k = "dir")
       \* Remove of a link removes the link, never the target
       /\ (c.op = "remove" /\ r.e = "ok" /\ Len(c.p) = 1 /\ tree[c.p].k = "link" =>
             \A q \in DOMAIN tree \ {c.p} : Has(r.st, q) /\ r.st[q] = tree[q])
=============================================================================
