-------------------------------- MODULE PubSub --------------------------------
(***************************************************************************)
(* tar/pubsub.go at lock granularity (property C13: no lost wake-up).      *)
(*                                                                         *)
(* Emit(k):  e1  RLock; v := visited[k]; RUnlock       (one step)          *)
(*           e2  if v return; Lock; visited[k] := TRUE; fs := subs[k];     *)
(*               subs[k] := {}; Unlock                 (one critical sect.)*)
(*           e3  call every cancel func in fs          (one step per func) *)
(* Wait(k):  w1  if ctx is done return                                     *)
(*           w2  Lock; if visited[k] unlock, return; else subs[k] += me;   *)
(*               Unlock                                (one critical sect.)*)
(*           w3  blocked until ctx is done or my cancel func was called    *)
(* Environment: the context is cancelled (at most once).                   *)
(* The two mutex sections are atomic steps: sync.RWMutex excludes them.    *)
(***************************************************************************)
EXTENDS Integers, FiniteSets, TLC
CONSTANTS Keys, Emitters, Waiters, KeyOf, WithCancel   \* KeyOf: function process -> key
VARIABLES visited, subs, pc, loc, woken, cancelled
vars == <<visited, subs, pc, loc, woken, cancelled>>

Init == /\ visited = [k \in Keys |-> FALSE]
        /\ subs = [k \in Keys |-> {}]
        /\ pc = [p \in Emitters \cup Waiters |-> IF p \in Emitters THEN "e1" ELSE "w1"]
        /\ loc = [p \in Emitters |-> {}]          \* cancel funcs an emitter still has to call
        /\ woken = [w \in Waiters |-> FALSE]
        /\ cancelled = FALSE

E1(e) == /\ pc[e] = "e1"
         /\ pc' = [pc EXCEPT ![e] = IF visited[KeyOf[e]] THEN "done" ELSE "e2"]
         /\ UNCHANGED <<visited, subs, loc, woken, cancelled>>
E2(e) == /\ pc[e] = "e2"
         /\ visited' = [visited EXCEPT ![KeyOf[e]] = TRUE]
         /\ loc' = [loc EXCEPT ![e] = subs[KeyOf[e]]]
         /\ subs' = [subs EXCEPT ![KeyOf[e]] = {}]
         /\ pc' = [pc EXCEPT ![e] = "e3"]
         /\ UNCHANGED <<woken, cancelled>>
E3(e) == /\ pc[e] = "e3"
         /\ IF loc[e] = {} THEN /\ pc' = [pc EXCEPT ![e] = "done"] /\ UNCHANGED <<loc, woken>>
            ELSE \E w \in loc[e] : /\ woken' = [woken EXCEPT ![w] = TRUE]
                                   /\ loc' = [loc EXCEPT ![e] = @ \ {w}]
                                   /\ UNCHANGED pc
         /\ UNCHANGED <<visited, subs, cancelled>>
W1(w) == /\ pc[w] = "w1"
         /\ pc' = [pc EXCEPT ![w] = IF cancelled THEN "done" ELSE "w2"]
         /\ UNCHANGED <<visited, subs, loc, woken, cancelled>>
W2(w) == /\ pc[w] = "w2"
         /\ IF visited[KeyOf[w]] THEN /\ pc' = [pc EXCEPT ![w] = "done"] /\ UNCHANGED subs
            ELSE /\ subs' = [subs EXCEPT ![KeyOf[w]] = @ \cup {w}] /\ pc' = [pc EXCEPT ![w] = "w3"]
         /\ UNCHANGED <<visited, loc, woken, cancelled>>
W3(w) == /\ pc[w] = "w3" /\ (cancelled \/ woken[w])
         /\ pc' = [pc EXCEPT ![w] = "done"]
         /\ UNCHANGED <<visited, subs, loc, woken, cancelled>>
Cancel == /\ WithCancel /\ ~cancelled /\ cancelled' = TRUE
          /\ UNCHANGED <<visited, subs, pc, loc, woken>>

Step(p) == IF p \in Emitters THEN E1(p) \/ E2(p) \/ E3(p) ELSE W1(p) \/ W2(p) \/ W3(p)
Next == Cancel \/ \E p \in Emitters \cup Waiters : Step(p)
Spec == Init /\ [][Next]_vars /\ \A p \in Emitters \cup Waiters : WF_vars(Step(p))

EmitDone(k) == \E e \in Emitters : KeyOf[e] = k /\ pc[e] = "done"
AllEmitsDone(k) == (\E e \in Emitters : KeyOf[e] = k) /\ \A e \in Emitters : KeyOf[e] = k => pc[e] = "done"
\* safety form: once every Emit(k) has returned, nobody is left blocked on k without a wake-up (a duplicate Emit(k)
\* may return while the first one is still calling the cancel funcs: TLC shows that trace if "every" is "some")
NoStrandedWaiter == \A w \in Waiters : (pc[w] = "w3" /\ AllEmitsDone(KeyOf[w])) => woken[w]
\* a registered subscriber has not been woken and its key has not been emitted; it is blocked unless the context
\* was cancelled (a waiter released by cancellation leaves its cancel func behind: a leak, not a lost wake-up)
SubsAreBlocked == \A k \in Keys : \A w \in subs[k] : ~woken[w] /\ ~visited[k] /\ (pc[w] = "w3" \/ cancelled)
\* liveness: no lost wake-up
NoLostWakeup == \A w \in Waiters : (EmitDone(KeyOf[w]) \/ cancelled) ~> (pc[w] = "done")
AllEmitsEnd  == \A e \in Emitters : <>(pc[e] = "done")
=============================================================================
