SPECIFICATION Spec
CONSTANTS
  Prog <- P7
  Present <- PresentB
  Start <- StartFileB
INVARIANT ModelProps
CHECK_DEADLOCK FALSE
