SPECIFICATION SpecCut
CONSTANTS
  Alphabet <- ImplTiny
  MaxEntries = 1
  Wants <- NoClients
  EnvKinds <- None
  MaxEnv = 0
  Fixed = FALSE
  ArchiveSet <- StdSet
INVARIANT CutProps
CHECK_DEADLOCK FALSE
