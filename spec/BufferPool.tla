------------------------------ MODULE BufferPool ------------------------------
(***************************************************************************)
(* tar/bufferpool.go at CAS / channel-operation granularity (C12: many     *)
(* entries; C13: a pool never hands one buffer to two writers, Wait always *)
(* returns while buffers are eventually returned).                         *)
(*                                                                         *)
(* Wait():  s1  non-blocking receive from buffers; got one -> hold         *)
(*          a1  c := load(count)                                           *)
(*          a2  if c = Cap goto s3; if CAS(count, c, c+1) goto a3 else a1  *)
(*          a3  allocate, send the new buffer into the channel             *)
(*          s3  blocking receive                                           *)
(* Done():  d1  send the buffer back into the channel                      *)
(* newBufferPool provisions one buffer. Buffers are identified (1..Cap) so *)
(* that "one buffer, two holders" is expressible.                          *)
(***************************************************************************)
EXTENDS Integers, FiniteSets, Sequences, TLC
CONSTANTS Cap, Threads, Rounds
VARIABLES count, chan, pc, c, held, left
vars == <<count, chan, pc, c, held, left>>

Init == /\ count = 1 /\ chan = <<1>>
        /\ pc = [t \in Threads |-> "s1"]
        /\ c = [t \in Threads |-> 0]
        /\ held = [t \in Threads |-> 0]
        /\ left = [t \in Threads |-> Rounds]

S1(t) == /\ pc[t] = "s1" /\ left[t] > 0
         /\ IF Len(chan) > 0
            THEN /\ held' = [held EXCEPT ![t] = Head(chan)] /\ chan' = Tail(chan) /\ pc' = [pc EXCEPT ![t] = "hold"]
            ELSE /\ pc' = [pc EXCEPT ![t] = "a1"] /\ UNCHANGED <<held, chan>>
         /\ UNCHANGED <<count, c, left>>
A1(t) == /\ pc[t] = "a1" /\ c' = [c EXCEPT ![t] = count] /\ pc' = [pc EXCEPT ![t] = "a2"]
         /\ UNCHANGED <<count, chan, held, left>>
A2(t) == /\ pc[t] = "a2"
         /\ IF c[t] = Cap THEN pc' = [pc EXCEPT ![t] = "s3"] /\ UNCHANGED count
            ELSE IF count = c[t] THEN count' = c[t] + 1 /\ pc' = [pc EXCEPT ![t] = "a3"]
            ELSE pc' = [pc EXCEPT ![t] = "a1"] /\ UNCHANGED count
         /\ UNCHANGED <<chan, c, held, left>>
A3(t) == /\ pc[t] = "a3" /\ Len(chan) < Cap            \* a send into a full channel would block
         /\ chan' = Append(chan, c[t] + 1)             \* the buffer provisioned by this CAS
         /\ pc' = [pc EXCEPT ![t] = "s3"]
         /\ UNCHANGED <<count, c, held, left>>
S3(t) == /\ pc[t] = "s3" /\ Len(chan) > 0
         /\ held' = [held EXCEPT ![t] = Head(chan)] /\ chan' = Tail(chan) /\ pc' = [pc EXCEPT ![t] = "hold"]
         /\ UNCHANGED <<count, c, left>>
D1(t) == /\ pc[t] = "hold" /\ Len(chan) < Cap
         /\ chan' = Append(chan, held[t]) /\ held' = [held EXCEPT ![t] = 0]
         /\ left' = [left EXCEPT ![t] = @ - 1] /\ pc' = [pc EXCEPT ![t] = "s1"]
         /\ UNCHANGED <<count, c>>
Step(t) == S1(t) \/ A1(t) \/ A2(t) \/ A3(t) \/ S3(t) \/ D1(t)
Next == \E t \in Threads : Step(t)
Spec == Init /\ [][Next]_vars /\ \A t \in Threads : WF_vars(Step(t))

Outstanding == { t \in Threads : held[t] # 0 }
InChan == { chan[i] : i \in DOMAIN chan }
CountBounded     == count <= Cap
OutstandingBound == Cardinality(Outstanding) <= Cap
\* every buffer is in exactly one place: no buffer is handed to two holders, none is duplicated in the channel
NoSharing == /\ \A t, u \in Threads : (t # u /\ held[t] # 0) => held[t] # held[u]
             /\ Cardinality(InChan) = Len(chan)
             /\ \A t \in Threads : held[t] # 0 => held[t] \notin InChan
\* a send never blocks: the channel never needs more than Cap slots
SendNeverBlocks == \A t \in Threads : pc[t] \in {"a3", "hold"} => Len(chan) < Cap
\* liveness: every Wait returns (buffers are returned by weak fairness of the holders)
EveryWaitReturns == \A t \in Threads : (pc[t] \in {"a1", "a2", "a3", "s3"}) ~> (pc[t] = "hold")
AllFinish == <>(\A t \in Threads : left[t] = 0)
=============================================================================
