SPECIFICATION Spec
CONSTANTS
  Threads <- T4
  PointOf <- PO_nest4
  RootKind <- RK_dirs
  Probes <- PR
  PrefixPoints <- PP
  DepthOf <- DO
INVARIANT ModelProps
CHECK_DEADLOCK FALSE
