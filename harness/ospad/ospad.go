// Package ospad binds OSPath.tla (property C09) to hackpadfs/os.
//
// Adapter "ospath": the pure name <-> OS path functions, reached through the public
// ToOSPath/FromOSPath for the host convention (linux) and through the verif export shim
// (ToOSPathFor/FromOSPathFor) for the Windows convention.  The FS under test is built by real
// Sub calls starting from NewFSForVerif("", volume).
//
// Adapter "oserr": os.FS rooted in a fresh temp directory (NewFS().Sub(tmp) plus the model's Sub
// chain); failing real calls must name the caller's FS-relative path.
package ospad

import (
	"errors"
	"fmt"
	"io"
	"os"
	"strings"
	"time"

	"github.com/hack-pad/hackpadfs"
	hos "github.com/hack-pad/hackpadfs/os"
	"verif/harness/engine"
	"verif/harness/tla"
)

const (
	uncVol  = `\\srv\share`
	uncVolX = `\\srv\sharex`
)

// tok instantiates a symbolic token.
func tok(t string) string {
	if t == "BS" {
		return `a\b`
	}
	return t
}

func joinToks(v *tla.Value, sep string) string {
	ts := v.Strs()
	for i := range ts {
		ts[i] = tok(ts[i])
	}
	return strings.Join(ts, sep)
}

func volStr(v string) string {
	switch v {
	case "UNC":
		return uncVol
	case "UNCX":
		return uncVolX
	}
	return v
}

// isAbsWindows mirrors path/filepath.IsAbs of GOOS=windows (not callable on this host): a path is
// absolute when it has a volume and either the volume is a UNC share or a separator follows it.
// The public FromOSPath applies filepath.IsAbs before fromOSPath; the export shim does not, so the
// gate is reproduced here for the Windows convention (see DESIGN.md section 6, C09).
func isAbsWindows(p string) bool {
	if len(p) >= 2 && p[1] == ':' {
		return len(p) >= 3 && p[2] == '\\'
	}
	if strings.HasPrefix(p, `\\`) {
		rest := p[2:]
		i := strings.Index(rest, `\`)
		return i > 0 && i+1 < len(rest) && rest[i+1] != '\\'
	}
	return false
}

// Obs is what one call on the real code produced.
type Obs struct {
	In    string // concrete input string
	In2   string
	Str   string
	Err   error
	Panic string
	Note  string
}

func (o Obs) String() string {
	if o.Panic != "" {
		return "PANIC " + o.Panic
	}
	s := fmt.Sprintf("in=%q", o.In)
	if o.In2 != "" {
		s += fmt.Sprintf(",%q", o.In2)
	}
	if o.Err != nil {
		s += fmt.Sprintf(" err=%T{%s}", o.Err, errFields(o.Err))
	} else {
		s += fmt.Sprintf(" out=%q", o.Str)
	}
	if o.Note != "" {
		s += " " + o.Note
	}
	return s
}

func errFields(err error) string {
	switch e := err.(type) {
	case *hackpadfs.PathError:
		return fmt.Sprintf("Op:%q Path:%q Err:%v", e.Op, e.Path, e.Err)
	case *hackpadfs.LinkError:
		return fmt.Sprintf("Op:%q Old:%q New:%q Err:%v", e.Op, e.Old, e.New, e.Err)
	}
	return err.Error()
}

// ------------------------------------------------------------------------------------------
// adapter "ospath"

type Adapter struct{ Prop, PropErr string }

func (a *Adapter) Name() string { return "ospath" }
func (a *Adapter) New(init *tla.Value) (engine.Instance, error) {
	return &inst{a: a}, nil
}

type inst struct {
	a     *Adapter
	goos  string
	sep   rune
	fs    *hos.FS
	dirty bool
}

func (in *inst) Dirty() bool { return in.dirty }
func (in *inst) Close()      {}

func (in *inst) Apply(call *tla.Value) any { return in.do(call) }

func (in *inst) do(call *tla.Value) (o Obs) {
	defer func() {
		if r := recover(); r != nil {
			o.Panic = fmt.Sprint(r)
		}
	}()
	switch call.F("op").S {
	case "newfs":
		in.goos = call.F("g").S
		in.sep = '/'
		if in.goos == "windows" {
			in.sep = '\\'
		}
		if v := call.F("v").S; v == "" {
			in.fs = hos.NewFS()
		} else {
			in.fs = hos.NewFSForVerif("", volStr(v))
		}
	case "sub":
		o.In = joinToks(call.F("p"), "/")
		sub, err := in.fs.Sub(o.In)
		o.Err = err
		if err == nil {
			s, ok := sub.(*hos.FS)
			if !ok {
				o.Note = fmt.Sprintf("Sub returned %T", sub)
				in.fs = nil
			} else {
				in.fs = s
			}
		}
	case "toos":
		o.In = joinToks(call.F("p"), "/")
		if in.goos == "linux" {
			o.Str, o.Err = in.fs.ToOSPath(o.In)
			s2, err2 := in.fs.ToOSPathFor("linux", '/', o.In)
			if s2 != o.Str || (err2 == nil) != (o.Err == nil) {
				o.Note = fmt.Sprintf("HOOK-DISAGREES ToOSPathFor=%q,%v", s2, err2)
			}
		} else {
			o.Str, o.Err = in.fs.ToOSPathFor(in.goos, in.sep, o.In)
		}
	case "fromos":
		v := call.F("v").S
		if v == "=" {
			_, v = in.fs.RootForVerif()
			if v == "" && in.goos == "windows" {
				v = "C:"
			}
		} else {
			v = volStr(v)
		}
		o.In = v + joinToks(call.F("p"), string(in.sep))
		if in.goos == "linux" {
			o.Str, o.Err = in.fs.FromOSPath(o.In)
		} else if !isAbsWindows(o.In) {
			// what the public FromOSPath does on Windows before anything else
			o.Err = &hackpadfs.PathError{Op: "ospath", Path: o.In, Err: hackpadfs.ErrInvalid}
			o.Note = "(refused by the harness's filepath.IsAbs gate)"
		} else {
			o.Str, o.Err = in.fs.FromOSPathFor(in.goos, in.sep, o.In)
		}
	default:
		panic("ospath adapter: unknown op " + call.F("op").S)
	}
	return o
}

// errClass: "ok", "EINVAL" (typed *PathError matching ErrInvalid), "bad-error".
func errClass(err error) string {
	if err == nil {
		return "ok"
	}
	if _, ok := err.(*hackpadfs.PathError); ok && errors.Is(err, hackpadfs.ErrInvalid) {
		return "EINVAL"
	}
	return "bad-error"
}

func (in *inst) CheckResult(call, tr *tla.Value, obsAny any) []engine.Div {
	o := obsAny.(Obs)
	op, exp, b := call.F("op").S, tr.F("e").S, tr.F("b").S
	var divs []engine.Div
	add := func(prop, what string) {
		divs = append(divs, engine.Div{Prop: prop, Sig: fmt.Sprintf("ospath %s %s %s", op, b, what), Detail: o.String()})
		in.dirty = true
	}
	if o.Panic != "" {
		add(in.a.Prop, "exp="+exp+" got=PANIC")
		return divs
	}
	if strings.HasPrefix(o.Note, "HOOK-DISAGREES") {
		add("SPEC", "hook-disagrees-with-public-function")
	}
	got := errClass(o.Err)
	switch op {
	case "newfs":
		return divs
	case "sub":
		if o.Note != "" && o.Err == nil {
			add(in.a.Prop, "exp="+exp+" got=not-an-os-FS")
		} else if got != exp {
			add(in.a.Prop, "exp="+exp+" got="+got)
		}
		return divs
	}
	want := ""
	if exp != "EINVAL" {
		if op == "toos" {
			want = volStr(tr.F("v").S) + joinToks(tr.F("p"), string(in.sep))
		} else {
			want = joinToks(tr.F("p"), "/")
		}
	}
	if got == "ok" {
		switch {
		case op == "fromos" && !hackpadfs.ValidPath(o.Str):
			got = "invalid-fs-path"
		case exp != "EINVAL" && o.Str != want:
			got = "wrong-path"
		}
	} else if o.Str != "" {
		got = "error-with-result"
	}
	okSet := map[string]bool{}
	for _, e := range strings.Split(exp, "|") {
		okSet[e] = true
	}
	if !okSet[got] {
		add(in.a.Prop, "exp="+exp+" got="+got)
		return divs
	}
	if got == "EINVAL" {
		if pe := o.Err.(*hackpadfs.PathError); pe.Path != o.In {
			add(in.a.PropErr, "errpath exp=input got=other")
		}
	}
	return divs
}

func (in *inst) CheckState(exp *tla.Value, call, tr *tla.Value) []engine.Div {
	fail := func(what, detail string) []engine.Div {
		op, b := "build", "-"
		if call != nil {
			op, b = call.F("op").S, tr.F("b").S
			in.dirty = true
		}
		return []engine.Div{{Prop: in.a.Prop, Sig: fmt.Sprintf("ospath %s %s state %s", op, b, what), Detail: detail}}
	}
	if exp.F("goos").S == "none" {
		if in.fs != nil {
			return fail("exp=no-fs got=fs", "")
		}
		return nil
	}
	if in.fs == nil {
		return fail("exp=fs got=no-fs", "")
	}
	root, vol := in.fs.RootForVerif()
	if root == "." { // tolerance T2: representation of the empty root
		root = ""
	}
	wantRoot := joinToks(exp.F("root"), "/")
	wantVol := volStr(exp.F("vol").S)
	if exp.F("goos").S != in.goos {
		return fail("exp=goos got=other", in.goos)
	}
	if vol != wantVol {
		return fail("exp=volume-kept got=volume-changed", fmt.Sprintf("volume %q want %q", vol, wantVol))
	}
	if root != wantRoot {
		return fail("exp=root-joined got=root-differs", fmt.Sprintf("root %q want %q", root, wantRoot))
	}
	return nil
}

// ------------------------------------------------------------------------------------------
// adapter "oserr": real system calls below a temp directory

// OSAdapter: failing system calls through os.FS. Unrooted: the file system starts as NewFS() itself (no Sub root at
// all) and the caller's names are the fixture's names below "/", until the first Sub call roots it.
type OSAdapter struct {
	Prop, PropErr string
	Unrooted      bool
}

func (a *OSAdapter) Name() string {
	if a.Unrooted {
		return "oserr0"
	}
	return "oserr"
}
func (a *OSAdapter) New(init *tla.Value) (engine.Instance, error) {
	return &osInst{a: a}, nil
}

type osInst struct {
	a      *OSAdapter
	base   string
	prefix string // names are below this path while the file system has no root of its own
	fs     *hos.FS
	dirty  bool
}

func (in *osInst) Dirty() bool { return in.dirty }
func (in *osInst) Close() {
	if in.base != "" {
		_ = os.RemoveAll(in.base)
		in.base = ""
	}
}

const fixtureDepth = 6

func tempParent() string {
	if st, err := os.Stat("/dev/shm"); err == nil && st.IsDir() {
		if f, err := os.CreateTemp("/dev/shm", "w"); err == nil {
			f.Close()
			os.Remove(f.Name())
			return "/dev/shm"
		}
	}
	return ""
}

var tmpParent = tempParent()

func (in *osInst) mkFixture() error {
	base, err := os.MkdirTemp(tmpParent, "c09root-")
	if err != nil {
		return err
	}
	in.base = base
	cur := base
	for i := 0; i <= fixtureDepth; i++ {
		if err := os.WriteFile(cur+"/f", []byte("x"), 0644); err != nil {
			return err
		}
		if i == fixtureDepth {
			break
		}
		cur += "/d"
		if err := os.Mkdir(cur, 0755); err != nil {
			return err
		}
	}
	return nil
}

func (in *osInst) Apply(call *tla.Value) any { return in.do(call) }

// pre turns a name of the model into the caller's name while the file system is unrooted
func (in *osInst) pre(name string) string {
	switch {
	case in.prefix == "":
		return name
	case name == ".":
		return in.prefix
	}
	return in.prefix + "/" + name
}

var mutating = map[string]bool{"mkdir": true, "mkdirall": true, "remove": true, "removeall": true, "create": true,
	"writefile": true, "rename": true, "symlink": true}

func (in *osInst) do(call *tla.Value) (o Obs) {
	defer func() {
		if r := recover(); r != nil {
			o.Panic = fmt.Sprint(r)
		}
	}()
	op := call.F("op").S
	name := in.pre(joinToks(call.F("p"), "/"))
	o.In = name
	fs := in.fs
	withFile := func(fn func(f hackpadfs.File) error) error {
		f, err := fs.Open(name)
		if err != nil {
			return err
		}
		defer f.Close()
		return fn(f)
	}
	switch op {
	case "newfs":
		if err := in.mkFixture(); err != nil {
			panic(err)
		}
		if in.a.Unrooted {
			in.fs, in.prefix = hos.NewFS(), strings.TrimPrefix(in.base, "/")
			break
		}
		sub, err := hos.NewFS().Sub(strings.TrimPrefix(in.base, "/"))
		if err != nil {
			panic(err)
		}
		in.fs = sub.(*hos.FS)
	case "sub":
		sub, err := fs.Sub(name)
		o.Err = err
		if err == nil {
			in.fs, in.prefix = sub.(*hos.FS), ""
		}
	case "stat":
		_, o.Err = fs.Stat(name)
	case "lstat":
		_, o.Err = fs.Lstat(name)
	case "open":
		f, err := fs.Open(name)
		o.Err = err
		if err == nil {
			f.Close()
		}
	case "chmod":
		o.Err = fs.Chmod(name, 0755)
	case "chtimes":
		t := time.Unix(1_000_000_000, 0)
		o.Err = fs.Chtimes(name, t, t)
	case "chown":
		o.Err = fs.Chown(name, -1, -1)
	case "readdir":
		_, o.Err = fs.ReadDir(name)
	case "readfile":
		_, o.Err = fs.ReadFile(name)
	case "mkdir":
		o.Err = fs.Mkdir(name, 0755)
	case "mkdirall":
		o.Err = fs.MkdirAll(name, 0755)
	case "remove":
		o.Err = fs.Remove(name)
	case "removeall":
		o.Err = fs.RemoveAll(name)
	case "create":
		f, err := fs.Create(name)
		o.Err = err
		if err == nil {
			f.Close()
		}
	case "writefile":
		o.Err = fs.WriteFile(name, []byte("x"), 0644)
	case "rename":
		o.In2 = in.pre(joinToks(call.F("q"), "/"))
		o.Err = fs.Rename(name, o.In2)
	case "symlink":
		o.In2 = in.pre(joinToks(call.F("q"), "/"))
		o.Err = fs.Symlink(name, o.In2)
	case "fread":
		o.Err = withFile(func(f hackpadfs.File) error {
			_, err := f.Read(make([]byte, 1))
			return err
		})
	case "freaddir":
		o.Err = withFile(func(f hackpadfs.File) error {
			_, err := hackpadfs.ReadDirFile(f, -1)
			return err
		})
	case "fwrite":
		o.Err = withFile(func(f hackpadfs.File) error {
			_, err := hackpadfs.WriteFile(f, []byte("y"))
			return err
		})
	case "fseek":
		o.Err = withFile(func(f hackpadfs.File) error {
			_, err := hackpadfs.SeekFile(f, -1, io.SeekStart)
			return err
		})
	case "fclosed":
		o.Err = withFile(func(f hackpadfs.File) error {
			_ = f.Close()
			_, err := f.Read(make([]byte, 1))
			return err
		})
	default:
		panic("oserr adapter: unknown op " + op)
	}
	if mutating[op] && o.Err == nil {
		in.dirty = true
	}
	return o
}

// pathClass classifies an error's path field against the caller's name.
func (in *osInst) pathClass(got, want string, prefixOK bool) string {
	switch {
	case got == want:
		return "caller-path"
	case prefixOK && got != "" && strings.HasPrefix(want, got+"/"):
		return "caller-path"
	case got == "":
		return "empty"
	case strings.HasPrefix(got, "/"):
		return "absolute"
	case strings.Contains(got, strings.TrimPrefix(in.base, "/")):
		return "contains-os-root"
	}
	return "other-path"
}

func (in *osInst) CheckResult(call, tr *tla.Value, obsAny any) []engine.Div {
	o := obsAny.(Obs)
	op, exp, b := call.F("op").S, tr.F("e").S, tr.F("b").S
	var divs []engine.Div
	add := func(prop, what string) {
		divs = append(divs, engine.Div{Prop: prop, Sig: fmt.Sprintf("oserr %s %s %s", op, b, what), Detail: o.String()})
		in.dirty = true
	}
	if o.Panic != "" {
		add(in.a.Prop, "exp="+exp+" got=PANIC")
		return divs
	}
	if op == "newfs" {
		return divs
	}
	isInvalid := o.Err != nil && errors.Is(o.Err, hackpadfs.ErrInvalid)
	pathProp := in.a.Prop
	switch exp {
	case "ok":
		if o.Err != nil {
			if isInvalid { // a valid name refused as invalid
				add(in.a.Prop, "exp=ok got=EINVAL")
			} else { // the fixture model mispredicts the OS: an error of the specification

				add("SPEC", "exp=ok got=FAIL")
			}
		}
		return divs
	case "EINVAL":
		// an invalid name must be refused (before any OS call) with a typed ErrInvalid
		if o.Err == nil {
			add(in.a.Prop, "exp=EINVAL got=ok")
			return divs
		}
		if !isInvalid {
			add(in.a.Prop, "exp=EINVAL got=other-error")
			return divs
		}
		pathProp = in.a.PropErr
	case "FAIL":
		if o.Err == nil {
			add("SPEC", "exp=FAIL got=ok")
			return divs
		}
	}
	if op == "sub" {
		return divs
	}
	prefixOK := tr.F("v").S == "prefix"
	expClass := "caller-path"
	if prefixOK {
		expClass = "caller-path-or-ancestor"
	}
	twoNames := op == "rename" || op == "symlink"
	switch e := o.Err.(type) {
	case *hackpadfs.PathError:
		if twoNames {
			add(pathProp, "exp=LinkError got=PathError")
			return divs
		}
		if c := in.pathClass(e.Path, o.In, prefixOK); c != "caller-path" {
			add(pathProp, "exp="+expClass+" got="+c)
		}
	case *hackpadfs.LinkError:
		if !twoNames {
			add(pathProp, "exp=PathError got=LinkError")
			return divs
		}
		// the branch of a two-name call is "<op>/<situation of old>+new-<situation of new>"; a wrong
		// field is identified by the situation of the name it belongs to
		bOld, bNew := b, b
		if i := strings.IndexByte(b, '+'); i > 0 {
			bOld, bNew = b[:i], b[:strings.IndexByte(b, '/')+1]+b[i+1:]
		}
		if c := in.pathClass(e.Old, o.In, false); c != "caller-path" {
			b = bOld
			add(pathProp, "exp=old:caller-path got=old:"+c)
		}
		if c := in.pathClass(e.New, o.In2, false); c != "caller-path" {
			b = bNew
			add(pathProp, "exp=new:caller-path got=new:"+c)
		}
	default:
		add(pathProp, "exp=typed-error got=untyped")
	}
	return divs
}

func (in *osInst) CheckState(exp *tla.Value, call, tr *tla.Value) []engine.Div {
	fail := func(what, detail string) []engine.Div {
		op, b := "build", "-"
		if call != nil {
			op, b = call.F("op").S, tr.F("b").S
			in.dirty = true
		}
		return []engine.Div{{Prop: in.a.Prop, Sig: fmt.Sprintf("%s %s %s state %s", in.a.Name(), op, b, what), Detail: detail}}
	}
	if exp.F("goos").S == "none" {
		if in.fs != nil {
			return fail("exp=no-fs got=fs", "")
		}
		return nil
	}
	if in.fs == nil {
		return fail("exp=fs got=no-fs", "")
	}
	root, vol := in.fs.RootForVerif()
	want := strings.TrimPrefix(in.base, "/")
	if r := joinToks(exp.F("root"), "/"); r != "" {
		want += "/" + r
	}
	if in.prefix != "" {
		want = "" // still NewFS() itself: the fixture's path is part of every name, not of the root
	}
	if vol != "" || root != want {
		return fail("exp=root-joined got=root-differs", fmt.Sprintf("root %q want %q", root, want))
	}
	return nil
}
