package tarad

import (
	"bytes"
	"context"
	"fmt"
	"os"
	"runtime"
	"sort"
	"strings"
	"sync"
	"time"

	"github.com/hack-pad/hackpadfs"
	"github.com/hack-pad/hackpadfs/keyvalue"
	"github.com/hack-pad/hackpadfs/mem"
	hptar "github.com/hack-pad/hackpadfs/tar"
	"verif/harness/engine"
	"verif/harness/tla"
)

// Adapter "tar:memsched" (module tarreq): the destination is the in-memory file system (keyvalue.FS over mem's
// store, i.e. what mem.FS is) with a gate in front of every store transaction. For one archive, the schedules of
// the reader goroutine and the background writers are enumerated depth-first at transaction granularity
// (stateless exploration: every schedule is a fresh unpack driven by a choice sequence) and every final tree is
// compared with Expected(archive). Quiescence between two releases is decided from the goroutine dump: every
// goroutine of this ReaderFS is held at the gate, blocked, or gone. One exploration at a time (--workers 1).

var memschedMu sync.Mutex // the goroutine dump is process wide

type gstore struct {
	in keyvalue.TransactionStore
	c  *gctl
}

func (s *gstore) Get(ctx context.Context, path string) (keyvalue.FileRecord, error) {
	s.c.gate("get " + path)
	return s.in.Get(ctx, path)
}
func (s *gstore) Set(ctx context.Context, path string, src keyvalue.FileRecord) error {
	s.c.gate("set " + path)
	return s.in.Set(ctx, path, src)
}
func (s *gstore) Transaction(o keyvalue.TransactionOptions) (keyvalue.Transaction, error) {
	s.c.gate("txn")
	return s.in.Transaction(o)
}

type gctl struct {
	mu       sync.Mutex
	armed    bool
	labels   map[int64]string        // goroutine -> what it is doing at FS level
	held     map[int64]chan struct{} // goroutines held at the store gate
	released map[int64]bool          // released from the gate, not yet running again
	lastDump string
	exempt   int64 // the goroutine calling NewReaderFS (its emptiness check is not scheduled)
}

func (c *gctl) gate(what string) {
	g := goid()
	c.mu.Lock()
	if !c.armed || g == c.exempt {
		c.mu.Unlock()
		return
	}
	ch := make(chan struct{})
	c.held[g] = ch
	c.mu.Unlock()
	<-ch
	c.mu.Lock()
	delete(c.released, g)
	c.mu.Unlock()
}

// labelFS records which FS-level call a goroutine is in (for stable thread names) and exposes what mem.FS exposes
// to tar: Open, OpenFile, Mkdir, MkdirAll, Chmod.
type labelFS struct {
	in *keyvalue.FS
	c  *gctl
}

func (l *labelFS) enter(what string) {
	g := goid()
	l.c.mu.Lock()
	l.c.labels[g] = what
	l.c.mu.Unlock()
}
func (l *labelFS) Open(name string) (hackpadfs.File, error) { return l.in.Open(name) }
func (l *labelFS) OpenFile(name string, flag int, perm hackpadfs.FileMode) (hackpadfs.File, error) {
	l.enter("openfile " + name)
	return l.in.OpenFile(name, flag, perm)
}
func (l *labelFS) Mkdir(name string, perm hackpadfs.FileMode) error {
	l.enter("mkdir " + name)
	return l.in.Mkdir(name, perm)
}
func (l *labelFS) MkdirAll(name string, perm hackpadfs.FileMode) error {
	l.enter("mkdirall " + name)
	return l.in.MkdirAll(name, perm)
}
func (l *labelFS) Chmod(name string, mode hackpadfs.FileMode) error {
	l.enter("chmod " + name)
	return l.in.Chmod(name, mode)
}

// quiescent reports whether every goroutine running tar.ReaderFS code is held at the gate or blocked.
func (c *gctl) quiescent(buf []byte) bool {
	n := runtime.Stack(buf, true)
	dump := string(buf[:n])
	c.lastDump = dump
	c.mu.Lock()
	defer c.mu.Unlock()
	for _, blk := range strings.Split(dump, "\n\n") {
		if !strings.Contains(blk, "github.com/hack-pad/hackpadfs/tar.") {
			continue
		}
		var id int64
		var state string
		if _, err := fmt.Sscanf(blk, "goroutine %d [", &id); err != nil {
			continue
		}
		if i := strings.IndexByte(blk, '['); i >= 0 {
			if j := strings.IndexAny(blk[i:], "],"); j >= 0 {
				state = blk[i+1 : i+j]
			}
		}
		if _, ok := c.held[id]; ok {
			continue
		}
		if c.released[id] {
			return false
		}
		if state == "semacquire" && strings.Contains(blk, "sync.(*WaitGroup).Wait") {
			continue // (a large allocation also parks in semacquire for a moment: that one is not "blocked")
		}
		switch state {
		case "chan receive", "chan send", "select", "sync.Cond.Wait", "sync.Mutex.Lock", "sync.RWMutex.Lock", "sync.RWMutex.RLock", "sync.WaitGroup.Wait":
			// blocked on a primitive; but a goroutine blocked in OUR gate that has not registered yet cannot exist:
			// registration happens before the receive
			continue
		}
		return false
	}
	return true
}

// SchedRun is one explored schedule.
type SchedRun struct {
	Choices []string
	Uerr    error
	Tree    map[string]*Node
	Probs   []string
	Hang    bool
}

// runSchedule unpacks the archive once; choice i picks among the held threads (sorted by label) at step i; beyond
// the prefix the first one is taken. Returns the trace (choice index, number of options).
func runSchedule(data []byte, cands []string, prefix []int) (run SchedRun, trace [][2]int) {
	c := &gctl{labels: map[int64]string{}, held: map[int64]chan struct{}{}, released: map[int64]bool{}}
	kv, err := keyvalue.NewFS(&gstore{in: mem.NewStoreForVerif(), c: c})
	if err != nil {
		panic(err)
	}
	dest := &labelFS{in: kv, c: c}
	ctx, cancel := context.WithCancel(context.Background())
	defer cancel()
	c.exempt = goid()
	c.armed = true
	rfs, err := hptar.NewReaderFS(ctx, bytes.NewReader(data), hptar.ReaderFSOptions{UnarchiveFS: dest})
	if err != nil {
		run.Uerr = err
		return run, nil
	}
	buf := make([]byte, 4<<20)
	deadline := time.Now().Add(Watchdog)
	for step := 0; ; step++ {
		for !c.quiescent(buf) {
			if time.Now().After(deadline) {
				run.Hang = true
				return run, trace
			}
			runtime.Gosched()
		}
		c.mu.Lock()
		type ht struct {
			label string
			g     int64
		}
		var hs []ht
		for g := range c.held {
			l := c.labels[g]
			if l == "" {
				l = "reader"
			}
			hs = append(hs, ht{l, g})
		}
		sort.Slice(hs, func(i, j int) bool { return hs[i].label < hs[j].label })
		if len(hs) == 0 {
			c.mu.Unlock()
			select {
			case <-rfs.Done():
			default:
				if debugDivs {
					fmt.Fprintf(os.Stderr, "MEMSCHED-EMPTY step %d\n%s\n=====\n", step, c.lastDump)
				}
			}
			select {
			case <-rfs.Done():
			default:
				// nothing held, everything blocked, not done: give the runtime a moment, then call it a hang
				select {
				case <-rfs.Done():
				case <-time.After(2 * time.Second):
					if debugDivs {
						n := runtime.Stack(buf, true)
						fmt.Fprintf(os.Stderr, "MEMSCHED-HANG step %d\n%s\n", step, buf[:n])
					}
					run.Hang = true
					return run, trace
				}
			}
			break
		}
		k := 0
		if step < len(prefix) {
			k = prefix[step]
		}
		if k >= len(hs) {
			k = len(hs) - 1
		}
		trace = append(trace, [2]int{k, len(hs)})
		run.Choices = append(run.Choices, hs[k].label)
		ch := c.held[hs[k].g]
		delete(c.held, hs[k].g)
		c.released[hs[k].g] = true
		c.mu.Unlock()
		close(ch)
	}
	run.Uerr = rfs.UnarchiveErr()
	c.mu.Lock()
	c.armed = false
	c.mu.Unlock()
	run.Tree, run.Probs = Walk(kv, cands)
	return run, trace
}

// MemSchedAdapter explores schedules for each archive of SpecReq.
type MemSchedAdapter struct {
	Prop         string
	MaxSchedules int
	Explored     int64
	Capped       int64
}

func (a *MemSchedAdapter) Name() string { return "tar:memsched" }
func (a *MemSchedAdapter) Counters() map[string]int64 {
	return map[string]int64{"schedules_explored": a.Explored, "archives_with_capped_exploration": a.Capped}
}
func (a *MemSchedAdapter) New(init *tla.Value) (engine.Instance, error) {
	in := &memSchedInst{ad: a}
	if init != nil {
		in.entries = EntriesOf(init.F("ar"))
	}
	return in, nil
}

type memSchedInst struct {
	ad      *MemSchedAdapter
	entries []Entry
}

func (in *memSchedInst) Dirty() bool { return false }
func (in *memSchedInst) Close()      {}
func (in *memSchedInst) CheckState(exp *tla.Value, call, tr *tla.Value) []engine.Div {
	return nil
}

func (in *memSchedInst) Apply(call *tla.Value) any {
	memschedMu.Lock()
	defer memschedMu.Unlock()
	l, err := Build(in.entries)
	if err != nil {
		return []SchedRun{{Uerr: err}}
	}
	var cands []string
	for _, e := range in.entries {
		cands = append(cands, Resolve(e.Raw))
	}
	var runs []SchedRun
	var prefix []int
	max := in.ad.MaxSchedules
	if max <= 0 {
		max = 500
	}
	for n := 0; ; n++ {
		if n >= max {
			in.ad.Capped++
			break
		}
		run, trace := runSchedule(l.Data, cands, prefix)
		in.ad.Explored++
		runs = append(runs, run)
		if run.Hang {
			break
		}
		// next schedule: last position with an untried alternative
		i := len(trace) - 1
		for i >= 0 && trace[i][0]+1 >= trace[i][1] {
			i--
		}
		if i < 0 {
			break
		}
		prefix = prefix[:0]
		for j := 0; j < i; j++ {
			prefix = append(prefix, trace[j][0])
		}
		prefix = append(prefix, trace[i][0]+1)
	}
	return runs
}

func (in *memSchedInst) CheckResult(call, tr *tla.Value, obsAny any) []engine.Div {
	var divs []engine.Div
	seen := map[string]bool{}
	exp := tr.F("e").S
	add := func(what, detail string) {
		if !seen[what] {
			seen[what] = true
			divs = append(divs, engine.Div{Prop: in.ad.Prop, Sig: fmt.Sprintf("tar:memsched unpack %s %s", tr.F("b").S, what), Detail: detail})
		}
	}
	for _, r := range obsAny.([]SchedRun) {
		sched := strings.Join(r.Choices, " | ")
		switch {
		case r.Hang:
			add("exp="+exp+" got=HANG", "schedule: "+sched)
			continue
		case exp == "ok" && r.Uerr != nil:
			add("exp=ok got=ERR", fmt.Sprintf("UnarchiveErr=%v; schedule: %s", r.Uerr, sched))
			continue
		case exp == "FAIL" && r.Uerr == nil:
			add("exp=FAIL got=ok", fmt.Sprintf("tree: %s; schedule: %s", Describe(r.Tree), sched))
		}
		for _, c := range CompareTree("dest", r.Tree, tr.F("tree"), in.entries, exp == "FAIL" || r.Uerr != nil) {
			add(c.what, fmt.Sprintf("%s; tree: %s; schedule (store transactions released in this order): %s", c.detail, Describe(r.Tree), sched))
		}
	}
	return divs
}
