package tarad

import (
	"bytes"
	"context"
	"fmt"
	"math/rand"
	"runtime"
	"sync"
	"sync/atomic"
	"time"

	"github.com/hack-pad/hackpadfs"
	"github.com/hack-pad/hackpadfs/mem"
	hptar "github.com/hack-pad/hackpadfs/tar"
	"verif/harness/engine"
	"verif/harness/tla"
)

// ---------------------------------------------------------------------------------------------------
// Adapter "tar:poolgate" (module tarreq, archive with more small entries than the small-buffer pool holds):
// every background writer is held at its OpenFile until no further writer arrives, i.e. until the reader is
// blocked in smallPool.Wait(); then all are released. The pool must have bounded the writers in flight, the
// unpack must finish, and the tree must be the archive's.

// SmallPoolCap is (maxMemory - 2*bigBufMemory) / smallBufMemory of tar/fs.go.
const SmallPoolCap = (20*mib - 2*bigBuf) / smallBuf

type holdFS struct {
	in      *mem.FS
	hold    chan struct{}
	arrived int32
}

func (h *holdFS) Open(name string) (hackpadfs.File, error) { return h.in.Open(name) }
func (h *holdFS) OpenFile(name string, flag int, perm hackpadfs.FileMode) (hackpadfs.File, error) {
	atomic.AddInt32(&h.arrived, 1)
	<-h.hold
	return h.in.OpenFile(name, flag, perm)
}
func (h *holdFS) Mkdir(name string, perm hackpadfs.FileMode) error { return h.in.Mkdir(name, perm) }
func (h *holdFS) Chmod(name string, mode hackpadfs.FileMode) error { return h.in.Chmod(name, mode) }

type PoolGateAdapter struct{ Prop string }

func (a *PoolGateAdapter) Name() string { return "tar:poolgate" }
func (a *PoolGateAdapter) New(init *tla.Value) (engine.Instance, error) {
	in := &poolGateInst{reqInst: reqInst{ad: &ReqAdapter{Kind: "tar:poolgate", Prop: a.Prop}}}
	if init != nil {
		in.entries = EntriesOf(init.F("ar"))
	}
	return in, nil
}

type poolGateInst struct {
	reqInst
	held int32
}

func (in *poolGateInst) Apply(call *tla.Value) any {
	l, err := Build(in.entries)
	if err != nil {
		return []ReqObs{{Err: err}}
	}
	m, _ := mem.NewFS()
	h := &holdFS{in: m, hold: make(chan struct{})}
	rfs, err := hptar.NewReaderFS(context.Background(), bytes.NewReader(l.Data), hptar.ReaderFSOptions{UnarchiveFS: h})
	if err != nil {
		return []ReqObs{{Err: err}}
	}
	// wait until the number of held writers has been stable for 100 ms
	last, since := int32(-1), time.Now()
	for time.Since(since) < 100*time.Millisecond {
		if n := atomic.LoadInt32(&h.arrived); n != last {
			last, since = n, time.Now()
		}
		time.Sleep(time.Millisecond)
	}
	in.held = last
	close(h.hold)
	o := ReqObs{Views: map[string]map[string]*Node{}}
	tm := time.NewTimer(Watchdog)
	defer tm.Stop()
	select {
	case <-rfs.Done():
	case <-tm.C:
		o.Hang = true
		return []ReqObs{o}
	}
	o.Uerr = rfs.UnarchiveErr()
	var cands []string
	for _, e := range in.entries {
		cands = append(cands, Resolve(e.Raw))
	}
	if o.Uerr == nil {
		t, p := Walk(rfs, cands)
		o.Views["readerfs"] = t
		for _, x := range p {
			o.Problems = append(o.Problems, "readerfs "+x)
		}
	}
	t, p := Walk(m, cands)
	o.Views["dest"] = t
	for _, x := range p {
		o.Problems = append(o.Problems, "dest "+x)
	}
	return []ReqObs{o}
}

func (in *poolGateInst) CheckResult(call, tr *tla.Value, obsAny any) []engine.Div {
	divs := in.reqInst.CheckResult(call, tr, obsAny)
	small := 0
	for _, e := range in.entries {
		if e.Kind == "file" {
			small++
		}
	}
	want := int32(SmallPoolCap)
	if int32(small) < want {
		want = int32(small)
	}
	if in.held != want {
		what := "fewer"
		if in.held > want {
			what = "more"
		}
		divs = append(divs, engine.Div{Prop: in.ad.Prop, Sig: fmt.Sprintf("tar:poolgate unpack %s writers-in-flight exp=pool-capacity got=%s", tr.F("b").S, what),
			Detail: fmt.Sprintf("%d background writers were in flight with every writer held, the small-buffer pool holds %d", in.held, want)})
	}
	return divs
}

// ---------------------------------------------------------------------------------------------------
// Module "tarprims": the real pubsub and bufferPool (export hooks) under seeded stress schedules.
//
//	[op |-> "pubsub", seed |-> n]  waiters and emitters on a few keys, random start order and yields, optional
//	                               cancellation: every Wait returns once its key was emitted or the context was
//	                               cancelled; a Wait on an un-emitted key stays blocked until then.
//	[op |-> "pool", seed |-> n]    goroutines Wait/Done on a small pool: count <= cap, buffers in use <= cap, no
//	                               buffer handed to two holders, every Wait returns.
type PrimsAdapter struct{ Prop string }

func (a *PrimsAdapter) Name() string                                 { return "tarprims" }
func (a *PrimsAdapter) New(init *tla.Value) (engine.Instance, error) { return &primsInst{ad: a}, nil }

type primsInst struct{ ad *PrimsAdapter }

func (in *primsInst) Dirty() bool { return false }
func (in *primsInst) Close()      {}
func (in *primsInst) CheckState(exp *tla.Value, call, tr *tla.Value) []engine.Div {
	return nil
}

// PrimsObs lists the violated clauses.
type PrimsObs struct{ Bad []string }

func (o PrimsObs) String() string { return fmt.Sprint(o.Bad) }

func (in *primsInst) Apply(call *tla.Value) any {
	seed := call.F("seed").I
	switch call.F("op").S {
	case "pubsub":
		return pubsubStress(seed)
	case "pool":
		return poolStress(seed)
	}
	panic("unknown prims op")
}

func (in *primsInst) CheckResult(call, tr *tla.Value, obsAny any) []engine.Div {
	var divs []engine.Div
	seen := map[string]bool{}
	for _, b := range obsAny.(PrimsObs).Bad {
		if !seen[b] {
			seen[b] = true
			divs = append(divs, engine.Div{Prop: in.ad.Prop, Sig: "tarprims " + call.F("op").S + " " + b, Detail: fmt.Sprintf("seed %d: %s", call.F("seed").I, b)})
		}
	}
	return divs
}

func jitter(r *rand.Rand) {
	switch r.Intn(4) {
	case 0:
		runtime.Gosched()
	case 1:
		for i := 0; i < r.Intn(200); i++ {
			_ = i
		}
	}
}

func pubsubStress(seed int64) (o PrimsObs) {
	rnd := rand.New(rand.NewSource(seed))
	ctx, cancel := context.WithCancel(context.Background())
	defer cancel()
	ps := hptar.NewPubsubForVerif(ctx)
	keys := []string{"a", "b", "c", "never"}
	type waiter struct {
		key  string
		done chan struct{}
	}
	var ws []*waiter
	nW, nE := 2+rnd.Intn(7), 1+rnd.Intn(4)
	doCancel := rnd.Intn(3) == 0
	emittedKeys := map[string]bool{}
	var wgE, wgAll sync.WaitGroup
	for i := 0; i < nW; i++ {
		w := &waiter{key: keys[rnd.Intn(len(keys))], done: make(chan struct{})}
		ws = append(ws, w)
		r := rand.New(rand.NewSource(rnd.Int63()))
		wgAll.Add(1)
		go func() {
			defer wgAll.Done()
			jitter(r)
			ps.Wait(w.key)
			close(w.done)
		}()
	}
	for i := 0; i < nE; i++ {
		k := keys[rnd.Intn(3)] // "never" is never emitted
		emittedKeys[k] = true
		r := rand.New(rand.NewSource(rnd.Int63()))
		wgE.Add(1)
		go func() {
			defer wgE.Done()
			jitter(r)
			ps.Emit(k)
		}()
	}
	if doCancel {
		r := rand.New(rand.NewSource(rnd.Int63()))
		go func() { jitter(r); cancel() }()
	}
	within := func(ch <-chan struct{}, d time.Duration) bool {
		select {
		case <-ch:
			return true
		case <-time.After(d):
			return false
		}
	}
	eDone := make(chan struct{})
	go func() { wgE.Wait(); close(eDone) }()
	if !within(eDone, 3*time.Second) {
		o.Bad = append(o.Bad, "emit exp=returns got=blocked")
		return o
	}
	for _, w := range ws {
		if emittedKeys[w.key] || doCancel {
			if !within(w.done, 3*time.Second) {
				o.Bad = append(o.Bad, "lost-wakeup exp=Wait-returns got=blocked")
			}
		}
	}
	if !doCancel {
		time.Sleep(300 * time.Microsecond)
		for _, w := range ws {
			if !emittedKeys[w.key] {
				select {
				case <-w.done:
					o.Bad = append(o.Bad, "spurious-return exp=Wait-blocks got=returned")
				default:
				}
			}
		}
		cancel()
	}
	all := make(chan struct{})
	go func() { wgAll.Wait(); close(all) }()
	if !within(all, 3*time.Second) {
		o.Bad = append(o.Bad, "cancel exp=all-Waits-return got=blocked")
	}
	fresh := make(chan struct{})
	go func() { ps.Wait("never"); close(fresh) }()
	if !within(fresh, 3*time.Second) {
		o.Bad = append(o.Bad, "wait-after-cancel exp=returns got=blocked")
	}
	return o
}

func poolStress(seed int64) (o PrimsObs) {
	rnd := rand.New(rand.NewSource(seed))
	capacity := 1 + rnd.Intn(4)
	threads := capacity + 1 + rnd.Intn(4)
	rounds := 20 + rnd.Intn(60)
	p := hptar.NewBufferPoolForVerif(64, uint64(capacity))
	var inUse int32
	var mu sync.Mutex
	owners := map[*byte]int{}
	var bad sync.Map
	var wg sync.WaitGroup
	for t := 0; t < threads; t++ {
		r := rand.New(rand.NewSource(rnd.Int63()))
		t := t
		wg.Add(1)
		go func() {
			defer wg.Done()
			for i := 0; i < rounds; i++ {
				jitter(r)
				b := p.Wait()
				n := atomic.AddInt32(&inUse, 1)
				if int(n) > p.Cap() {
					bad.Store("in-use exp<=cap got=more", true)
				}
				if int(p.Count()) > p.Cap() {
					bad.Store("count exp<=cap got=more", true)
				}
				if len(b.Data()) != 64 {
					bad.Store("buffer-size", true)
				}
				key := &b.Data()[0]
				mu.Lock()
				if _, dup := owners[key]; dup {
					bad.Store("one-buffer-two-holders", true)
				}
				owners[key] = t
				mu.Unlock()
				jitter(r)
				mu.Lock()
				delete(owners, key)
				mu.Unlock()
				atomic.AddInt32(&inUse, -1)
				b.Done()
			}
		}()
	}
	done := make(chan struct{})
	go func() { wg.Wait(); close(done) }()
	select {
	case <-done:
	case <-time.After(10 * time.Second):
		o.Bad = append(o.Bad, "wait exp=returns got=blocked")
	}
	bad.Range(func(k, _ any) bool { o.Bad = append(o.Bad, k.(string)); return true })
	return o
}

// RunPrims runs n seeded scenarios of each primitive and returns an engine-style summary.
func RunPrims(ad *PrimsAdapter, seed int64, n int) *engine.Summary {
	start := time.Now()
	sum := &engine.Summary{Module: "tarprims", Adapter: ad.Name(), Branches: map[string]int64{}, SampledFraction: 1}
	col := newCollector()
	inst, _ := ad.New(nil)
	var wg sync.WaitGroup
	sem := make(chan struct{}, 8)
	for _, op := range []string{"pubsub", "pool"} {
		for i := 0; i < n; i++ {
			call := tla.MustParse(fmt.Sprintf(`[op |-> "%s", seed |-> %d]`, op, seed*100000+int64(i)))
			wg.Add(1)
			sem <- struct{}{}
			go func(call tla.Value, op string) {
				defer wg.Done()
				defer func() { <-sem }()
				obs := inst.Apply(&call)
				for _, d := range inst.CheckResult(&call, nil, obs) {
					col.add(d, engine.Example{Call: call.Raw, Expected: `[n |-> "="]`})
				}
				col.mu.Lock()
				col.branches["prims/"+op]++
				col.mu.Unlock()
				atomic.AddInt64(&sum.Replayed, 1)
			}(call, op)
		}
	}
	wg.Wait()
	sum.States, sum.Transitions = 1, sum.Replayed
	col.fill(sum)
	sum.WallS = time.Since(start).Seconds()
	return sum
}
