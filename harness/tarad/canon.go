package tarad

import (
	"sort"
	"strconv"
	"strings"

	"verif/harness/tla"
)

// Canon renders a parsed TLA+ value with record fields, set elements and function keys sorted, so that the same
// value printed by TLC in different field orders (state variable vs. freshly constructed record) gets one key.
func Canon(v *tla.Value) string {
	var b strings.Builder
	canon(&b, v)
	return b.String()
}

func canon(b *strings.Builder, v *tla.Value) {
	switch v.K {
	case tla.Int:
		b.WriteString(strconv.FormatInt(v.I, 10))
	case tla.Str:
		b.WriteString(strconv.Quote(v.S))
	case tla.Bool:
		if v.B {
			b.WriteString("TRUE")
		} else {
			b.WriteString("FALSE")
		}
	case tla.Seq:
		b.WriteString("<<")
		for i := range v.E {
			if i > 0 {
				b.WriteString(", ")
			}
			canon(b, &v.E[i])
		}
		b.WriteString(">>")
	case tla.Set:
		parts := make([]string, len(v.E))
		for i := range v.E {
			parts[i] = Canon(&v.E[i])
		}
		sort.Strings(parts)
		b.WriteString("{" + strings.Join(parts, ", ") + "}")
	case tla.Rec:
		idx := make([]int, len(v.Names))
		for i := range idx {
			idx[i] = i
		}
		sort.Slice(idx, func(x, y int) bool { return v.Names[idx[x]] < v.Names[idx[y]] })
		b.WriteString("[")
		for n, i := range idx {
			if n > 0 {
				b.WriteString(", ")
			}
			b.WriteString(v.Names[i] + " |-> ")
			canon(b, &v.E[i])
		}
		b.WriteString("]")
	case tla.Fun:
		parts := make([]string, len(v.Keys))
		for i := range v.Keys {
			parts[i] = Canon(&v.Keys[i]) + " :> " + Canon(&v.E[i])
		}
		sort.Strings(parts)
		b.WriteString("(" + strings.Join(parts, " @@ ") + ")")
	default:
		b.WriteString(v.Raw)
	}
}
