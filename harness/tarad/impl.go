package tarad

import (
	"bytes"
	"context"
	"errors"
	"fmt"
	"io"
	"sort"
	"strings"
	"time"

	"github.com/hack-pad/hackpadfs"
	"github.com/hack-pad/hackpadfs/mem"
	hptar "github.com/hack-pad/hackpadfs/tar"
	"verif/harness/engine"
	"verif/harness/tla"
)

// ImplAdapter binds SpecGate of Tar.tla to a tar.ReaderFS whose archive stream, destination FS and openers are
// gated. A call is a printed gate-level transition [a, ns, t]: thread t is released with decision a; ns is the
// set of quiescent model states the release may lead to (more than one: a race between internal steps).
type ImplAdapter struct {
	PropC12, PropC13 string
	StepTimeout      time.Duration
}

func (a *ImplAdapter) Name() string { return "tarimpl" }

func (a *ImplAdapter) New(init *tla.Value) (engine.Instance, error) {
	if init == nil {
		return nil, fmt.Errorf("tarimpl needs an initial model state")
	}
	in := &ImplInst{ad: a, cur: init, entries: EntriesOf(init.F("ar"))}
	if in.ad.StepTimeout == 0 {
		in.ad.StepTimeout = 3 * time.Second
	}
	l, err := Build(in.entries)
	if err != nil {
		return nil, err
	}
	in.lay = l
	in.sched = NewSched(in.entries)
	in.stream = NewStream(in.sched, l.Data)
	in.inner, _ = mem.NewFS()
	in.dst = &Dst{S: in.sched, In: in.inner}
	ctx, cancel := context.WithCancel(context.Background())
	in.cancel = cancel
	rfs, err := hptar.NewReaderFS(ctx, in.stream, hptar.ReaderFSOptions{UnarchiveFS: in.dst})
	if err != nil {
		cancel()
		return nil, err
	}
	in.rfs = rfs
	go func() {
		<-rfs.Done()
		e := rfs.UnarchiveErr() != nil
		in.sched.note(func() { in.sched.done, in.sched.doneErr = true, e })
	}()
	// the reader runs to its first gate
	if i, got := in.sched.WaitConfig([]string{ConfigOf(init, l)}, in.ad.StepTimeout); i < 0 {
		in.drift = fmt.Sprintf("initial configuration: real %q model %q", got, ConfigOf(init, l))
	}
	return in, nil
}

// ImplInst is one gated ReaderFS.
type ImplInst struct {
	ad      *ImplAdapter
	cur     *tla.Value // model state the instance is believed to be in
	entries []Entry
	lay     *Layout
	sched   *Sched
	stream  *Stream
	inner   *mem.FS
	dst     *Dst
	rfs     *hptar.ReaderFS
	cancel  context.CancelFunc
	drift   string
	closed  bool
	events  map[string]bool // environment events applied so far

	freeDone   bool
	freeHang   string
	curBefore  *tla.Value
	judged     map[int]bool
	doneJudged bool
}

func (in *ImplInst) Dirty() bool { return in.drift != "" }

func (in *ImplInst) Close() {
	if in.closed {
		return
	}
	in.closed = true
	in.sched.Drain()
	in.stream.Free()
	in.cancel()
}

// Cur returns the model state the instance is in.
func (in *ImplInst) Cur() *tla.Value { return in.cur }

// ConfigOf renders the observable configuration a model state predicts (same format as Sched.configLocked).
func ConfigOf(s *tla.Value, l *Layout) string {
	var parts []string
	ar := s.F("ar")
	n := len(ar.E)
	entries := EntriesOf(ar)
	r := s.F("r")
	i := int(r.F("i").I)
	j := int(r.F("j").I)
	epath := func() string { return Resolve(entries[i-1].Raw) }
	switch pc := r.F("pc").S; pc {
	case "hdr":
		off := l.Trailer
		if i <= n {
			off = l.HdrStart[i-1]
		}
		parts = append(parts, fmt.Sprintf("T0@stream(%d)", off))
	case "rd1":
		parts = append(parts, fmt.Sprintf("T0@stream(%d)", l.DataAt[i-1]))
	case "brd":
		parts = append(parts, fmt.Sprintf("T0@stream(%d)", l.DataAt[i-1]+smallBuf+(j-2)*bigBuf))
	case "mk":
		p := epath()
		segs := strings.Split(p, "/")
		dir := segs[:len(segs)-1]
		q := "."
		if j > 0 {
			q = strings.Join(dir[:j], "/")
		}
		parts = append(parts, "T0@mkdir("+q+")")
	case "dmk": // repaired variant: the reader makes directories itself
		parts = append(parts, "T0@mkdir("+epath()+")")
	case "dchmod":
		parts = append(parts, "T0@chmod("+epath()+")")
	case "bcreate":
		parts = append(parts, "T0@openfile("+epath()+")")
	case "bwr":
		parts = append(parts, "T0@write("+epath()+")")
	}
	for w := range s.F("wr").E {
		p := Resolve(entries[w].Raw)
		switch s.F("wr").E[w].F("pc").S {
		case "wmkdir":
			parts = append(parts, fmt.Sprintf("T%d@mkdir(%s)", w+1, p))
		case "wchmod":
			parts = append(parts, fmt.Sprintf("T%d@chmod(%s)", w+1, p))
		case "wcreate":
			parts = append(parts, fmt.Sprintf("T%d@openfile(%s)", w+1, p))
		case "wwrite":
			parts = append(parts, fmt.Sprintf("T%d@write(%s)", w+1, p))
		}
	}
	for c := range s.F("cl").E {
		cl := &s.F("cl").E[c]
		switch cl.F("pc").S {
		case "open":
			parts = append(parts, fmt.Sprintf("T%d@open(%s)", clientBase+c+1, PathStr(cl.F("want"))))
		case "ret":
			parts = append(parts, fmt.Sprintf("C%d=%s", c+1, cl.F("res").S))
		}
	}
	if s.F("rd").B {
		if s.F("ue").S != "" {
			parts = append(parts, "DONE:err")
		} else {
			parts = append(parts, "DONE:ok")
		}
	}
	sort.Strings(parts)
	return strings.Join(parts, " ")
}

// ImplObs is what one released step led to.
type ImplObs struct {
	Matched int    // index into ns of the model state the real configuration equals; -1 none
	Config  string // real configuration
	Want    []string
	Bad     string // the step could not be applied (thread not at its gate)
	Clients map[int]*ClientRes
}

func (o ImplObs) String() string {
	s := fmt.Sprintf("real configuration %q", o.Config)
	if o.Matched < 0 {
		s += fmt.Sprintf(" (model expects one of %q)", o.Want)
	}
	if o.Bad != "" {
		s += " " + o.Bad
	}
	var cs []int
	for c := range o.Clients {
		cs = append(cs, c)
	}
	sort.Ints(cs)
	for _, c := range cs {
		r := o.Clients[c]
		s += fmt.Sprintf("; opener %d: %s", c, r.Class)
		if r.Class == "prefix" || r.Class == "corrupt" {
			s += fmt.Sprintf(" (%d of %d bytes)", r.Len, r.Want)
		}
		if r.Err != nil {
			s += " (" + r.Err.Error() + ")"
		}
	}
	return s
}

// chunkEnd is the stream offset up to which copy chunk j (2-based) of entry i (1-based) reads.
func (in *ImplInst) chunkEnd(i, j int) int {
	end := in.lay.DataAt[i-1] + smallBuf + (j-1)*bigBuf
	if end >= in.lay.DataEnd[i-1] {
		return in.lay.PadEnd[i-1]
	}
	return end
}

func mid(from, to int) int {
	blocks := (to - from) / 512
	k := blocks / 2
	if k < 1 {
		k = 1
	}
	return from + 512*k
}

// Apply releases the thread of the transition and waits for one of the predicted configurations.
func (in *ImplInst) Apply(tr *tla.Value) any {
	o := ImplObs{Matched: -1}
	if in.drift != "" {
		o.Bad = "instance had drifted before: " + in.drift
		return o
	}
	t := int(tr.F("t").I)
	a := tr.F("a").S
	s := in.cur
	in.curBefore = s
	if in.events == nil {
		in.events = map[string]bool{}
	}
	switch {
	case t == -1:
		in.events["cancel"] = true
		in.cancel()
	case t == 0 && (s.F("r").F("pc").S == "hdr" || s.F("r").F("pc").S == "rd1" || s.F("r").F("pc").S == "brd"):
		r := s.F("r")
		i, j := int(r.F("i").I), int(r.F("j").I)
		pos := in.stream.Pos()
		var goTo int
		switch r.F("pc").S {
		case "hdr":
			if i <= len(in.entries) {
				goTo = in.lay.DataAt[i-1]
			} else {
				goTo = len(in.lay.Data)
			}
		case "rd1":
			if Size(in.entries[i-1].Sz) <= smallBuf-1 {
				goTo = in.lay.PadEnd[i-1]
			} else if Size(in.entries[i-1].Sz) == smallBuf {
				goTo = in.lay.PadEnd[i-1]
			} else {
				goTo = in.lay.DataAt[i-1] + smallBuf
			}
		case "brd":
			goTo = in.chunkEnd(i, j)
		}
		switch a {
		case "go":
			in.stream.Allow(goTo)
		case "eof":
			in.events["cut"] = true
			in.stream.Cut(pos, io.EOF)
		case "eofmid":
			in.events["cut"] = true
			end := goTo
			if end > in.lay.DataEnd[i-1] {
				end = in.lay.DataEnd[i-1]
			}
			in.stream.Cut(mid(pos, end), io.EOF)
		case "err":
			in.events["err"] = true
			in.stream.Cut(pos, ErrInjected)
		}
	case t >= clientBase && s.F("cl").E[t-clientBase-1].F("pc").S == "idle":
		c := t - clientBase
		in.startClient(c, PathStr(s.F("cl").E[c-1].F("want")))
	default:
		if a == "fail" {
			in.events["fault"] = true
		}
		if !in.sched.Release(t, a != "fail") {
			o.Bad = fmt.Sprintf("thread %d is not at a gate", t)
		}
	}
	ns := tr.F("ns").E
	if t > 0 && t < clientBase {
		// a background writer that fails puts its error into errs after the destination call returned: wait for
		// that goroutine to end (or to block on the full channel) so that the reader's next poll is determined
		for k := range ns {
			if ns[k].F("errs").S != s.F("errs").S || ns[k].F("wr").E[t-1].F("pc").S == "werr" {
				defer in.sched.WaitGone(t)
				break
			}
		}
	}
	want := make([]string, len(ns))
	for k := range ns {
		want[k] = ConfigOf(&ns[k], in.lay)
	}
	o.Want = want
	o.Matched, o.Config = in.sched.WaitConfig(want, in.ad.StepTimeout)
	in.sched.mu.Lock()
	o.Clients = map[int]*ClientRes{}
	for c, r := range in.sched.returned {
		o.Clients[c] = r
	}
	if len(in.sched.unknown) > 0 {
		o.Bad += fmt.Sprintf(" destination calls by unattributed goroutines: %v", in.sched.unknown)
	}
	in.sched.mu.Unlock()
	if o.Matched >= 0 {
		in.cur = &ns[o.Matched]
	} else {
		in.drift = fmt.Sprintf("after T%d:%s real %q, model %q", t, a, o.Config, want)
	}
	return o
}

func (in *ImplInst) startClient(c int, name string) {
	started := make(chan struct{})
	go func() {
		in.sched.note(func() { in.sched.clientG[goid()] = c })
		close(started)
		res := in.open(name)
		in.sched.note(func() { in.sched.returned[c] = res })
	}()
	<-started
}

// open is what an opener does: Open, and on success read everything.
func (in *ImplInst) open(name string) (res *ClientRes) {
	res = &ClientRes{}
	defer func() {
		if r := recover(); r != nil {
			res.Class, res.Err = "PANIC", fmt.Errorf("%v", r)
		}
	}()
	f, err := in.rfs.Open(name)
	if err != nil {
		res.Err = err
		if errors.Is(err, hackpadfs.ErrNotExist) {
			res.Class = "ENOENT"
		} else {
			res.Class = "FAIL"
		}
		return res
	}
	defer f.Close()
	info, err := f.Stat()
	if err != nil {
		res.Class, res.Err = "FAIL", err
		return res
	}
	if info.IsDir() {
		res.Class = "dir"
		return res
	}
	data, err := io.ReadAll(f)
	if err != nil {
		res.Class, res.Err = "FAIL", err
		return res
	}
	res.Len = len(data)
	idx, ok := in.sched.byPath[name]
	if !ok || in.entries[idx-1].Kind != "file" {
		res.Class = "corrupt"
		return res
	}
	full := Content(idx, Size(in.entries[idx-1].Sz))
	res.Want = len(full)
	switch {
	case bytes.Equal(data, full):
		res.Class = "full"
	default:
		// fewer bytes, or the full length with bytes that are not there yet (the writer grows the file before it
		// copies): both are "not the complete bytes", one class
		res.Class = "prefix"
	}
	return res
}

// StepLabel names a gate-level step by what the released thread was about to do (stable, no concrete values).
func StepLabel(before *tla.Value, tr *tla.Value) string {
	t := int(tr.F("t").I)
	a := tr.F("a").S
	switch {
	case t == -1:
		return "env cancel"
	case t == 0:
		pc := "?"
		if before != nil {
			pc = before.F("r").F("pc").S
		}
		return "reader/" + pc + " " + a
	case t < clientBase:
		pc := "?"
		if before != nil {
			pc = before.F("wr").E[t-1].F("pc").S
		}
		return "writer/" + pc + " " + a
	}
	pc := "?"
	if before != nil {
		pc = before.F("cl").E[t-clientBase-1].F("pc").S
	}
	return "opener/" + pc + " " + a
}

// CheckResult judges the outcome of the step Apply just made: requirement violations seen on the real code are
// attributed to C13 / C12, disagreements between the real code and the implementation-shaped model to SPEC.
func (in *ImplInst) CheckResult(tr, _ *tla.Value, obsAny any) []engine.Div {
	o := obsAny.(ImplObs)
	before := in.curBefore
	var divs []engine.Div
	label := StepLabel(before, tr)
	if o.Bad != "" || o.Matched < 0 {
		divs = append(divs, engine.Div{Prop: "SPEC", Sig: "tarimpl " + label + " drift", Detail: o.String()})
		// the real code left the model: let it run freely to the end and judge what the openers got and how the
		// unpack ended against the requirement (a violation is a violation whether or not the model foresaw it)
		o.Clients = in.runFreely()
	}
	// requirement, judged on what the real code returned (independent of the model's prediction)
	for c, r := range o.Clients {
		if in.judged == nil {
			in.judged = map[int]bool{}
		}
		if in.judged[c] {
			continue
		}
		in.judged[c] = true
		sit := situationOfEvents(in.events)
		switch r.Class {
		case "prefix", "corrupt":
			divs = append(divs, engine.Div{Prop: in.ad.PropC13, Sig: fmt.Sprintf("tarimpl open %s exp=full-bytes-or-error got=partial-bytes", sit),
				Detail: fmt.Sprintf("Open succeeded on a regular entry with %d of %d bytes; %s", r.Len, r.Want, o.String())})
		case "PANIC":
			divs = append(divs, engine.Div{Prop: in.ad.PropC13, Sig: fmt.Sprintf("tarimpl open %s got=PANIC", sit), Detail: o.String()})
		}
	}
	if o.Matched >= 0 && in.cur.F("rd").B {
		divs = append(divs, in.judgeDone(label)...)
	}
	if o.Matched < 0 && in.freeDone {
		if uerr := in.rfs.UnarchiveErr(); uerr == nil && (in.events["fault"] || in.events["err"]) {
			divs = append(divs, engine.Div{Prop: in.ad.PropC13, Sig: "tarimpl done " + situationOfEvents(in.events) + " exp=UnarchiveErr got=nil",
				Detail: "a destination call / the stream failed, yet Done() closed with UnarchiveErr()=nil (after the instance had left the model)"})
		}
	}
	if o.Matched < 0 && in.freeHang != "" {
		divs = append(divs, engine.Div{Prop: in.ad.PropC13, Sig: "tarimpl termination " + situationOfEvents(in.events) + " exp=returns got=HANG", Detail: in.freeHang})
	}
	return divs
}

// runFreely opens every gate, serves the rest of the stream and waits for Done() and for the openers started so far.
func (in *ImplInst) runFreely() map[int]*ClientRes {
	in.sched.Drain()
	in.stream.Free()
	deadline := time.Now().Add(in.ad.StepTimeout)
	for {
		in.sched.mu.Lock()
		done := in.sched.done
		started := len(in.sched.clientG)
		returned := len(in.sched.returned)
		res := map[int]*ClientRes{}
		for c, r := range in.sched.returned {
			res[c] = r
		}
		in.sched.mu.Unlock()
		if done && returned >= started {
			in.freeDone = true
			return res
		}
		if time.Now().After(deadline) {
			in.freeDone = done
			in.freeHang = fmt.Sprintf("with every gate open and the whole stream served: Done() closed=%v, %d of %d Opens returned", done, returned, started)
			return res
		}
		time.Sleep(200 * time.Microsecond)
	}
}

// CheckState compares the destination with the model state (SPEC: the model must describe the code).
func (in *ImplInst) CheckState(exp *tla.Value, call, tr *tla.Value) []engine.Div {
	if in.drift != "" {
		return nil
	}
	if call == nil {
		return in.CheckDst("build")
	}
	return in.CheckDst(StepLabel(in.curBefore, call))
}

// Step = Apply + CheckResult.
func (in *ImplInst) Step(tr *tla.Value) (ImplObs, []engine.Div) {
	o := in.Apply(tr).(ImplObs)
	return o, in.CheckResult(tr, nil, o)
}

func situationOfEvents(ev map[string]bool) string {
	var ks []string
	for k := range ev {
		ks = append(ks, k)
	}
	if len(ks) == 0 {
		return "clean-run"
	}
	sort.Strings(ks)
	return "after-" + strings.Join(ks, "+")
}

// judgeDone: Done() is closed. UnarchiveErr must be set after a failure; after a success the tree is the archive's.
func (in *ImplInst) judgeDone(label string) []engine.Div {
	if in.doneJudged {
		return nil
	}
	in.doneJudged = true
	var divs []engine.Div
	uerr := in.rfs.UnarchiveErr()
	s := in.cur
	modelErr := s.F("ue").S != ""
	if modelErr != (uerr != nil) {
		divs = append(divs, engine.Div{Prop: "SPEC", Sig: "tarimpl " + label + " drift-unarchive-err",
			Detail: fmt.Sprintf("UnarchiveErr()=%v, model ue=%q", uerr, s.F("ue").S)})
	}
	failed := in.events["fault"] || in.events["err"] || s.F("sticky").B
	escaping := false
	i := int(s.F("r").F("i").I)
	for k, e := range in.entries {
		if strings.HasPrefix(Resolve(e.Raw), "..") && k+1 <= i && !in.events["cut"] {
			escaping = true
		}
	}
	if uerr == nil && failed {
		divs = append(divs, engine.Div{Prop: in.ad.PropC13, Sig: "tarimpl done " + situationOfEvents(in.events) + " exp=UnarchiveErr got=nil",
			Detail: fmt.Sprintf("a destination call / the stream failed, yet Done() closed with UnarchiveErr()=nil; destination: %s", in.describeDst())})
	}
	if uerr == nil && escaping {
		divs = append(divs, engine.Div{Prop: in.ad.PropC12, Sig: "tarimpl done escaping-name exp=UnarchiveErr got=nil",
			Detail: fmt.Sprintf("an entry name resolves outside the root, yet UnarchiveErr()=nil; destination: %s", in.describeDst())})
	}
	if uerr == nil && !failed && !escaping {
		// C12 under this forced schedule: the destination is exactly the tree of the delivered entries
		tree, probs := Walk(in.inner, nil)
		want := map[string]*Node{}
		delivered := i - 1
		for k := 0; k < delivered && k < len(in.entries); k++ {
			e := in.entries[k]
			p := Resolve(e.Raw)
			for q := parentOf(p); q != "."; q = parentOf(q) {
				if want[q] == nil {
					want[q] = &Node{Kind: "dir", Perm: -1}
				}
			}
			if p == "." {
				continue
			}
			nd := &Node{Kind: e.Kind, Perm: e.Perm}
			if e.Kind == "file" {
				nd.Data = Content(k+1, Size(e.Sz))
			}
			want[p] = nd
		}
		cls := map[string]string{}
		for _, p := range probs {
			cls["projection "+strings.Fields(p)[0]] = p
		}
		for p, w := range want {
			g := tree[p]
			switch {
			case g == nil:
				cls["missing-path"] = p
			case g.Kind != w.Kind:
				cls["kind"] = p
			case w.Perm >= 0 && g.Perm != w.Perm:
				cls["perm"] = fmt.Sprintf("%s has %o, archive says %o", p, g.Perm, w.Perm)
			case w.Kind == "file" && !bytes.Equal(g.Data, w.Data):
				cls["data"] = fmt.Sprintf("%s holds %d bytes, entry has %d", p, len(g.Data), len(w.Data))
			}
		}
		for p := range tree {
			if want[p] == nil {
				cls["extra-path"] = p
			}
		}
		for c, d := range cls {
			divs = append(divs, engine.Div{Prop: in.ad.PropC12, Sig: "tarimpl done " + situationOfEvents(in.events) + " dest state " + c,
				Detail: d + "; destination: " + Describe(tree)})
		}
	}
	return divs
}

func parentOf(p string) string {
	i := strings.LastIndexByte(p, '/')
	if i < 0 {
		return "."
	}
	return p[:i]
}

func (in *ImplInst) describeDst() string {
	t, _ := Walk(in.inner, nil)
	return Describe(t)
}

// CheckDst compares the destination with the model's dst function (kinds, permission bits, written bytes).
func (in *ImplInst) CheckDst(label string) []engine.Div {
	s := in.cur
	tree, _ := Walk(in.inner, nil)
	var bad, foreign []string
	seen := map[string]bool{}
	s.F("dst").Pairs(func(k, v *tla.Value) {
		if k.K != tla.Seq && k.K != tla.Str {
			return
		}
		p := PathStr(k)
		seen[p] = true
		if p == "." {
			return
		}
		g := tree[p]
		if g == nil {
			bad = append(bad, "missing "+p)
			return
		}
		if g.Kind != v.F("k").S {
			bad = append(bad, "kind "+p)
			return
		}
		if wp := v.F("perm").I; wp >= 0 && wp != g.Perm {
			bad = append(bad, fmt.Sprintf("perm %s real %o model %o", p, g.Perm, wp))
		}
		if g.Kind == "file" {
			idx := in.sched.byPath[p]
			full := Content(idx, Size(in.entries[idx-1].Sz))
			w, nw := int(v.F("w").I), int(v.F("nw").I)
			lo, hi := boundary(w, len(full)), len(full)
			if w < nw {
				hi = boundary(w+1, len(full)) - 1
				if hi < lo {
					hi = lo
				}
			}
			if len(g.Data) <= len(full) && !bytes.Equal(g.Data, full[:len(g.Data)]) {
				// not a prefix of the entry's own content: no schedule of the writers explains bytes of another entry
				// (or garbage) in this file - a defect, not drift of the step model
				foreign = append(foreign, fmt.Sprintf("%s holds %d bytes that are not a prefix of its entry's content", p, len(g.Data)))
			} else if len(g.Data) < lo || len(g.Data) > hi {
				bad = append(bad, fmt.Sprintf("data %s real %d bytes, model %d..%d", p, len(g.Data), lo, hi))
			}
		}
	})
	for p := range tree {
		if !seen[p] {
			bad = append(bad, "extra "+p)
		}
	}
	if len(foreign) > 0 {
		sort.Strings(foreign)
		d := strings.Join(foreign, "; ") + " | real: " + Describe(tree)
		return []engine.Div{{Prop: in.ad.PropC13, Sig: "tarimpl " + label + " dest foreign-bytes", Detail: d},
			{Prop: in.ad.PropC12, Sig: "tarimpl " + label + " dest foreign-bytes", Detail: d}}
	}
	if len(bad) == 0 {
		return nil
	}
	sort.Strings(bad)
	return []engine.Div{{Prop: "SPEC", Sig: "tarimpl " + label + " drift-dst " + strings.Fields(bad[0])[0], Detail: strings.Join(bad, "; ") + " | real: " + Describe(tree)}}
}

// boundary is the number of bytes in a file after w complete Write calls.
func boundary(w, full int) int {
	if w <= 0 {
		return 0
	}
	b := smallBuf + (w-1)*bigBuf
	if full <= smallBuf || b > full {
		return full
	}
	return b
}
