package tarad

import (
	"bytes"
	"context"
	"errors"
	"fmt"
	"sort"
	"strings"
	"time"

	"github.com/hack-pad/hackpadfs"
	"github.com/hack-pad/hackpadfs/mem"
	hptar "github.com/hack-pad/hackpadfs/tar"
	"verif/harness/engine"
	"verif/harness/fsad"
	"verif/harness/tla"
)

// Watchdog bounds every wait for Done() / Open of the real code.
var Watchdog = 20 * time.Second

// ReqAdapter binds SpecReq of Tar.tla (one line per archive, call "unpack") to tar.NewReaderFS.
//
//	tar:default  no UnarchiveFS option (the package's own mem.FS); only the ReaderFS can be inspected
//	tar:mem      an explicit mem.FS
//	tar:min      a wrapper exposing only Open, OpenFile, Chmod, Mkdir over a mem.FS
//	tar:writefail  a mem.FS whose file handles fail every Write after a short delay (a full disk): the stream has
//	             ended by then, so all background writers fail together. Judged: the unpack terminates (Done closes,
//	             no hang) and, when a non-empty regular entry was expected to unpack, UnarchiveErr reports a failure
type ReqAdapter struct {
	Kind   string
	Prop   string
	Repeat int // free-running repetitions per archive (schedules of the background writers are sampled)
}

func (a *ReqAdapter) Name() string { return a.Kind }

func (a *ReqAdapter) New(init *tla.Value) (engine.Instance, error) {
	in := &reqInst{ad: a}
	if init != nil {
		in.entries = EntriesOf(init.F("ar"))
	}
	return in, nil
}

type reqInst struct {
	ad      *ReqAdapter
	entries []Entry
}

func (in *reqInst) Dirty() bool { return false }
func (in *reqInst) Close()      {}

// MinFS exposes exactly the interfaces tar.ReaderFSOptions.UnarchiveFS requires.
type MinFS struct{ In *mem.FS }

func (m MinFS) Open(name string) (hackpadfs.File, error) { return m.In.Open(name) }
func (m MinFS) OpenFile(name string, flag int, perm hackpadfs.FileMode) (hackpadfs.File, error) {
	return m.In.OpenFile(name, flag, perm)
}
func (m MinFS) Mkdir(name string, perm hackpadfs.FileMode) error { return m.In.Mkdir(name, perm) }
func (m MinFS) Chmod(name string, mode hackpadfs.FileMode) error { return m.In.Chmod(name, mode) }

// Node is one projected entry of a tree.
type Node struct {
	Kind string
	Perm int64
	Data []byte
}

// ReqObs is what one unpack did.
type ReqObs struct {
	Err      error // NewReaderFS error
	Hang     bool
	Uerr     error
	Views    map[string]map[string]*Node // "readerfs" / "dest" -> path -> node
	Problems []string
	Run      int
}

func (o ReqObs) String() string {
	if o.Hang {
		return "HANG: Done() not closed within the watchdog"
	}
	if o.Err != nil {
		return "NewReaderFS: " + o.Err.Error()
	}
	s := fmt.Sprintf("UnarchiveErr=%v", o.Uerr)
	for _, v := range []string{"readerfs", "dest"} {
		if t, ok := o.Views[v]; ok {
			s += " " + v + ": " + Describe(t)
		}
	}
	return s
}

// Describe renders a projected tree without dumping file contents.
func Describe(t map[string]*Node) string {
	var ps []string
	for p := range t {
		ps = append(ps, p)
	}
	sort.Strings(ps)
	var b strings.Builder
	for _, p := range ps {
		n := t[p]
		if n.Kind == "dir" {
			fmt.Fprintf(&b, "%s/ %o; ", p, n.Perm)
		} else {
			fmt.Fprintf(&b, "%s %o %dB; ", p, n.Perm, len(n.Data))
		}
	}
	return b.String()
}

// Walk lists every path reachable from the root of fs (by directory listings) plus the given candidates that
// Stat finds, and projects them (kind, permission bits, bytes).
func Walk(fs hackpadfs.FS, candidates []string) (map[string]*Node, []string) {
	seen := map[string]bool{}
	var all []string
	add := func(p string) {
		if !seen[p] && p != "." {
			seen[p] = true
			all = append(all, p)
		}
	}
	var problems []string
	func() {
		defer func() {
			if r := recover(); r != nil {
				problems = append(problems, fmt.Sprint("panic-in-walk: ", r))
			}
		}()
		err := hackpadfs.WalkDir(fs, ".", func(p string, d hackpadfs.DirEntry, err error) error {
			if err != nil {
				problems = append(problems, fmt.Sprintf("walk-error %s: %v", p, err))
				return nil
			}
			add(p)
			return nil
		})
		if err != nil {
			problems = append(problems, fmt.Sprintf("walk-error: %v", err))
		}
	}()
	for _, c := range candidates {
		if hackpadfs.ValidPath(c) {
			add(c)
		}
	}
	tree, probs := fsad.Project(fs, all)
	problems = append(problems, probs...)
	out := map[string]*Node{}
	for p, e := range tree {
		out[p] = &Node{Kind: e.Kind, Perm: e.Perm, Data: e.Data}
	}
	return out, problems
}

func (in *reqInst) Apply(call *tla.Value) any {
	n := in.ad.Repeat
	if n <= 0 {
		n = 1
	}
	var runs []ReqObs
	for run := 0; run < n; run++ {
		o := in.unpack()
		o.Run = run
		runs = append(runs, o)
		if o.Err != nil || o.Hang {
			break
		}
	}
	return runs
}

func (in *reqInst) unpack() (o ReqObs) {
	l, err := Build(in.entries)
	if err != nil {
		o.Err = fmt.Errorf("harness: cannot build archive: %w", err)
		return o
	}
	var opts hptar.ReaderFSOptions
	var dest hackpadfs.FS
	switch in.ad.Kind {
	case "tar:default":
	case "tar:mem":
		m, _ := mem.NewFS()
		opts.UnarchiveFS, dest = m, m
	case "tar:min":
		m, _ := mem.NewFS()
		opts.UnarchiveFS, dest = MinFS{m}, m
	case "tar:writefail":
		m, _ := mem.NewFS()
		opts.UnarchiveFS = writeFailFS{m}
	default:
		panic("unknown tar adapter " + in.ad.Kind)
	}
	rfs, err := hptar.NewReaderFS(context.Background(), bytes.NewReader(l.Data), opts)
	if err != nil {
		o.Err = err
		return o
	}
	tm := time.NewTimer(Watchdog)
	defer tm.Stop()
	select {
	case <-rfs.Done():
	case <-tm.C:
		o.Hang = true
		return o
	}
	o.Uerr = rfs.UnarchiveErr()
	var cands []string
	for _, e := range in.entries {
		cands = append(cands, Resolve(e.Raw))
	}
	o.Views = map[string]map[string]*Node{}
	if o.Uerr == nil {
		// after a failed unpack every Open of the ReaderFS fails by design; only the destination can be inspected
		t, p := Walk(rfs, cands)
		o.Views["readerfs"] = t
		for _, x := range p {
			o.Problems = append(o.Problems, "readerfs "+x)
		}
	}
	if dest != nil {
		t, p := Walk(dest, cands)
		o.Views["dest"] = t
		for _, x := range p {
			o.Problems = append(o.Problems, "dest "+x)
		}
	}
	return o
}

type cmp struct{ what, detail string }

// writeFailFS: every Write through a handle opened for writing fails after a short delay.
type writeFailFS struct{ *mem.FS }

func (w writeFailFS) OpenFile(name string, flag int, perm hackpadfs.FileMode) (hackpadfs.File, error) {
	f, err := w.FS.OpenFile(name, flag, perm)
	if err != nil || flag&(hackpadfs.FlagWriteOnly|hackpadfs.FlagReadWrite) == 0 {
		return f, err
	}
	return writeFailFile{f}, nil
}

type writeFailFile struct{ hackpadfs.File }

func (w writeFailFile) Write(p []byte) (int, error) {
	time.Sleep(15 * time.Millisecond)
	return 0, errors.New("injected: no space left on device")
}

// CompareTree compares a projected tree with the model's expected tree (function path -> [k, perm, src]).
// subset: only "what exists must be expected" (failed unpack).
func CompareTree(view string, got map[string]*Node, want *tla.Value, entries []Entry, subset bool) []cmp {
	exp := map[string]*tla.Value{}
	want.Pairs(func(k, v *tla.Value) {
		if k.K == tla.Seq {
			exp[PathStr(k)] = v
		}
	})
	cls := map[string]string{}
	note := func(c, d string) {
		if _, ok := cls[c]; !ok {
			cls[c] = d
		}
	}
	for p, w := range exp {
		g := got[p]
		if g == nil {
			if !subset {
				note("missing-path", p)
			}
			continue
		}
		if g.Kind != w.F("k").S {
			note("kind", p)
			continue
		}
		if subset {
			continue
		}
		if wp := w.F("perm").I; wp >= 0 && wp != g.Perm {
			note("perm", fmt.Sprintf("%s has %o, archive says %o", p, g.Perm, wp))
		}
		if g.Kind == "file" {
			src := int(w.F("src").I)
			full := Content(src, Size(entries[src-1].Sz))
			if !bytes.Equal(g.Data, full) {
				if len(g.Data) < len(full) && bytes.Equal(g.Data, full[:len(g.Data)]) {
					note("data-prefix", fmt.Sprintf("%s holds %d of %d bytes", p, len(g.Data), len(full)))
				} else {
					note("data", fmt.Sprintf("%s holds %d bytes that are not the entry's %d bytes", p, len(g.Data), len(full)))
				}
			}
		}
	}
	for p := range got {
		if exp[p] == nil {
			note("extra-path", p)
		}
	}
	var ks []string
	for c := range cls {
		ks = append(ks, c)
	}
	sort.Strings(ks)
	var out []cmp
	for _, c := range ks {
		out = append(out, cmp{"state " + c, view + ": " + cls[c]})
	}
	return out
}

func (in *reqInst) compare(tr *tla.Value, o ReqObs) []cmp {
	var out []cmp
	exp := tr.F("e").S
	switch {
	case o.Hang:
		return []cmp{{"exp=" + exp + " got=HANG", o.String()}}
	case o.Err != nil:
		return []cmp{{"exp=" + exp + " got=CONSTRUCTOR-ERR", o.String()}}
	}
	if in.ad.Kind == "tar:writefail" {
		// only termination (above) and fault surfacing are judged on the failing destination
		nonEmpty := false
		for _, e := range in.entries {
			if e.Kind == "file" && Size(e.Sz) > 0 {
				nonEmpty = true
			}
		}
		if exp == "ok" && nonEmpty && o.Uerr == nil {
			out = append(out, cmp{"exp=ERR-of-failed-write got=ok", o.String()})
		}
		return out
	}
	if exp == "ok" && o.Uerr != nil {
		out = append(out, cmp{"exp=ok got=ERR", o.String()})
	}
	if exp == "FAIL" && o.Uerr == nil {
		out = append(out, cmp{"exp=FAIL got=ok", o.String()})
	}
	for _, p := range o.Problems {
		if o.Uerr != nil && !strings.Contains(p, "panic") {
			// after a failed unpack the background writers may still be running (the reader does not wait for them):
			// read errors of a tree that is being written are not judged
			continue
		}
		f := strings.Fields(p)
		out = append(out, cmp{"projection " + f[1], p})
	}
	for _, v := range []string{"readerfs", "dest"} {
		if t, ok := o.Views[v]; ok {
			for _, c := range CompareTree(v, t, tr.F("tree"), in.entries, exp == "FAIL" || o.Uerr != nil) {
				c.detail += " | " + o.String()
				out = append(out, c)
			}
		}
	}
	return out
}

func (in *reqInst) sig(tr *tla.Value, what string) string {
	return fmt.Sprintf("%s unpack %s %s", in.ad.Kind, tr.F("b").S, what)
}

func (in *reqInst) CheckResult(call, tr *tla.Value, obsAny any) []engine.Div {
	var divs []engine.Div
	seen := map[string]bool{}
	for _, o := range obsAny.([]ReqObs) {
		for _, c := range in.compare(tr, o) {
			if !seen[c.what] {
				seen[c.what] = true
				divs = append(divs, engine.Div{Prop: in.ad.Prop, Sig: in.sig(tr, c.what), Detail: fmt.Sprintf("run %d: %s", o.Run, c.detail)})
			}
		}
	}
	return divs
}

func (in *reqInst) CheckState(exp *tla.Value, call, tr *tla.Value) []engine.Div { return nil }
