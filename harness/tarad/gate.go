package tarad

import (
	"errors"
	"fmt"
	"io"
	"runtime"
	"sort"
	"strings"
	"sync"
	"time"

	"github.com/hack-pad/hackpadfs"
)

// ErrInjected is the failure injected into destination calls and into the archive stream.
var ErrInjected = errors.New("injected failure")

// goid returns the id of the calling goroutine (used only to tell the reader goroutine, the background
// writers and the harness's own opener goroutines apart inside the wrappers).
func goid() int64 {
	var buf [64]byte
	n := runtime.Stack(buf[:], false)
	// "goroutine 123 [running]:..."
	var id int64
	for _, c := range buf[10:n] {
		if c < '0' || c > '9' {
			break
		}
		id = id*10 + int64(c-'0')
	}
	return id
}

// Thread ids as in Tar.tla: 0 reader, 1..N background writer of entry i, 10+c client c.
const clientBase = 10

// Gate describes where a thread is held.
type Gate struct {
	Kind string // stream / mkdir / chmod / openfile / write / open
	Path string // destination path; for stream the byte offset
}

func (g Gate) String() string { return g.Kind + "(" + g.Path + ")" }

type heldThread struct {
	gate    Gate
	gid     int64
	release chan bool // true: proceed, false: fail with ErrInjected
}

// Sched holds every gated thread of one tar.ReaderFS instance and lets a driver release them one at a time.
type Sched struct {
	mu       sync.Mutex
	cond     *sync.Cond
	held     map[int]*heldThread
	draining bool
	readerG  int64
	clientG  map[int64]int // goroutine id -> client number
	byPath   map[string]int
	returned map[int]*ClientRes
	done     bool
	doneErr  bool          // UnarchiveErr() != nil when Done() closed
	inflight int           // released destination calls that have not returned yet
	gids     map[int]int64 // thread -> goroutine id seen at its last gate
	log      []string
	unknown  []string // calls by goroutines that could not be attributed
}

func NewSched(entries []Entry) *Sched {
	s := &Sched{held: map[int]*heldThread{}, clientG: map[int64]int{}, byPath: map[string]int{}, returned: map[int]*ClientRes{}}
	s.cond = sync.NewCond(&s.mu)
	for i, e := range entries {
		s.byPath[Resolve(e.Raw)] = i + 1
	}
	return s
}

// arrive blocks the calling thread at a gate until it is released; returns false when the call has to fail.
func (s *Sched) arrive(t int, g Gate) bool {
	s.mu.Lock()
	if s.draining {
		s.mu.Unlock()
		return true
	}
	h := &heldThread{gate: g, gid: goid(), release: make(chan bool, 1)}
	s.held[t] = h
	if s.gids == nil {
		s.gids = map[int]int64{}
	}
	s.gids[t] = h.gid
	if len(s.log) < 400 {
		s.log = append(s.log, fmt.Sprintf("T%d@%s", t, g))
	}
	s.cond.Broadcast()
	s.mu.Unlock()
	return <-h.release
}

// Release lets thread t pass its gate (ok) or fail there (!ok). Reports whether t was held.
func (s *Sched) Release(t int, ok bool) bool {
	s.mu.Lock()
	h := s.held[t]
	delete(s.held, t)
	if h != nil {
		s.inflight++
	}
	s.mu.Unlock()
	if h == nil {
		return false
	}
	h.release <- ok
	return true
}

// returned marks the end of a released destination call.
func (s *Sched) callReturned() {
	s.mu.Lock()
	if s.inflight > 0 {
		s.inflight--
	}
	s.cond.Broadcast()
	s.mu.Unlock()
}

// WaitGone waits until the goroutine that thread t ran on has exited or is blocked sending on a channel
// (a failing background writer whose error does not fit into errs). Best effort, bounded.
func (s *Sched) WaitGone(t int) {
	s.mu.Lock()
	gid := s.gids[t]
	s.mu.Unlock()
	if gid == 0 {
		return
	}
	needle := fmt.Sprintf("goroutine %d [", gid)
	buf := make([]byte, 1<<20)
	for i := 0; i < 2000; i++ {
		n := runtime.Stack(buf, true)
		d := string(buf[:n])
		k := strings.Index(d, needle)
		if k < 0 {
			return
		}
		st := d[k+len(needle):]
		if e := strings.IndexByte(st, ']'); e >= 0 && strings.HasPrefix(st[:e], "chan send") {
			return
		}
		if i < 20 {
			runtime.Gosched()
		} else {
			time.Sleep(50 * time.Microsecond)
		}
	}
}

// Drain opens every gate for good.
func (s *Sched) Drain() {
	s.mu.Lock()
	s.draining = true
	hs := s.held
	s.held = map[int]*heldThread{}
	s.cond.Broadcast()
	s.mu.Unlock()
	for _, h := range hs {
		if h.release != nil {
			h.release <- true
		}
	}
}

// thread attributes a destination call to a model thread.
func (s *Sched) thread(path string) int {
	g := goid()
	s.mu.Lock()
	defer s.mu.Unlock()
	if g == s.readerG {
		return 0
	}
	if c, ok := s.clientG[g]; ok {
		return clientBase + c
	}
	if i, ok := s.byPath[path]; ok {
		return i
	}
	s.unknown = append(s.unknown, path)
	return -99
}

// Config is the observable configuration: which thread is held where, which clients returned what, Done closed.
func (s *Sched) configLocked() string {
	var parts []string
	for t, h := range s.held {
		parts = append(parts, fmt.Sprintf("T%d@%s", t, h.gate))
	}
	for c, r := range s.returned {
		parts = append(parts, fmt.Sprintf("C%d=%s", c, r.Class))
	}
	if s.done {
		if s.doneErr {
			parts = append(parts, "DONE:err")
		} else {
			parts = append(parts, "DONE:ok")
		}
	}
	sort.Strings(parts)
	return strings.Join(parts, " ")
}

// WaitConfig waits until the observed configuration equals one of the expected ones; returns its index or -1
// and the configuration seen last.
func (s *Sched) WaitConfig(expected []string, timeout time.Duration) (int, string) {
	deadline := time.Now().Add(timeout)
	tm := time.AfterFunc(timeout+time.Millisecond, func() {
		s.mu.Lock()
		s.cond.Broadcast()
		s.mu.Unlock()
	})
	defer tm.Stop()
	s.mu.Lock()
	defer s.mu.Unlock()
	for {
		c := s.configLocked()
		if s.inflight == 0 {
			for i, e := range expected {
				if e == c {
					return i, c
				}
			}
		}
		if time.Now().After(deadline) {
			return -1, c
		}
		s.cond.Wait()
	}
}

func (s *Sched) note(f func()) {
	s.mu.Lock()
	f()
	s.cond.Broadcast()
	s.mu.Unlock()
}

// ---------------------------------------------------------------------------------------------------
// Stream serves the archive bytes only up to a released budget and can end or fail at any offset.
type Stream struct {
	s      *Sched
	data   []byte
	pos    int
	budget int
	cutAt  int   // -1: none
	cutErr error // io.EOF or ErrInjected, returned at cutAt
	mu     sync.Mutex
	cond   *sync.Cond
	free   bool
	// waitingAt is the offset at which the reader is blocked for more budget (-1: not blocked)
	waitingAt int
}

func NewStream(s *Sched, data []byte) *Stream {
	st := &Stream{s: s, data: data, cutAt: -1, waitingAt: -1}
	st.cond = sync.NewCond(&st.mu)
	return st
}

func (st *Stream) Read(p []byte) (int, error) {
	if st.s != nil {
		st.s.mu.Lock()
		if st.s.readerG == 0 {
			st.s.readerG = goid()
		}
		st.s.mu.Unlock()
	}
	st.mu.Lock()
	defer st.mu.Unlock()
	for {
		limit := st.budget
		if st.free {
			limit = len(st.data)
		}
		if st.cutAt >= 0 && st.cutAt < limit {
			limit = st.cutAt
		}
		if st.pos < limit {
			n := copy(p, st.data[st.pos:limit])
			st.pos += n
			return n, nil
		}
		if st.cutAt >= 0 && st.pos >= st.cutAt {
			return 0, st.cutErr
		}
		if st.pos >= len(st.data) {
			return 0, io.EOF
		}
		if len(p) == 0 {
			return 0, nil
		}
		// held at the stream gate
		if st.s != nil {
			pos := st.pos
			st.s.note(func() {
				if !st.s.draining {
					st.s.held[0] = &heldThread{gate: Gate{"stream", fmt.Sprint(pos)}}
				}
			})
		}
		st.waitingAt = st.pos
		st.cond.Wait()
		st.waitingAt = -1
	}
}

// Allow raises the budget to off (absolute offset) and wakes the reader.
func (st *Stream) Allow(off int) {
	if st.s != nil {
		st.s.note(func() { delete(st.s.held, 0) })
	}
	st.mu.Lock()
	if off > st.budget {
		st.budget = off
	}
	st.cond.Broadcast()
	st.mu.Unlock()
}

// Cut makes the stream return err once off is reached (bytes before off are still served).
func (st *Stream) Cut(off int, err error) {
	if st.s != nil {
		st.s.note(func() { delete(st.s.held, 0) })
	}
	st.mu.Lock()
	st.cutAt, st.cutErr = off, err
	if off > st.budget {
		st.budget = off
	}
	st.cond.Broadcast()
	st.mu.Unlock()
}

// Free serves everything that is left.
func (st *Stream) Free() {
	st.mu.Lock()
	st.free = true
	st.cond.Broadcast()
	st.mu.Unlock()
}

// Pos is the number of bytes served so far.
func (st *Stream) Pos() int {
	st.mu.Lock()
	defer st.mu.Unlock()
	return st.pos
}

// ---------------------------------------------------------------------------------------------------
// Dst is a destination FS exposing only Open, OpenFile, Chmod, Mkdir; the mutating calls (and Open by a
// registered client) are gates.
type Dst struct {
	S  *Sched
	In interface {
		hackpadfs.OpenFileFS
		hackpadfs.ChmodFS
		hackpadfs.MkdirFS
	}
}

func (d *Dst) Open(name string) (hackpadfs.File, error) {
	g := goid()
	d.S.mu.Lock()
	c, isClient := d.S.clientG[g]
	d.S.mu.Unlock()
	if isClient {
		if !d.S.arrive(clientBase+c, Gate{"open", name}) {
			d.S.callReturned()
			return nil, &hackpadfs.PathError{Op: "open", Path: name, Err: ErrInjected}
		}
		defer d.S.callReturned()
	}
	return d.In.Open(name)
}

func (d *Dst) Mkdir(name string, perm hackpadfs.FileMode) error {
	if !d.S.arrive(d.S.thread(name), Gate{"mkdir", name}) {
		d.S.callReturned()
		return &hackpadfs.PathError{Op: "mkdir", Path: name, Err: ErrInjected}
	}
	defer d.S.callReturned()
	return d.In.Mkdir(name, perm)
}

func (d *Dst) Chmod(name string, mode hackpadfs.FileMode) error {
	if !d.S.arrive(d.S.thread(name), Gate{"chmod", name}) {
		d.S.callReturned()
		return &hackpadfs.PathError{Op: "chmod", Path: name, Err: ErrInjected}
	}
	defer d.S.callReturned()
	return d.In.Chmod(name, mode)
}

func (d *Dst) OpenFile(name string, flag int, perm hackpadfs.FileMode) (hackpadfs.File, error) {
	t := d.S.thread(name)
	if !d.S.arrive(t, Gate{"openfile", name}) {
		d.S.callReturned()
		return nil, &hackpadfs.PathError{Op: "open", Path: name, Err: ErrInjected}
	}
	defer d.S.callReturned()
	f, err := d.In.OpenFile(name, flag, perm)
	if err != nil {
		return nil, err
	}
	return &dstFile{File: f, d: d, t: t, name: name}, nil
}

type dstFile struct {
	hackpadfs.File
	d    *Dst
	t    int
	name string
}

func (f *dstFile) Write(p []byte) (int, error) {
	if !f.d.S.arrive(f.t, Gate{"write", f.name}) {
		f.d.S.callReturned()
		return 0, &hackpadfs.PathError{Op: "write", Path: f.name, Err: ErrInjected}
	}
	defer f.d.S.callReturned()
	return hackpadfs.WriteFile(f.File, p)
}

// ClientRes is what one opener goroutine got.
type ClientRes struct {
	Class string // full / prefix / corrupt / dir / ENOENT / FAIL / HANG
	Len   int
	Want  int
	Err   error
}
