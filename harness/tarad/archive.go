// Package tarad binds Tar.tla (TarReq / TarImpl), PubSub.tla and BufferPool.tla to the real tar package.
package tarad

import (
	"archive/tar"
	"bytes"
	"fmt"
	"strings"
	"sync"

	"verif/harness/tla"
)

const (
	kib      = 1 << 10
	mib      = 1 << 20
	smallBuf = 150 * kib // first read of every file (tar/fs.go smallBufMemory)
	bigBuf   = 4 * mib   // copy buffer (tar/fs.go bigBufMemory)
)

// Entry is one archive entry of the model.
type Entry struct {
	Kind string // "dir" / "file"
	Perm int64
	Raw  []string // raw name tokens; joined with "/"
	Sz   string   // size class
}

// Name is the raw entry name as written into the tar header.
func (e Entry) Name() string { return strings.Join(e.Raw, "/") }

// Size maps a size class of the model to the concrete number of bytes.
func Size(class string) int {
	switch class {
	case "0":
		return 0
	case "1":
		return 1
	case "75k":
		return 75 * kib
	case "150k-1":
		return smallBuf - 1
	case "150k":
		return smallBuf
	case "150k+1":
		return smallBuf + 1
	case "155k":
		return 158600
	case "4m":
		return bigBuf + smallBuf + 1
	}
	panic("unknown size class " + class)
}

var contentCache sync.Map

// Content returns the position-dependent bytes of the file entry with (1-based) index idx.
func Content(idx int, size int) []byte {
	key := [2]int{idx, size}
	if v, ok := contentCache.Load(key); ok {
		return v.([]byte)
	}
	b := make([]byte, size)
	for k := range b {
		b[k] = byte(k*7 + (k>>8)*13 + (k>>16)*31 + idx*101 + 1)
	}
	contentCache.Store(key, b)
	return b
}

// EntriesOf parses the model's archive (sequence of entry records).
func EntriesOf(ar *tla.Value) []Entry {
	out := make([]Entry, len(ar.E))
	for i := range ar.E {
		e := &ar.E[i]
		out[i] = Entry{Kind: e.F("k").S, Perm: e.F("perm").I, Raw: e.F("raw").Strs(), Sz: e.F("sz").S}
	}
	return out
}

// Resolve is tar/fs.go's resolvePath on token sequences (mirror of Tar.tla Resolve, used only to name gates and
// to find the entry a destination call belongs to; expectations always come from the model).
func Resolve(raw []string) string {
	rooted := len(raw) >= 2 && raw[0] == ""
	var stk []string
	for _, t := range raw {
		switch {
		case t == "" || t == ".":
		case t == "..":
			if len(stk) > 0 && stk[len(stk)-1] != ".." {
				stk = stk[:len(stk)-1]
			} else if !rooted {
				stk = append(stk, "..")
			}
		default:
			stk = append(stk, t)
		}
	}
	if len(stk) == 0 {
		return "."
	}
	return strings.Join(stk, "/")
}

// PathStr renders a model path (sequence of names; << >> is the root).
func PathStr(p *tla.Value) string {
	if len(p.E) == 0 {
		return "."
	}
	return strings.Join(p.Strs(), "/")
}

// Layout records where each entry lies in the archive byte stream.
type Layout struct {
	Data     []byte
	HdrStart []int // per entry (0-based)
	DataAt   []int
	DataEnd  []int
	PadEnd   []int
	Trailer  int // offset of the first trailer block
}

// Build writes the archive with archive/tar (USTAR headers, two zero blocks at the end).
func Build(entries []Entry) (*Layout, error) {
	var buf bytes.Buffer
	w := tar.NewWriter(&buf)
	l := &Layout{}
	for i, e := range entries {
		if err := w.Flush(); err != nil {
			return nil, err
		}
		l.HdrStart = append(l.HdrStart, buf.Len())
		h := &tar.Header{Name: e.Name(), Mode: e.Perm, Format: tar.FormatUSTAR}
		var data []byte
		if e.Kind == "dir" {
			h.Typeflag = tar.TypeDir
		} else {
			h.Typeflag = tar.TypeReg
			data = Content(i+1, Size(e.Sz))
			h.Size = int64(len(data))
		}
		if err := w.WriteHeader(h); err != nil {
			return nil, fmt.Errorf("entry %q: %w", e.Name(), err)
		}
		l.DataAt = append(l.DataAt, buf.Len())
		if len(data) > 0 {
			if _, err := w.Write(data); err != nil {
				return nil, err
			}
		}
		l.DataEnd = append(l.DataEnd, buf.Len())
		if err := w.Flush(); err != nil {
			return nil, err
		}
		l.PadEnd = append(l.PadEnd, buf.Len())
	}
	l.Trailer = buf.Len()
	if err := w.Close(); err != nil {
		return nil, err
	}
	l.Data = buf.Bytes()
	return l, nil
}
