package tarad

import (
	"bufio"
	"fmt"
	"io"
	"math/rand"
	"os"
	"sort"
	"strings"
	"sync"
	"sync/atomic"
	"time"

	"verif/harness/engine"
	"verif/harness/tla"
)

// WalkOptions configure RunGraph.
type WalkOptions struct {
	Workers int
	Sample  float64 // fraction of non-initial states whose transitions are replayed
	Seed    int64
	Budget  time.Duration // stop handing out states after this long (0: none); reported as not exhaustive
	// RaceReps: every transition with more than one predicted outcome (a race between internal steps that no gate
	// can force) is repeated this many times from a fresh instance, so that the rare outcome shows up
	RaceReps int
}

var debugDivs = os.Getenv("VERIF_TAR_DEBUG") != ""

type gnode struct {
	raw   string   // state text (key)
	trs   []string // raw transitions [a, ns, t]
	succ  [][]string
	par   string // BFS parent key
	parTr int    // index of the transition in the parent
	depth int
	racy  bool    // reached through a transition with more than one outcome
	taken []int32 // per transition: claimed by a worker
}

// RunGraph reads the gate-level graph TLC printed (SpecGate of Tar.tla), rebuilds every state on a fresh gated
// ReaderFS through its BFS chain and forces every transition out of it onto the real code.
func RunGraph(r io.Reader, ad *ImplAdapter, opt WalkOptions) (*engine.Summary, error) {
	start := time.Now()
	if opt.Workers <= 0 {
		opt.Workers = 8
	}
	if opt.Sample <= 0 || opt.Sample > 1 {
		opt.Sample = 1
	}
	sum := &engine.Summary{Module: "tarimpl", Adapter: ad.Name(), Branches: map[string]int64{}, SampledFraction: opt.Sample, ExtraCounters: map[string]int64{}}
	nodes := map[string]*gnode{}
	var order []string
	isSucc := map[string]bool{}
	rd := bufio.NewReaderSize(r, 1<<20)
	var tail []string
	for {
		line, err := rd.ReadString('\n')
		if len(line) > 0 {
			if !strings.HasPrefix(line, "\"[") {
				if len(tail) >= 400 {
					tail = tail[1:]
				}
				tail = append(tail, strings.TrimRight(line, "\n"))
			} else {
				v, perr := tla.Parse(tla.Unquote(line))
				if perr != nil {
					sum.ParseErrors++
				} else if s := v.Get("s"); s != nil {
					n := &gnode{raw: Canon(s)}
					for i := range v.F("r").E {
						tr := &v.F("r").E[i]
						n.trs = append(n.trs, strings.Clone(tr.Raw))
						var ss []string
						for k := range tr.F("ns").E {
							key := Canon(&tr.F("ns").E[k])
							ss = append(ss, key)
							isSucc[key] = true
						}
						n.succ = append(n.succ, ss)
						sum.Transitions++
					}
					n.taken = make([]int32, len(n.trs))
					nodes[n.raw] = n
					order = append(order, n.raw)
					sum.States++
				}
			}
		}
		if err != nil {
			break
		}
	}
	sum.TlcTail = strings.Join(tail, "\n")
	// BFS from the initial states (states nobody leads to), preferring deterministic transitions
	var queue []string
	depthSet := map[string]bool{}
	for _, k := range order {
		if !isSucc[k] {
			queue = append(queue, k)
			depthSet[k] = true
			if sum.Init == "" {
				sum.Init = k
			}
		}
	}
	for pass := 0; pass < 2; pass++ { // pass 0: deterministic edges only; pass 1: the rest
		q := append([]string(nil), queue...)
		if pass == 1 {
			q = q[:0]
			for _, k := range order {
				if depthSet[k] {
					q = append(q, k)
				}
			}
			sort.SliceStable(q, func(i, j int) bool { return nodes[q[i]].depth < nodes[q[j]].depth })
		}
		for len(q) > 0 {
			k := q[0]
			q = q[1:]
			n := nodes[k]
			for i, ss := range n.succ {
				if pass == 0 && len(ss) != 1 {
					continue
				}
				for _, s := range ss {
					if depthSet[s] || nodes[s] == nil {
						continue
					}
					depthSet[s] = true
					c := nodes[s]
					c.par, c.parTr, c.depth, c.racy = k, i, n.depth+1, n.racy || len(ss) != 1
					q = append(q, s)
				}
			}
		}
	}
	col := newCollector()
	var replayed, changing, unbuildable, skippedStates, racyT, raceUnreached int64
	var unbuildEx []string
	var mu sync.Mutex
	rng := rand.New(rand.NewSource(opt.Seed))
	jobs := make(chan *gnode, opt.Workers*2)
	var wg sync.WaitGroup
	for w := 0; w < opt.Workers; w++ {
		wg.Add(1)
		go func() {
			defer wg.Done()
			for n := range jobs {
				rp, racy, ok := processNode(ad, nodes, n, col)
				atomic.AddInt64(&replayed, rp)
				atomic.AddInt64(&changing, rp)
				atomic.AddInt64(&racyT, racy)
				if !ok && n.racy {
					// reachable only through a race whose other outcome the real code took in every attempt
					atomic.AddInt64(&raceUnreached, 1)
				} else if !ok {
					atomic.AddInt64(&unbuildable, 1)
					mu.Lock()
					if len(unbuildEx) < 5 {
						unbuildEx = append(unbuildEx, n.raw)
					}
					mu.Unlock()
				}
			}
		}()
	}
	for _, k := range order {
		n := nodes[k]
		if !depthSet[k] {
			continue
		}
		if len(n.trs) == 0 {
			continue
		}
		if n.depth > sum.MaxChain {
			sum.MaxChain = n.depth
		}
		if opt.Sample < 1 && n.par != "" && rng.Float64() >= opt.Sample {
			skippedStates++
			continue
		}
		if opt.Budget > 0 && time.Since(start) > opt.Budget {
			skippedStates++
			continue
		}
		jobs <- n
	}
	close(jobs)
	wg.Wait()
	if opt.RaceReps > 0 {
		type rj struct {
			n *gnode
			i int
		}
		rjobs := make(chan rj, opt.Workers*2)
		var wg2 sync.WaitGroup
		var reps int64
		for w := 0; w < opt.Workers; w++ {
			wg2.Add(1)
			go func() {
				defer wg2.Done()
				for j := range rjobs {
					init, chain, want := chainTo(nodes, j.n)
					for r := 0; r < opt.RaceReps; r++ {
						if opt.Budget > 0 && time.Since(start) > opt.Budget*2 {
							break
						}
						inst, built := build(ad, init, chain, want)
						if !built {
							break
						}
						tr := tla.MustParse(j.n.trs[j.i])
						_, divs := inst.Step(&tr)
						for _, d := range divs {
							col.add(d, engine.Example{Init: init, State: j.n.raw, History: chain, Call: j.n.trs[j.i], Expected: `[n |-> "="]`})
						}
						inst.Close()
						atomic.AddInt64(&reps, 1)
					}
				}
			}()
		}
		for _, k := range order {
			n := nodes[k]
			if !depthSet[k] {
				continue
			}
			for i := range n.succ {
				if len(n.succ[i]) > 1 {
					rjobs <- rj{n, i}
				}
			}
		}
		close(rjobs)
		wg2.Wait()
		sum.ExtraCounters["race_repetitions"] = reps
		replayed += reps
	}
	sum.Replayed, sum.StateChanging, sum.Unbuildable, sum.UnbuildableEx = replayed, changing, unbuildable, unbuildEx
	sum.ExtraCounters["states_not_replayed"] = skippedStates
	sum.ExtraCounters["transitions_with_a_race"] = racyT
	sum.ExtraCounters["states_behind_a_race_outcome_not_observed"] = raceUnreached
	col.fill(sum)
	sum.WallS = time.Since(start).Seconds()
	return sum, nil
}

type collector struct {
	mu       sync.Mutex
	divs     map[string]*engine.DivSummary
	branches map[string]int64
	samples  []engine.Example
}

func newCollector() *collector {
	return &collector{divs: map[string]*engine.DivSummary{}, branches: map[string]int64{}}
}

func (c *collector) add(d engine.Div, ex engine.Example) {
	c.mu.Lock()
	defer c.mu.Unlock()
	k := d.Prop + " " + d.Sig
	ex.Detail = d.Detail
	if s, ok := c.divs[k]; ok {
		s.Count++
		if len(ex.History) < len(s.Example.History) {
			s.Example = ex
		}
		return
	}
	c.divs[k] = &engine.DivSummary{Prop: d.Prop, Sig: d.Sig, Count: 1, Example: ex}
}

func (c *collector) fill(sum *engine.Summary) {
	c.mu.Lock()
	defer c.mu.Unlock()
	for _, d := range c.divs {
		sum.Divs = append(sum.Divs, *d)
	}
	sort.Slice(sum.Divs, func(i, j int) bool { return sum.Divs[i].Prop+sum.Divs[i].Sig < sum.Divs[j].Prop+sum.Divs[j].Sig })
	for k, v := range c.branches {
		sum.Branches[k] = v
	}
	sum.Samples = c.samples
}

// chainTo returns the transitions (raw) leading from an initial state to n, and that initial state.
func chainTo(nodes map[string]*gnode, n *gnode) (init string, chain []string, want []string) {
	for n.par != "" {
		p := nodes[n.par]
		chain = append(chain, p.trs[n.parTr])
		want = append(want, n.raw)
		n = p
	}
	for i, j := 0, len(chain)-1; i < j; i, j = i+1, j-1 {
		chain[i], chain[j] = chain[j], chain[i]
		want[i], want[j] = want[j], want[i]
	}
	return n.raw, chain, want
}

// deadEdges: transitions (from-state, transition) that did not go as the model says in any of the attempts of one
// build. Every chain through such an edge would wait out the step timeout again; the divergence itself is reported
// where the edge is replayed as a transition of its source state.
var deadEdges sync.Map

func edgeKey(from, tr string) string { return from + "\x00" + tr }

func build(ad *ImplAdapter, init string, chain, want []string) (*ImplInst, bool) {
	for i := range chain {
		from := init
		if i > 0 {
			from = want[i-1]
		}
		if _, dead := deadEdges.Load(edgeKey(from, chain[i])); dead {
			return nil, false
		}
	}
	failedAt := map[int]int{}
	for try := 0; try < 4; try++ {
		iv := tla.MustParse(init)
		inst0, err := ad.New(&iv)
		if err != nil {
			panic(err)
		}
		inst := inst0.(*ImplInst)
		ok := inst.drift == ""
		if !ok && debugDivs {
			fmt.Fprintf(os.Stderr, "BUILD-DRIFT %s\n  init=%s\n", inst.drift, init)
		}
		for i := 0; ok && i < len(chain); i++ {
			tr := tla.MustParse(chain[i])
			o := inst.Apply(&tr).(ImplObs)
			if o.Matched < 0 || Canon(inst.cur) != want[i] {
				if debugDivs {
					fmt.Fprintf(os.Stderr, "BUILD-MISS step %d/%d %s: %s\n", i, len(chain), DescribeStep(chain[i]), o.String())
				}
				ok = false // a race took the other outcome (or the instance drifted): try again
				failedAt[i]++
			}
		}
		if ok {
			return inst, true
		}
		inst.Close()
	}
	for i, n := range failedAt {
		if n == 4 {
			from := init
			if i > 0 {
				from = want[i-1]
			}
			deadEdges.Store(edgeKey(from, chain[i]), true)
		}
	}
	return nil, false
}

// claim returns the index of a transition of n nobody has replayed yet (and marks it), or -1.
func claim(n *gnode) int {
	for i := range n.taken {
		if atomic.CompareAndSwapInt32(&n.taken[i], 0, 1) {
			return i
		}
	}
	return -1
}

// processNode replays every transition of n that has not been replayed yet. After a transition that went as the
// model says, the same instance continues with an unreplayed transition of the state it is now in (a tour), so
// that a fresh ReaderFS (a 4 MiB buffer each) is not needed per transition.
func processNode(ad *ImplAdapter, nodes map[string]*gnode, n *gnode, col *collector) (replayed, racy int64, ok bool) {
	init, chain, want := chainTo(nodes, n)
	for {
		i := claim(n)
		if i < 0 {
			return replayed, racy, true
		}
		inst, built := build(ad, init, chain, want)
		if !built {
			atomic.StoreInt32(&n.taken[i], 0)
			return replayed, racy, false
		}
		cur, ti := n, i
		hist := chain
		for {
			tr := tla.MustParse(cur.trs[ti])
			before := inst.cur
			o, divs := inst.Step(&tr)
			if o.Matched >= 0 {
				divs = append(divs, inst.CheckDst(StepLabel(before, &tr))...)
			}
			replayed++
			if len(cur.succ[ti]) > 1 {
				racy++
			}
			label := StepLabel(before, &tr)
			col.mu.Lock()
			col.branches[label]++
			if len(col.samples) < 3 && len(hist) >= 4 {
				col.samples = append(col.samples, engine.Example{Init: init, State: cur.raw, History: hist, Call: cur.trs[ti], Expected: `[n |-> "="]`, Detail: "observed: " + o.String()})
			}
			col.mu.Unlock()
			for _, d := range divs {
				if debugDivs {
					fmt.Fprintf(os.Stderr, "DIV %s [%s] depth=%d %s\n   %s\n", d.Prop, d.Sig, len(hist), DescribeStep(cur.trs[ti]), d.Detail)
				}
				col.add(d, engine.Example{Init: init, State: cur.raw, History: hist, Call: cur.trs[ti], Expected: `[n |-> "="]`})
			}
			if len(divs) > 0 || o.Matched < 0 || inst.Dirty() {
				break
			}
			next := nodes[Canon(inst.cur)]
			if next == nil {
				break
			}
			nt := claim(next)
			if nt < 0 {
				break
			}
			hist = append(append([]string(nil), hist...), cur.trs[ti])
			cur, ti = next, nt
		}
		inst.Close()
	}
}

// DescribeStep renders a raw transition for reports.
func DescribeStep(raw string) string {
	v, err := tla.Parse(raw)
	if err != nil {
		return raw
	}
	return fmt.Sprintf("T%d:%s", v.F("t").I, v.F("a").S)
}
