package tarad

import (
	"context"
	"fmt"
	"io"
	"sort"
	"strings"
	"time"

	"github.com/hack-pad/hackpadfs/mem"
	hptar "github.com/hack-pad/hackpadfs/tar"
	"verif/harness/engine"
	"verif/harness/tla"
)

// CutAdapter binds SpecCut of Tar.tla: the archive stream of one fixed archive ends / fails / is corrupted / the
// context is cancelled at every 512-byte block boundary, with 1..8 free-running openers, some started before the
// stream moves and some when the reader has consumed everything before the boundary.
type CutAdapter struct {
	Prop string
	Seed int64
	Reps int // repetitions of every cut inside an entry (the interesting races are narrow)
}

func (a *CutAdapter) Name() string { return "tarcut" }
func (a *CutAdapter) New(init *tla.Value) (engine.Instance, error) {
	in := &cutInst{ad: a}
	if init != nil {
		in.entries = EntriesOf(init.F("ar"))
		l, err := Build(in.entries)
		if err != nil {
			return nil, err
		}
		in.lay = l
	}
	return in, nil
}

type cutInst struct {
	ad      *CutAdapter
	entries []Entry
	lay     *Layout
}

func (in *cutInst) Dirty() bool { return false }
func (in *cutInst) Close()      {}
func (in *cutInst) CheckState(exp *tla.Value, call, tr *tla.Value) []engine.Div {
	return nil
}

// CutObs is what one faulty unpack showed.
type CutObs struct {
	DoneHang bool
	Uerr     error
	Openers  []OpenerObs // during the unpack
	After    []OpenerObs // after Done()
	Tree     map[string]*Node
	Probs    []string
	Err      error
}

type OpenerObs struct {
	Name  string
	When  string // early / late / after
	Res   *ClientRes
	Hangs bool
}

func (o CutObs) String() string {
	s := fmt.Sprintf("UnarchiveErr=%v", o.Uerr)
	if o.DoneHang {
		s = "Done() did not close within the watchdog"
	}
	for _, set := range [][]OpenerObs{o.Openers, o.After} {
		for _, p := range set {
			if p.Hangs {
				s += fmt.Sprintf("; Open(%s) [%s] did not return", p.Name, p.When)
			} else if p.Res.Class == "prefix" || p.Res.Class == "corrupt" {
				s += fmt.Sprintf("; Open(%s) [%s] succeeded with %d of %d bytes", p.Name, p.When, p.Res.Len, p.Res.Want)
			}
		}
	}
	if o.Tree != nil {
		s += "; destination: " + Describe(o.Tree)
	}
	return s
}

func waitHeldOrDone(st *Stream, done <-chan struct{}, limit int, d time.Duration) bool {
	deadline := time.Now().Add(d)
	for {
		st.mu.Lock()
		held := st.waitingAt == limit || st.pos >= len(st.data)
		st.mu.Unlock()
		if held {
			return true
		}
		select {
		case <-done:
			return true
		default:
		}
		if time.Now().After(deadline) {
			return false
		}
		time.Sleep(20 * time.Microsecond)
	}
}

func (in *cutInst) Apply(call *tla.Value) any {
	reps := in.ad.Reps
	if reps <= 0 {
		reps = 1
	}
	var obs []CutObs
	for r := 0; r < reps; r++ {
		o := in.once(call, r)
		obs = append(obs, o)
		if o.DoneHang || o.Err != nil {
			break
		}
	}
	return obs
}

func (in *cutInst) once(call *tla.Value, rep int) CutObs {
	var o CutObs
	at := int(call.F("at").I)
	kind := call.F("kind").S
	data := in.lay.Data
	off := at * 512
	if off > len(data) {
		off = len(data)
	}
	if kind == "corrupt" {
		data = append([]byte(nil), data...)
		data[off+150] ^= 0x55 // inside the header's checksum field
	}
	sched := NewSched(in.entries) // only used to name entries by path
	st := NewStream(nil, data)
	dest, _ := mem.NewFS()
	ctx, cancel := context.WithCancel(context.Background())
	defer cancel()
	rfs, err := hptar.NewReaderFS(ctx, st, hptar.ReaderFSOptions{UnarchiveFS: dest})
	if err != nil {
		o.Err = err
		return o
	}
	helper := &ImplInst{entries: in.entries, sched: sched, rfs: rfs}
	// openers: 1..8, names cycle through entries, directories and a missing name
	var names []string
	for _, e := range in.entries {
		names = append(names, Resolve(e.Raw))
	}
	names = append(names, "d", "zz")
	k := 1 + int((int64(at)*7+in.ad.Seed+int64(rep)*3)%8)
	type pending struct {
		obs OpenerObs
		ch  chan *ClientRes
	}
	var ps []*pending
	start := func(j int, when string) {
		p := &pending{obs: OpenerObs{Name: names[(at+j*3+int(in.ad.Seed))%len(names)], When: when}, ch: make(chan *ClientRes, 1)}
		ps = append(ps, p)
		go func() { p.ch <- helper.open(p.obs.Name) }()
	}
	for j := 0; j < k; j += 2 {
		start(j, "early")
	}
	st.Allow(off)
	waitHeldOrDone(st, rfs.Done(), off, 2*time.Second)
	for j := 1; j < k; j += 2 {
		start(j, "late")
	}
	switch kind {
	case "eof":
		st.Cut(off, io.EOF)
	case "err":
		st.Cut(off, ErrInjected)
	case "cancel":
		cancel()
	}
	st.Free()
	tm := time.NewTimer(Watchdog)
	defer tm.Stop()
	select {
	case <-rfs.Done():
	case <-tm.C:
		o.DoneHang = true
		return o
	}
	o.Uerr = rfs.UnarchiveErr()
	for _, p := range ps {
		select {
		case r := <-p.ch:
			p.obs.Res = r
		case <-tm.C:
			p.obs.Hangs = true
			p.obs.Res = &ClientRes{Class: "HANG"}
		}
		o.Openers = append(o.Openers, p.obs)
	}
	for _, n := range names {
		o.After = append(o.After, OpenerObs{Name: n, When: "after", Res: helper.open(n)})
	}
	if o.Uerr == nil {
		o.Tree, o.Probs = Walk(dest, names)
	}
	return o
}

func (in *cutInst) CheckResult(call, tr *tla.Value, obsAny any) []engine.Div {
	var divs []engine.Div
	seen := map[string]bool{}
	for _, o := range obsAny.([]CutObs) {
		for _, d := range in.checkOne(call, tr, o) {
			if !seen[d.Sig] {
				seen[d.Sig] = true
				divs = append(divs, d)
			}
		}
	}
	return divs
}

func (in *cutInst) checkOne(call, tr *tla.Value, o CutObs) []engine.Div {
	var divs []engine.Div
	b := tr.F("b").S
	add := func(what string) {
		divs = append(divs, engine.Div{Prop: in.ad.Prop, Sig: fmt.Sprintf("tarcut %s %s %s", call.F("kind").S, b, what), Detail: o.String()})
	}
	if o.Err != nil {
		add("constructor-error")
		return divs
	}
	if o.DoneHang {
		add("exp=Done-closes got=HANG")
		return divs
	}
	seen := map[string]bool{}
	for _, set := range [][]OpenerObs{o.Openers, o.After} {
		for _, p := range set {
			var w string
			switch {
			case p.Hangs:
				w = "open-" + p.When + " exp=returns got=HANG"
			case p.Res.Class == "prefix" || p.Res.Class == "corrupt":
				w = "open-" + p.When + " exp=full-bytes-or-error got=partial-bytes"
			case p.Res.Class == "PANIC":
				w = "open-" + p.When + " got=PANIC"
			case p.When == "after" && o.Uerr != nil && p.Res.Class != "FAIL" && p.Res.Class != "ENOENT":
				w = "open-after-failed-unpack exp=error got=" + p.Res.Class
			}
			if w != "" && !seen[w] {
				seen[w] = true
				add(w)
			}
		}
	}
	exp := tr.F("e").S
	switch {
	case exp == "FAIL" && o.Uerr == nil:
		add("exp=UnarchiveErr got=nil")
	case exp == "ok" && o.Uerr != nil:
		add("exp=ok got=ERR")
	case exp == "ok":
		for _, p := range o.Probs {
			add("projection " + strings.Fields(p)[0])
		}
		cs := CompareTree("dest", o.Tree, tr.F("tree"), in.entries, false)
		sort.Slice(cs, func(i, j int) bool { return cs[i].what < cs[j].what })
		for _, c := range cs {
			add(c.what)
		}
	}
	return divs
}
