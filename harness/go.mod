module verif/harness

go 1.18

require github.com/hack-pad/hackpadfs v0.0.0

require github.com/hack-pad/safejs v0.1.0 // indirect

replace github.com/hack-pad/hackpadfs => /repo
