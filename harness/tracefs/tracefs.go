// Package tracefs records executions of real file systems for validation against the specification (mechanism B,
// sequential): a wrapper around any hackpadfs.FS logs every FS-level and every handle-level call with its
// arguments and results as one TLA+ record; spec/FSTrace.tla replays the log through FSCore and Handles.
package tracefs

import (
	"errors"
	"fmt"
	"io"
	"os"
	"sort"
	"strings"
	"sync"
	"time"

	"github.com/hack-pad/hackpadfs"
	"verif/harness/fsad"
)

// Recorder collects the traces of all file systems created during one test run.
type Recorder struct {
	mu     sync.Mutex
	traces []*Trace
}

// Trace is the log of one file system instance.
type Trace struct {
	mu         sync.Mutex
	Name, Base string
	lines      []string
	inflight   int
	Concurrent bool // two calls overlapped: the log is not a sequential history
	nextH      int
}

// New wraps in; every call on the wrapper (and on the handles it returns) is logged.
func (r *Recorder) New(name, base string, in hackpadfs.FS) *FS {
	t := &Trace{Name: name, Base: base}
	r.mu.Lock()
	r.traces = append(r.traces, t)
	r.mu.Unlock()
	return &FS{in: in, t: t}
}

func (t *Trace) begin() {
	t.mu.Lock()
	t.inflight++
	if t.inflight > 1 {
		t.Concurrent = true
	}
	t.mu.Unlock()
}

func (t *Trace) end(line string) {
	t.mu.Lock()
	t.inflight--
	t.lines = append(t.lines, line)
	t.mu.Unlock()
}

// guard turns a panic of the real code into a record of the log (the call then returns zero values)
func (t *Trace) guard(kind, op string, hid int) {
	if r := recover(); r != nil {
		t.end(fmt.Sprintf(`[k |-> "panic", kind |-> %q, op |-> %q, h |-> %d, msg |-> %s]`, kind, op, hid, q(fmt.Sprint(r))))
	}
}

func (t *Trace) newHandle() int {
	t.mu.Lock()
	defer t.mu.Unlock()
	t.nextH++
	return t.nextH
}

// ---- TLA+ rendering ----

func q(s string) string {
	var b strings.Builder
	b.WriteByte('"')
	for _, c := range []byte(s) {
		switch {
		case c == '"' || c == '\\':
			b.WriteByte('\\')
			b.WriteByte(c)
		case c < 0x20 || c > 0x7e:
			fmt.Fprintf(&b, "?%02x", c)
		default:
			b.WriteByte(c)
		}
	}
	b.WriteByte('"')
	return b.String()
}

func pathTLA(p string) string {
	if p == "." {
		return "<< >>"
	}
	parts := strings.Split(p, "/")
	for i := range parts {
		parts[i] = q(parts[i])
	}
	return "<<" + strings.Join(parts, ", ") + ">>"
}

func bytesTLA(b []byte) string {
	if len(b) == 0 {
		return "<< >>"
	}
	parts := make([]string, len(b))
	for i, x := range b {
		parts[i] = fmt.Sprint(x)
	}
	return "<<" + strings.Join(parts, ", ") + ">>"
}

func boolTLA(b bool) string {
	if b {
		return "TRUE"
	}
	return "FALSE"
}

func flagTLA(flag int) string {
	acc := "RO"
	switch flag & (os.O_WRONLY | os.O_RDWR) {
	case os.O_WRONLY:
		acc = "WO"
	case os.O_RDWR:
		acc = "RW"
	}
	return fmt.Sprintf(`[acc |-> %q, c |-> %s, x |-> %s, tr |-> %s, ap |-> %s]`, acc, boolTLA(flag&os.O_CREATE != 0), boolTLA(flag&os.O_EXCL != 0),
		boolTLA(flag&os.O_TRUNC != 0), boolTLA(flag&os.O_APPEND != 0))
}

const noFlag = `[acc |-> "RO", c |-> FALSE, x |-> FALSE, tr |-> FALSE, ap |-> FALSE]`

func kindOf(m hackpadfs.FileMode) string {
	switch {
	case m.IsDir():
		return "dir"
	case m&hackpadfs.ModeSymlink != 0:
		return "link"
	}
	return "file"
}

func infoTLA(info hackpadfs.FileInfo) string {
	size := info.Size()
	if info.IsDir() {
		size = -1
	}
	return fmt.Sprintf(`[k |-> %q, perm |-> %d, mt |-> "*", size |-> %d]`, kindOf(info.Mode()), int(info.Mode().Perm()), size)
}

func listTLA(ents []hackpadfs.DirEntry) string {
	var parts []string
	for _, e := range ents {
		parts = append(parts, fmt.Sprintf("[n |-> %s, k |-> %q]", q(e.Name()), kindOf(e.Type())))
	}
	sort.Strings(parts)
	return "{" + strings.Join(parts, ", ") + "}"
}

// fsEvent renders an FS-level call in FSCore's call record.
func (t *Trace) fsEvent(op, p, p2 string, flag string, perm hackpadfs.FileMode, data []byte, err error, out string, hid int) {
	if !hackpadfs.ValidPath(p) || (op == "rename" && !hackpadfs.ValidPath(p2)) {
		t.end(fmt.Sprintf(`[k |-> "inv", op |-> %q, e |-> %q]`, op, fsad.ErrKind(err)))
		return
	}
	if p2 == "" {
		p2 = "."
	}
	if out == "" {
		out = `"-"`
	}
	t.end(fmt.Sprintf(`[k |-> "fs", c |-> [op |-> %q, p |-> %s, q |-> %s, f |-> %s, perm |-> %d, d |-> %s, mt |-> "*"], e |-> %q, o |-> %s, hid |-> %d]`,
		op, pathTLA(p), pathTLA(p2), flag, int(perm.Perm()), bytesTLA(data), fsad.ErrKind(err), out, hid))
}

// ---- the file system wrapper ----

// FS logs and delegates to the package helpers on the wrapped file system.
type FS struct {
	in hackpadfs.FS
	t  *Trace
}

func (f *FS) Open(name string) (hackpadfs.File, error) {
	return f.OpenFile(name, hackpadfs.FlagReadOnly, 0)
}

func (f *FS) OpenFile(name string, flag int, perm hackpadfs.FileMode) (hackpadfs.File, error) {
	f.t.begin()
	defer f.t.guard("fs", "openfile", 0)
	file, err := hackpadfs.OpenFile(f.in, name, flag, perm)
	hid := 0
	var out hackpadfs.File
	if err == nil {
		hid = f.t.newHandle()
		out = &File{in: file, t: f.t, id: hid}
	}
	f.t.fsEvent("open", name, "", flagTLA(flag), perm, nil, err, "", hid)
	if err != nil {
		return nil, err
	}
	return out, nil
}

func (f *FS) Mkdir(name string, perm hackpadfs.FileMode) error {
	f.t.begin()
	defer f.t.guard("fs", "mkdir", 0)
	err := hackpadfs.Mkdir(f.in, name, perm)
	f.t.fsEvent("mkdir", name, "", noFlag, perm, nil, err, "", 0)
	return err
}

func (f *FS) MkdirAll(name string, perm hackpadfs.FileMode) error {
	f.t.begin()
	defer f.t.guard("fs", "mkdirall", 0)
	err := hackpadfs.MkdirAll(f.in, name, perm)
	f.t.fsEvent("mkdirall", name, "", noFlag, perm, nil, err, "", 0)
	return err
}

func (f *FS) Remove(name string) error {
	f.t.begin()
	defer f.t.guard("fs", "remove", 0)
	err := hackpadfs.Remove(f.in, name)
	f.t.fsEvent("remove", name, "", noFlag, 0, nil, err, "", 0)
	return err
}

func (f *FS) RemoveAll(name string) error {
	f.t.begin()
	defer f.t.guard("fs", "removeall", 0)
	err := hackpadfs.RemoveAll(f.in, name)
	f.t.fsEvent("removeall", name, "", noFlag, 0, nil, err, "", 0)
	return err
}

func (f *FS) Rename(oldname, newname string) error {
	f.t.begin()
	defer f.t.guard("fs", "rename", 0)
	err := hackpadfs.Rename(f.in, oldname, newname)
	f.t.fsEvent("rename", oldname, newname, noFlag, 0, nil, err, "", 0)
	return err
}

func (f *FS) Stat(name string) (hackpadfs.FileInfo, error) {
	f.t.begin()
	defer f.t.guard("fs", "stat", 0)
	info, err := hackpadfs.Stat(f.in, name)
	out := ""
	if err == nil {
		out = infoTLA(info)
	}
	f.t.fsEvent("stat", name, "", noFlag, 0, nil, err, out, 0)
	return info, err
}

func (f *FS) Chmod(name string, mode hackpadfs.FileMode) error {
	f.t.begin()
	defer f.t.guard("fs", "chmod", 0)
	err := hackpadfs.Chmod(f.in, name, mode)
	f.t.fsEvent("chmod", name, "", noFlag, mode, nil, err, "", 0)
	return err
}

func (f *FS) Chtimes(name string, atime, mtime time.Time) error {
	f.t.begin()
	defer f.t.guard("fs", "chtimes", 0)
	err := hackpadfs.Chtimes(f.in, name, atime, mtime)
	f.t.fsEvent("chtimes", name, "", noFlag, 0, nil, err, "", 0)
	return err
}

func (f *FS) ReadDir(name string) ([]hackpadfs.DirEntry, error) {
	f.t.begin()
	defer f.t.guard("fs", "readdir", 0)
	ents, err := hackpadfs.ReadDir(f.in, name)
	out := ""
	if err == nil {
		out = listTLA(ents)
	}
	f.t.fsEvent("readdir", name, "", noFlag, 0, nil, err, out, 0)
	return ents, err
}

func (f *FS) ReadFile(name string) ([]byte, error) {
	f.t.begin()
	defer f.t.guard("fs", "readfile", 0)
	b, err := hackpadfs.ReadFile(f.in, name)
	out := ""
	if err == nil {
		out = bytesTLA(b)
	}
	f.t.fsEvent("readfile", name, "", noFlag, 0, nil, err, out, 0)
	return b, err
}

func (f *FS) WriteFile(name string, data []byte, perm hackpadfs.FileMode) error {
	f.t.begin()
	defer f.t.guard("fs", "writefile", 0)
	err := hackpadfs.WriteFullFile(f.in, name, data, perm)
	f.t.fsEvent("writefile", name, "", noFlag, perm, data, err, "", 0)
	return err
}

// ---- the handle wrapper ----

// File logs and delegates to the file helpers on the wrapped handle.
type File struct {
	in hackpadfs.File
	t  *Trace
	id int
}

func hClass(err error) string {
	switch {
	case err == nil:
		return "ok"
	case err == io.EOF:
		return "EOF"
	case errors.Is(err, hackpadfs.ErrClosed):
		return "ECLOSED"
	case errors.Is(err, hackpadfs.ErrNotImplemented):
		return "ENOSYS"
	}
	return "FAIL"
}

type hEv struct {
	op             string
	n, off, wh     int64
	bs             []byte // bytes handed to a write
	err            error
	cnt            int64  // count returned
	rb             []byte // bytes read
	ret            int64  // scalar returned (Seek offset, Stat size)
	sk             string // Stat: kind
	perm           int    // Chmod argument / Stat permission bits
	ls             string // ReadDir listing
	hasLs, hasStat bool
}

// i32 keeps a number inside what TLC can read (32-bit integers); anything beyond stays "huge"
func i32(x int64) int64 {
	const lim = 1<<31 - 1
	if x > lim {
		return lim
	}
	if x < -lim {
		return -lim
	}
	return x
}

func (f *File) ev(e hEv) {
	if e.ls == "" {
		e.ls = "{}"
	}
	e.n, e.off, e.wh, e.cnt, e.ret = i32(e.n), i32(e.off), i32(e.wh), i32(e.cnt), i32(e.ret)
	f.t.end(fmt.Sprintf(`[k |-> "h", h |-> %d, op |-> %q, n |-> %d, off |-> %d, wh |-> %d, bs |-> %s, e |-> %q, cnt |-> %d, rb |-> %s, ret |-> %d, sk |-> %q, perm |-> %d, ls |-> %s]`,
		f.id, e.op, e.n, e.off, e.wh, bytesTLA(e.bs), hClass(e.err), e.cnt, bytesTLA(e.rb), e.ret, e.sk, e.perm, e.ls))
}

func (f *File) Read(p []byte) (int, error) {
	f.t.begin()
	defer f.t.guard("h", "read", f.id)
	n, err := f.in.Read(p)
	f.ev(hEv{op: "read", n: int64(len(p)), err: err, cnt: int64(n), rb: append([]byte(nil), p[:clamp(n)]...)})
	return n, err
}

func (f *File) ReadAt(p []byte, off int64) (int, error) {
	f.t.begin()
	defer f.t.guard("h", "readat", f.id)
	n, err := hackpadfs.ReadAtFile(f.in, p, off)
	f.ev(hEv{op: "readat", n: int64(len(p)), off: off, err: err, cnt: int64(n), rb: append([]byte(nil), p[:clamp(n)]...)})
	return n, err
}

func (f *File) Write(p []byte) (int, error) {
	f.t.begin()
	defer f.t.guard("h", "write", f.id)
	n, err := hackpadfs.WriteFile(f.in, p)
	f.ev(hEv{op: "write", bs: p, err: err, cnt: int64(n)})
	return n, err
}

func (f *File) WriteAt(p []byte, off int64) (int, error) {
	f.t.begin()
	defer f.t.guard("h", "writeat", f.id)
	n, err := hackpadfs.WriteAtFile(f.in, p, off)
	f.ev(hEv{op: "writeat", bs: p, off: off, err: err, cnt: int64(n)})
	return n, err
}

func (f *File) Seek(offset int64, whence int) (int64, error) {
	f.t.begin()
	defer f.t.guard("h", "seek", f.id)
	n, err := hackpadfs.SeekFile(f.in, offset, whence)
	f.ev(hEv{op: "seek", off: offset, wh: int64(whence), err: err, ret: n})
	return n, err
}

func (f *File) Truncate(size int64) error {
	f.t.begin()
	defer f.t.guard("h", "truncate", f.id)
	err := hackpadfs.TruncateFile(f.in, size)
	f.ev(hEv{op: "truncate", off: size, err: err})
	return err
}

func (f *File) Stat() (hackpadfs.FileInfo, error) {
	f.t.begin()
	defer f.t.guard("h", "stat", f.id)
	info, err := f.in.Stat()
	e := hEv{op: "stat", err: err}
	if err == nil {
		e.ret, e.sk, e.perm = info.Size(), kindOf(info.Mode()), int(info.Mode().Perm())
	}
	f.ev(e)
	return info, err
}

func (f *File) Chmod(mode hackpadfs.FileMode) error {
	f.t.begin()
	defer f.t.guard("h", "chmod", f.id)
	err := hackpadfs.ChmodFile(f.in, mode)
	f.ev(hEv{op: "chmod", err: err, perm: int(mode.Perm())})
	return err
}

func (f *File) Chtimes(atime, mtime time.Time) error {
	f.t.begin()
	defer f.t.guard("h", "chtimes", f.id)
	err := hackpadfs.ChtimesFile(f.in, atime, mtime)
	f.ev(hEv{op: "chtimes", err: err})
	return err
}

func (f *File) Sync() error {
	f.t.begin()
	defer f.t.guard("h", "sync", f.id)
	err := hackpadfs.SyncFile(f.in)
	f.ev(hEv{op: "sync", err: err})
	return err
}

func (f *File) Close() error {
	f.t.begin()
	defer f.t.guard("h", "close", f.id)
	err := f.in.Close()
	f.ev(hEv{op: "close", err: err})
	return err
}

func (f *File) ReadDir(n int) ([]hackpadfs.DirEntry, error) {
	f.t.begin()
	defer f.t.guard("h", "readdir", f.id)
	ents, err := hackpadfs.ReadDirFile(f.in, n)
	f.ev(hEv{op: "readdir", n: int64(n), err: err, cnt: int64(len(ents)), ls: listTLA(ents)})
	return ents, err
}

func clamp(n int) int {
	if n < 0 {
		return 0
	}
	return n
}

// ---- output ----

// WriteTLA writes the module TraceData: the sequential traces, each introduced by a reset record.
func (r *Recorder) WriteTLA(path string) (traces, events, dropped int, err error) {
	r.mu.Lock()
	defer r.mu.Unlock()
	var b strings.Builder
	b.WriteString("----------------------------- MODULE TraceData -----------------------------\n")
	b.WriteString("\\* generated by harness/tracefs: executions of real file systems, one record per call\nEXTENDS Integers\nEvents == <<\n")
	first := true
	for i, t := range r.traces {
		t.mu.Lock()
		if t.Concurrent || len(t.lines) == 0 {
			if t.Concurrent {
				dropped++
			}
			t.mu.Unlock()
			continue
		}
		traces++
		lines := append([]string{fmt.Sprintf(`[k |-> "reset", id |-> %d, name |-> %s, base |-> %q]`, i+1, q(t.Name), t.Base)}, t.lines...)
		t.mu.Unlock()
		for _, l := range lines {
			if !first {
				b.WriteString(",\n")
			}
			first = false
			b.WriteString("  " + l)
			events++
		}
	}
	b.WriteString("\n>>\n=============================================================================\n")
	return traces, events, dropped, os.WriteFile(path, []byte(b.String()), 0644)
}
