package tracefs

import (
	"fmt"
	"os"
	"strings"
	"syscall"
	"testing"

	"github.com/hack-pad/hackpadfs"
	"github.com/hack-pad/hackpadfs/fstest"
	hpos "github.com/hack-pad/hackpadfs/os"
	"verif/harness/fsad"
)

var rec = &Recorder{}

func TestMain(m *testing.M) {
	syscall.Umask(0)
	code := m.Run()
	if out := os.Getenv("VERIF_TRACE_OUT"); out != "" {
		traces, events, dropped, err := rec.WriteTLA(out)
		if err != nil {
			fmt.Fprintln(os.Stderr, "trace output:", err)
			code = 1
		}
		fmt.Printf("TRACES traces=%d events=%d dropped_concurrent=%d\n", traces, events, dropped)
	}
	os.Exit(code)
}

// the repository's own conformance suite, run against a traced file system: every file system the suite sets up is
// one trace
func suite(t *testing.T, base string, mk func(tb testing.TB) hackpadfs.FS) {
	opts := fstest.FSOptions{
		Name: base,
		TestFS: func(tb testing.TB) fstest.SetupFS {
			return rec.New(tb.Name(), base, mk(tb))
		},
	}
	fstest.FS(t, opts)
	fstest.File(t, opts)
}

func TestTraceMem(t *testing.T) {
	suite(t, "mem", func(tb testing.TB) hackpadfs.FS {
		fs, _, err := fsad.MemFS()
		if err != nil {
			tb.Fatal(err)
		}
		return fs
	})
}

func TestTraceKVPlain(t *testing.T) {
	suite(t, "kvplain", func(tb testing.TB) hackpadfs.FS {
		fs, _, err := fsad.KVPlainFS()
		if err != nil {
			tb.Fatal(err)
		}
		return fs
	})
}

// the reference: hackpadfs os.FS in a fresh directory (a trace the specification rejects here is a specification error)
func TestTraceOS(t *testing.T) {
	suite(t, "os", func(tb testing.TB) hackpadfs.FS {
		sub, err := hpos.NewFS().Sub(strings.TrimPrefix(tb.TempDir(), "/"))
		if err != nil {
			tb.Fatal(err)
		}
		return sub
	})
}
