package tracefs

import (
	"fmt"
	"math/rand"
	"os"
	"strings"
	"syscall"
	"testing"

	"github.com/hack-pad/hackpadfs"
	"github.com/hack-pad/hackpadfs/fstest"
	hpos "github.com/hack-pad/hackpadfs/os"
	"verif/harness/fsad"
)

var rec = &Recorder{}

func TestMain(m *testing.M) {
	syscall.Umask(0)
	code := m.Run()
	if out := os.Getenv("VERIF_TRACE_OUT"); out != "" {
		traces, events, dropped, err := rec.WriteTLA(out)
		if err != nil {
			fmt.Fprintln(os.Stderr, "trace output:", err)
			code = 1
		}
		fmt.Printf("TRACES traces=%d events=%d dropped_concurrent=%d\n", traces, events, dropped)
	}
	os.Exit(code)
}

// the repository's own conformance suite, run against a traced file system: every file system the suite sets up is
// one trace
func suite(t *testing.T, base string, mk func(tb testing.TB) hackpadfs.FS) {
	opts := fstest.FSOptions{
		Name: base,
		TestFS: func(tb testing.TB) fstest.SetupFS {
			return rec.New(tb.Name(), base, mk(tb))
		},
	}
	fstest.FS(t, opts)
	fstest.File(t, opts)
}

func TestTraceMem(t *testing.T) {
	suite(t, "mem", func(tb testing.TB) hackpadfs.FS {
		fs, _, err := fsad.MemFS()
		if err != nil {
			tb.Fatal(err)
		}
		return fs
	})
}

func TestTraceKVPlain(t *testing.T) {
	suite(t, "kvplain", func(tb testing.TB) hackpadfs.FS {
		fs, _, err := fsad.KVPlainFS()
		if err != nil {
			tb.Fatal(err)
		}
		return fs
	})
}

// the reference: hackpadfs os.FS in a fresh directory (a trace the specification rejects here is a specification error)
func TestTraceOS(t *testing.T) {
	suite(t, "os", func(tb testing.TB) hackpadfs.FS {
		sub, err := hpos.NewFS().Sub(strings.TrimPrefix(tb.TempDir(), "/"))
		if err != nil {
			tb.Fatal(err)
		}
		return sub
	})
}

// random histories: a seeded driver over a richer alphabet than the bounded models (deeper paths, longer data, several
// open handles, operations on removed and renamed open files), recorded like the conformance scenarios
func randomHistories(t *testing.T, base string, mk func(tb testing.TB) hackpadfs.FS) {
	seed := int64(1)
	if s := os.Getenv("VERIF_SEED"); s != "" {
		fmt.Sscan(s, &seed)
	}
	n, steps := 40, 60
	if s := os.Getenv("VERIF_TRACE_RANDOM"); s != "" {
		fmt.Sscan(s, &n, &steps)
	}
	for k := 0; k < n; k++ {
		rnd := rand.New(rand.NewSource(seed*1000003 + int64(k)))
		fs := rec.New(fmt.Sprintf("random/%s/%d", base, k), base, mk(t))
		drive(rnd, fs, steps)
	}
}

func drive(rnd *rand.Rand, fs *FS, steps int) {
	names := []string{"a", "b", "c", "dd"}
	path := func() string {
		d := 1 + rnd.Intn(3)
		parts := make([]string, d)
		for i := range parts {
			parts[i] = names[rnd.Intn(len(names))]
		}
		return strings.Join(parts, "/")
	}
	// the root itself only where it cannot be removed or moved (the bounded models cover that: FSCore.root.cfg; on the
	// os-backed reference the root is an ordinary, removable directory)
	pathOrRoot := func() string {
		if rnd.Intn(12) == 0 {
			return "."
		}
		return path()
	}
	data := func() []byte {
		b := make([]byte, rnd.Intn(9))
		for i := range b {
			b[i] = byte(1 + rnd.Intn(200))
		}
		return b
	}
	perms := []hackpadfs.FileMode{0644, 0600, 0755, 0700, 0666}
	perm := func() hackpadfs.FileMode { return perms[rnd.Intn(len(perms))] }
	flags := []int{
		hackpadfs.FlagReadOnly, hackpadfs.FlagReadOnly, hackpadfs.FlagWriteOnly, hackpadfs.FlagReadWrite,
		hackpadfs.FlagReadWrite | hackpadfs.FlagCreate, hackpadfs.FlagWriteOnly | hackpadfs.FlagCreate | hackpadfs.FlagTruncate,
		hackpadfs.FlagReadWrite | hackpadfs.FlagCreate | hackpadfs.FlagExclusive, hackpadfs.FlagWriteOnly | hackpadfs.FlagAppend,
		hackpadfs.FlagReadWrite | hackpadfs.FlagAppend | hackpadfs.FlagCreate, hackpadfs.FlagReadWrite | hackpadfs.FlagTruncate,
	}
	var open []hackpadfs.File
	defer func() {
		for _, f := range open {
			_ = f.Close()
		}
	}()
	for s := 0; s < steps; s++ {
		if len(open) > 0 && rnd.Intn(100) < 45 {
			i := rnd.Intn(len(open))
			f := open[i].(*File)
			switch rnd.Intn(12) {
			case 0, 1:
				_, _ = f.Read(make([]byte, rnd.Intn(7)))
			case 2:
				_, _ = f.ReadAt(make([]byte, rnd.Intn(7)), int64(rnd.Intn(12)-1))
			case 3, 4:
				_, _ = f.Write(data())
			case 5:
				_, _ = f.WriteAt(data(), int64(rnd.Intn(12)-1))
			case 6:
				_, _ = f.Seek(int64(rnd.Intn(14)-3), []int{0, 1, 2, 0, 1, 2, 9}[rnd.Intn(7)]) // 9: no such origin (3 and 4 are SEEK_DATA / SEEK_HOLE on Linux)
			case 7:
				_ = f.Truncate(int64(rnd.Intn(12) - 1))
			case 8:
				_, _ = f.Stat()
			case 9:
				_, _ = f.ReadDir(rnd.Intn(4) - 1)
			case 10:
				_ = f.Chmod(perm())
			case 11:
				_ = f.Close()
				if rnd.Intn(3) > 0 { // sometimes the closed handle stays around and is used again
					open = append(open[:i], open[i+1:]...)
				}
			}
			continue
		}
		switch rnd.Intn(16) {
		case 0, 1:
			_ = fs.Mkdir(path(), perm())
		case 2:
			_ = fs.MkdirAll(path(), perm())
		case 3, 4:
			_ = fs.WriteFile(path(), data(), perm())
		case 5, 6, 7:
			if len(open) < 3 {
				if f, err := fs.OpenFile(pathOrRoot(), flags[rnd.Intn(len(flags))], perm()); err == nil {
					open = append(open, f)
				}
			}
		case 8:
			_ = fs.Remove(path())
		case 9:
			_ = fs.RemoveAll(path())
		case 10, 11:
			_ = fs.Rename(path(), path())
		case 12:
			_ = fs.Chmod(path(), perm())
		case 13:
			_, _ = fs.Stat(pathOrRoot())
		case 14:
			_, _ = fs.ReadDir(pathOrRoot())
		case 15:
			_, _ = fs.ReadFile(path())
		}
	}
}

func TestRandomMem(t *testing.T) {
	randomHistories(t, "mem", func(tb testing.TB) hackpadfs.FS {
		fs, _, err := fsad.MemFS()
		if err != nil {
			tb.Fatal(err)
		}
		return fs
	})
}

func TestRandomKVPlain(t *testing.T) {
	randomHistories(t, "kvplain", func(tb testing.TB) hackpadfs.FS {
		fs, _, err := fsad.KVPlainFS()
		if err != nil {
			tb.Fatal(err)
		}
		return fs
	})
}

// the ground truth itself: the Go os package behind a thin adapter (a record the specification does not explain here is a
// specification error, never a finding)
func rawOS(tb testing.TB) hackpadfs.FS {
	fs, cleanup, err := fsad.OSRefFS()
	if err != nil {
		tb.Fatal(err)
	}
	tb.Cleanup(cleanup)
	return fs
}

// (the conformance scenarios are not run on it: they expect hackpadfs' refusal of names that are no paths, which the os package does not know)
func TestRandomRawOS(t *testing.T) { randomHistories(t, "rawos", rawOS) }

func TestRandomOS(t *testing.T) {
	randomHistories(t, "os", func(tb testing.TB) hackpadfs.FS {
		sub, err := hpos.NewFS().Sub(strings.TrimPrefix(tb.TempDir(), "/"))
		if err != nil {
			tb.Fatal(err)
		}
		return sub
	})
}

// Sub views (C07): the view of a directory must behave like a file system of its own
func subOfMem(tb testing.TB) hackpadfs.FS {
	fs, _, err := fsad.MemFS()
	if err != nil {
		tb.Fatal(err)
	}
	if err := hackpadfs.MkdirAll(fs, "d/e", 0755); err != nil {
		tb.Fatal(err)
	}
	// something next to and above the view that it must never show or touch
	_ = hackpadfs.WriteFullFile(fs, "d/x", []byte("outside"), 0644)
	_ = hackpadfs.WriteFullFile(fs, "d/ex", []byte("outside"), 0644)
	sub, err := hackpadfs.Sub(fs, "d/e")
	if err != nil {
		tb.Fatal(err)
	}
	return sub
}

func subOfSubOfOS(tb testing.TB) hackpadfs.FS {
	base, err := hpos.NewFS().Sub(strings.TrimPrefix(tb.TempDir(), "/"))
	if err != nil {
		tb.Fatal(err)
	}
	if err := hackpadfs.MkdirAll(base, "d/e", 0755); err != nil {
		tb.Fatal(err)
	}
	s1, err := hackpadfs.Sub(base, "d")
	if err != nil {
		tb.Fatal(err)
	}
	s2, err := hackpadfs.Sub(s1, "e")
	if err != nil {
		tb.Fatal(err)
	}
	return s2
}

func TestTraceSubMem(t *testing.T)  { suite(t, "submem", subOfMem) }
func TestRandomSubMem(t *testing.T) { randomHistories(t, "submem", subOfMem) }
func TestRandomSubOS(t *testing.T)  { randomHistories(t, "subos", subOfSubOfOS) }
