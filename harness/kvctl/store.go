// Package kvctl wraps a keyvalue store with control points: every store-level call can be counted,
// failed (C14) or held at a gate until a scheduler releases it (C15).
package kvctl

import (
	"context"
	"errors"
	"fmt"
	"sync"
	"sync/atomic"

	"github.com/hack-pad/hackpadfs/keyvalue"
	"github.com/hack-pad/hackpadfs/keyvalue/blob"
)

// ErrInjected is the failure injected into store calls.
var ErrInjected = errors.New("injected store failure")

// Ctl is shared by all wrappers over one inner store.
type Ctl struct {
	mu     sync.Mutex
	count  int64
	FailAt int64 // 1-based index of the store call that fails; 0 = none
	Fired  atomic.Bool
	What   string
	Log    []string
	// Gate, when set, is called before every transaction (or plain Get/Set) with the thread id; it blocks
	// until the scheduler lets that thread take its next step.
	Gate func(thread int, what string)
	// GateBlobs: blob operations (Grow, Set, Truncate, View, Slice) of records are scheduling points too.
	GateBlobs bool
	// GateTxnOps: every Get/Set after the first inside a transaction is a scheduling point too (the thread then waits at the
	// gate while its transaction is open, i.e. while the inner store is held by it).
	GateTxnOps bool
	// GateTxnEnd: the return of Commit/Abort is a scheduling point too (what a caller does between two of its
	// transactions - reading in-memory bookkeeping, say - can then be separated from the transaction before it)
	GateTxnEnd bool
	openTxn    sync.Map // thread -> number of transactions it has open
	// ThreadOf resolves the calling goroutine to a thread id for wrappers created with Thread == Dynamic (one file
	// system object shared by all goroutines, as a mem.FS is)
	ThreadOf func() int
}

// Dynamic as a wrapper's Thread: the thread is the calling goroutine's (Ctl.ThreadOf)
const Dynamic = -2

func (c *Ctl) tid(t int) int {
	if t == Dynamic && c.ThreadOf != nil {
		return c.ThreadOf()
	}
	return t
}

// HasOpenTxn reports whether the thread is between Transaction() and Commit()/Abort().
func (c *Ctl) HasOpenTxn(thread int) bool {
	v, ok := c.openTxn.Load(thread)
	return ok && v.(int) > 0
}

func (c *Ctl) txnOpened(thread, d int) {
	v, _ := c.openTxn.LoadOrStore(thread, 0)
	c.openTxn.Store(thread, v.(int)+d)
}

func (c *Ctl) hit(what string) error {
	c.mu.Lock()
	defer c.mu.Unlock()
	c.count++
	if len(c.Log) < 200 {
		c.Log = append(c.Log, what)
	}
	if c.count == c.FailAt {
		c.Fired.Store(true)
		c.What = what
		return fmt.Errorf("%s: %w", what, ErrInjected)
	}
	return nil
}

// Count returns the number of store calls seen so far.
func (c *Ctl) Count() int64 {
	c.mu.Lock()
	defer c.mu.Unlock()
	return c.count
}

// record wraps a FileRecord so that lazily evaluated parts are store calls too.
type record struct {
	keyvalue.FileRecord
	c      *Ctl
	path   string
	thread int
}

func (r record) Data() (blob.Blob, error) {
	if r.FileRecord.Mode().IsDir() {
		return r.FileRecord.Data()
	}
	if err := r.c.hit("data " + r.path); err != nil {
		return nil, err
	}
	b, err := r.FileRecord.Data()
	if err != nil || b == nil || r.c.Gate == nil || !r.c.GateBlobs {
		return b, err
	}
	return &GBlob{In: Unwrap(b), C: r.c, Thread: r.thread}, nil
}

// GBlob is a blob whose mutating and aliasing operations are scheduling points.
type GBlob struct {
	In     blob.Blob
	C      *Ctl
	Thread int
}

// Unwrap returns the blob behind any number of gate wrappers.
func Unwrap(b blob.Blob) blob.Blob {
	for {
		g, ok := b.(*GBlob)
		if !ok {
			return b
		}
		b = g.In
	}
}

func (g *GBlob) gate(what string) {
	if g.C.Gate != nil {
		g.C.Gate(g.C.tid(g.Thread), what)
	}
}
func (g *GBlob) Bytes() []byte { return g.In.Bytes() }
func (g *GBlob) Len() int      { return g.In.Len() }
func (g *GBlob) View(start, end int64) (blob.Blob, error) {
	g.gate("blob.view")
	return blob.View(g.In, start, end)
}
func (g *GBlob) Slice(start, end int64) (blob.Blob, error) {
	g.gate("blob.slice")
	return blob.Slice(g.In, start, end)
}
func (g *GBlob) Set(src blob.Blob, off int64) (int, error) {
	g.gate("blob.set")
	return blob.Set(g.In, Unwrap(src), off)
}
func (g *GBlob) Grow(n int64) error {
	g.gate("blob.grow")
	return blob.Grow(g.In, n)
}
func (g *GBlob) Truncate(n int64) error {
	g.gate("blob.truncate")
	return blob.Truncate(g.In, n)
}

// plainSrc hands a record to the inner store with its blob unwrapped (gate wrappers never get stored).
type plainSrc struct{ keyvalue.FileRecord }

func (p plainSrc) Data() (blob.Blob, error) {
	b, err := p.FileRecord.Data()
	if b != nil {
		b = Unwrap(b)
	}
	return b, err
}

func (r record) ReadDirNames() ([]string, error) {
	if !r.FileRecord.Mode().IsDir() {
		return r.FileRecord.ReadDirNames()
	}
	if err := r.c.hit("readdirnames " + r.path); err != nil {
		return nil, err
	}
	return r.FileRecord.ReadDirNames()
}

// Plain is a keyvalue.Store (Get/Set only) with control points: keyvalue.FS takes the serial path.
type Plain struct {
	In     keyvalue.Store
	C      *Ctl
	Thread int
}

func (s *Plain) Get(ctx context.Context, path string) (keyvalue.FileRecord, error) {
	if s.C.Gate != nil {
		s.C.Gate(s.C.tid(s.Thread), "get "+path)
	}
	if err := s.C.hit("get " + path); err != nil {
		return nil, err
	}
	rec, err := s.In.Get(ctx, path)
	if err != nil || rec == nil {
		return rec, err
	}
	return record{rec, s.C, path, s.Thread}, nil
}

func (s *Plain) Set(ctx context.Context, path string, src keyvalue.FileRecord) error {
	if s.C.Gate != nil {
		s.C.Gate(s.C.tid(s.Thread), "set "+path)
	}
	if err := s.C.hit("set " + path); err != nil {
		return err
	}
	if src != nil {
		src = plainSrc{src}
	}
	return s.In.Set(ctx, path, src)
}

// Txn is a keyvalue.TransactionStore with control points; a whole transaction is one scheduling step
// (the inner store holds its mutex from Transaction() to Commit()/Abort()).
type Txn struct {
	In     keyvalue.TransactionStore
	C      *Ctl
	Thread int
}

func (s *Txn) Get(ctx context.Context, path string) (keyvalue.FileRecord, error) {
	return (&Plain{In: s.In, C: s.C, Thread: s.Thread}).Get(ctx, path)
}
func (s *Txn) Set(ctx context.Context, path string, src keyvalue.FileRecord) error {
	return (&Plain{In: s.In, C: s.C, Thread: s.Thread}).Set(ctx, path, src)
}

func (s *Txn) Transaction(o keyvalue.TransactionOptions) (keyvalue.Transaction, error) {
	thread := s.C.tid(s.Thread)
	if s.C.Gate != nil {
		s.C.Gate(thread, "txn")
	}
	if err := s.C.hit("transaction"); err != nil {
		return nil, err
	}
	t, err := s.In.Transaction(o)
	if err != nil {
		return nil, err
	}
	s.C.txnOpened(thread, 1)
	return &txn{in: t, c: s.C, thread: thread}, nil
}

type txn struct {
	in     keyvalue.Transaction
	c      *Ctl
	thread int
	n      int
	failed map[int]error // operations (by position) the store failed
	closed bool
}

func (t *txn) gate(what string) {
	// the first operation of a transaction needs no gate of its own: nothing of the transaction is visible yet,
	// so a step taken there is the step taken before Transaction()
	if t.c.Gate != nil && t.c.GateTxnOps && t.n >= 1 {
		t.c.Gate(t.thread, what)
	}
}

func (t *txn) close() {
	if !t.closed {
		t.closed = true
		t.c.txnOpened(t.thread, -1)
	}
}

func (t *txn) failOp(path string, err error) keyvalue.OpID {
	if t.failed == nil {
		t.failed = map[int]error{}
	}
	t.failed[t.n] = err
	t.n++
	// keep the position in the result list: a look-up of a key that cannot exist; its error is replaced in Commit
	return t.in.Get("\x00verif-failed\x00" + path)
}

func (t *txn) Get(path string) keyvalue.OpID { return t.GetHandler(path, nil) }
func (t *txn) GetHandler(path string, h keyvalue.OpHandler) keyvalue.OpID {
	t.gate("txn.get " + path)
	if err := t.c.hit("txn.get " + path); err != nil {
		// the store's Get fails inside the transaction: the operation's result carries the error
		return t.failOp(path, err)
	}
	t.n++
	return t.in.GetHandler(path, wrapRec{next: h, c: t.c, path: path})
}
func (t *txn) Set(path string, src keyvalue.FileRecord, contents blob.Blob) keyvalue.OpID {
	return t.SetHandler(path, src, contents, nil)
}
func (t *txn) SetHandler(path string, src keyvalue.FileRecord, contents blob.Blob, h keyvalue.OpHandler) keyvalue.OpID {
	t.gate("txn.set " + path)
	if err := t.c.hit("txn.set " + path); err != nil {
		// the store rejects the Set: nothing is written, the operation's result carries the error
		return t.failOp(path, err)
	}
	t.n++
	if src != nil {
		src = plainSrc{src}
	}
	if contents != nil {
		contents = Unwrap(contents)
	}
	if h == nil {
		return t.in.Set(path, src, contents)
	}
	return t.in.SetHandler(path, src, contents, h)
}
func (t *txn) Commit(ctx context.Context) ([]keyvalue.OpResult, error) {
	res, err := t.in.Commit(ctx)
	t.close()
	if t.c.Gate != nil && t.c.GateTxnEnd {
		t.c.Gate(t.thread, "txn-end")
	}
	for i := range res {
		if ferr, bad := t.failed[i]; bad {
			res[i].Err, res[i].Record = ferr, nil
			continue
		}
		if res[i].Record != nil {
			if _, ok := res[i].Record.(record); !ok {
				res[i].Record = record{res[i].Record, t.c, "?", t.thread}
			}
		}
	}
	return res, err
}
func (t *txn) Abort() error {
	err := t.in.Abort()
	t.close()
	return err
}

type wrapRec struct {
	next keyvalue.OpHandler
	c    *Ctl
	path string
}

func (w wrapRec) Handle(t keyvalue.Transaction, r keyvalue.OpResult) error {
	if w.next != nil {
		return w.next.Handle(t, r)
	}
	return nil
}
