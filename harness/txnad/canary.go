package txnad

import (
	"bufio"
	"bytes"
	"crypto/sha1"
	"encoding/json"
	"fmt"
	"io"
	"os"
	"os/exec"
	"strings"
	"sync"
	"sync/atomic"
	"time"

	"verif/harness/engine"
	"verif/harness/tla"
)

// A canary is a child process (`vh txn-child`) that executes call histories on a fresh instance
// of the real code. A history whose last call dies with a Go runtime "fatal error" (which
// recover() cannot catch and which would take the whole harness down) kills only the child; the
// parent turns the child's death into the observation FATAL. Children are kept alive between
// requests, so on a tree where nothing is fatal a canary costs one pipe round trip.

// ChildExe is the executable to start for canaries (default: this executable).
var ChildExe string

// CanaryStats counts canary activity (reported in the summary through Stats()).
var canaryRequests, canaryDeaths, canarySpawns int64

func Stats() map[string]int64 {
	return map[string]int64{"canary_requests": atomic.LoadInt64(&canaryRequests), "canary_child_deaths": atomic.LoadInt64(&canaryDeaths),
		"canary_children_started": atomic.LoadInt64(&canarySpawns)}
}

type canaryReq struct {
	Module  string   `json:"module"` // "txn" | "txniso"
	Adapter string   `json:"adapter"`
	Keys    []string `json:"keys"`
	NT      int      `json:"nt,omitempty"`
	Hist    []string `json:"hist"`
}

type canaryProc struct {
	cmd    *exec.Cmd
	in     io.WriteCloser
	out    *bufio.Reader
	stderr *bytes.Buffer
}

var (
	canaryCache sync.Map // sha1(adapter, history) -> string ("" = survived)
	canaryIdle  = make(chan *canaryProc, 64)
	canarySem   = make(chan struct{}, 16) // children alive at once
)

func spawnCanary() (*canaryProc, error) {
	exe := ChildExe
	if exe == "" {
		var err error
		if exe, err = os.Executable(); err != nil {
			return nil, err
		}
	}
	cmd := exec.Command(exe, "txn-child")
	cmd.Env = append(os.Environ(), "GOTRACEBACK=single")
	in, err := cmd.StdinPipe()
	if err != nil {
		return nil, err
	}
	out, err := cmd.StdoutPipe()
	if err != nil {
		return nil, err
	}
	p := &canaryProc{cmd: cmd, in: in, out: bufio.NewReader(out), stderr: &bytes.Buffer{}}
	cmd.Stderr = p.stderr
	if err := cmd.Start(); err != nil {
		return nil, err
	}
	atomic.AddInt64(&canarySpawns, 1)
	return p, nil
}

func (p *canaryProc) kill() {
	_ = p.in.Close()
	_ = p.cmd.Process.Kill()
	_ = p.cmd.Wait()
}

// canaryRun executes hist in a child. It returns "" when the child survived, otherwise a
// description of how the child died.
func canaryRun(req canaryReq) string {
	h := sha1.New()
	io.WriteString(h, req.Module+" "+req.Adapter)
	for _, c := range req.Hist {
		io.WriteString(h, "\x00")
		io.WriteString(h, c)
	}
	var key [sha1.Size]byte
	copy(key[:], h.Sum(nil))
	if v, ok := canaryCache.Load(key); ok {
		return v.(string)
	}
	atomic.AddInt64(&canaryRequests, 1)
	msg := canaryExec(req)
	canaryCache.Store(key, msg)
	return msg
}

func canaryExec(req canaryReq) string {
	canarySem <- struct{}{}
	defer func() { <-canarySem }()
	var p *canaryProc
	select {
	case p = <-canaryIdle:
	default:
		var err error
		if p, err = spawnCanary(); err != nil {
			return "cannot start the child process: " + err.Error()
		}
	}
	b, _ := json.Marshal(req)
	b = append(b, '\n')
	type ans struct {
		line string
		err  error
	}
	ch := make(chan ans, 1)
	go func() {
		if _, err := p.in.Write(b); err != nil {
			ch <- ans{"", err}
			return
		}
		line, err := p.out.ReadString('\n')
		ch <- ans{line, err}
	}()
	t := time.NewTimer(3 * Watchdog)
	defer t.Stop()
	select {
	case a := <-ch:
		if a.err == nil && strings.HasPrefix(a.line, "ok") {
			select {
			case canaryIdle <- p:
			default:
				p.kill()
			}
			return ""
		}
		// the child died (or answered nonsense): collect how
		_ = p.in.Close()
		werr := p.cmd.Wait()
		atomic.AddInt64(&canaryDeaths, 1)
		return deathNote(p.stderr.String(), werr, a.line)
	case <-t.C:
		p.kill()
		atomic.AddInt64(&canaryDeaths, 1)
		return "child process gave no answer (killed)"
	}
}

// deathNote condenses the child's stderr to the runtime's own message.
func deathNote(stderr string, werr error, line string) string {
	first := ""
	for _, l := range strings.Split(stderr, "\n") {
		l = strings.TrimSpace(l)
		if strings.HasPrefix(l, "fatal error:") || strings.HasPrefix(l, "panic:") || strings.HasPrefix(l, "runtime:") {
			first = l
			break
		}
	}
	if first == "" {
		first = strings.TrimSpace(stderr)
		if len(first) > 200 {
			first = first[:200]
		}
		if first == "" {
			first = "child answered " + strings.TrimSpace(line)
		}
	}
	return fmt.Sprintf("%s (child process: %v)", first, werr)
}

// ChildMain is the body of `vh txn-child`: one JSON request per line on stdin, "ok" per request
// survived on stdout.
func ChildMain() {
	rd := bufio.NewReaderSize(os.Stdin, 1<<20)
	w := bufio.NewWriter(os.Stdout)
	for {
		line, err := rd.ReadBytes('\n')
		if len(bytes.TrimSpace(line)) > 0 {
			var req canaryReq
			if e := json.Unmarshal(line, &req); e != nil {
				fmt.Fprintln(os.Stderr, "txn-child: bad request:", e)
				os.Exit(2)
			}
			inst, e := childInstance(req)
			if e != nil {
				fmt.Fprintln(os.Stderr, "txn-child:", e)
				os.Exit(2)
			}
			for _, h := range req.Hist {
				c, e := tla.Parse(h)
				if e != nil {
					fmt.Fprintln(os.Stderr, "txn-child: bad call:", e)
					os.Exit(2)
				}
				inst.Apply(&c)
			}
			fmt.Fprintln(w, "ok")
			w.Flush()
		}
		if err != nil {
			return
		}
	}
}

func childInstance(req canaryReq) (engine.Instance, error) {
	cfg := Config{AdapterName: req.Adapter, Prop: "C18", InChild: true}
	if req.Module == "txniso" {
		inst, err := (&IsoAdapter{Cfg: cfg}).New(nil)
		if err != nil {
			return nil, err
		}
		ii := inst.(*IsoInst)
		if len(req.Keys) > 0 {
			ii.keys = req.Keys
		}
		if req.NT > 0 {
			ii.nt = req.NT
			ii.txs = make([]*isoTxn, ii.nt+1)
		}
		return ii, nil
	}
	inst, err := (&Adapter{Cfg: cfg}).New(nil)
	if err != nil {
		return nil, err
	}
	if len(req.Keys) > 0 {
		inst.(*Inst).keys = req.Keys
	}
	return inst, nil
}

// RunHistory executes a history given as raw TLA+ call records on a fresh instance in THIS
// process and prints each observation (used by `vh txn-run`, the 3-line reproductions).
func RunHistory(adapter string, hist []string, out io.Writer) {
	module := "txn"
	if strings.HasPrefix(adapter, "txniso:") {
		module = "txniso"
	}
	inst, err := childInstance(canaryReq{Module: module, Adapter: adapter})
	if err != nil {
		fmt.Fprintln(out, err)
		return
	}
	for _, h := range hist {
		c := tla.MustParse(h)
		fmt.Fprintf(out, "%-60s => %v\n", h, inst.Apply(&c))
	}
}
