// Package txnad binds Txn.tla (property C18) to the real transaction implementations:
//
//	txn:mem     the in-memory store's transactions (mem.NewStoreForVerif, build tag verif)
//	txn:serial  keyvalue.TransactionOrSerial over a store that only has Get/Set
//
// Every call runs under recover() and a watchdog. Go's "fatal error: sync: unlock of unlocked
// mutex" is neither: it kills the process. Calls that can end that way (Commit or Abort on a
// transaction on which Abort was already called) are therefore first executed, together with
// the history leading to them, in a child process (see canary.go); only when the child
// survives is the call made in this process.
package txnad

import (
	"context"
	"errors"
	"fmt"
	"strings"
	"sync/atomic"
	"time"

	"github.com/hack-pad/hackpadfs"
	"github.com/hack-pad/hackpadfs/keyvalue"
	"github.com/hack-pad/hackpadfs/keyvalue/blob"
	"github.com/hack-pad/hackpadfs/mem"
	"verif/harness/engine"
	"verif/harness/fsad"
	"verif/harness/tla"
)

// Watchdog is the time a call of the real code gets before it is reported as HANG.
var Watchdog = 5 * time.Second

// After HangBudget calls were observed to hang for the full Watchdog the run is red anyway; the
// remaining calls get ShortWatchdog so that a tree that never releases the store still finishes.
var (
	HangBudget    int64 = 16
	ShortWatchdog       = 25 * time.Millisecond
	hangsSeen     int64
)

func watchdog() time.Duration {
	if atomic.LoadInt64(&hangsSeen) >= HangBudget {
		return ShortWatchdog
	}
	return Watchdog
}

func noteHang() { atomic.AddInt64(&hangsSeen, 1) }

// Config configures one adapter.
type Config struct {
	AdapterName string // "txn:mem" | "txn:serial"
	Prop        string // property divergences are attributed to (C18)
	InChild     bool   // running inside the canary child: never spawn children
}

// NewStore returns the store behind an adapter name.
func NewStore(adapter string) (keyvalue.Store, error) {
	switch adapter {
	case "txn:mem":
		return mem.NewStoreForVerif(), nil
	case "txn:serial":
		return fsad.NewPlainStore(), nil
	}
	return nil, fmt.Errorf("unknown txn adapter %q", adapter)
}

type Adapter struct{ Cfg Config }

func (a *Adapter) Name() string { return a.Cfg.AdapterName }

func (a *Adapter) New(init *tla.Value) (engine.Instance, error) {
	st, err := NewStore(a.Cfg.AdapterName)
	if err != nil {
		return nil, err
	}
	in := &Inst{cfg: &a.Cfg, store: st, keys: []string{"k1", "k2"}}
	if init != nil {
		if s := init.Get("store"); s != nil && len(s.Names) > 0 {
			in.keys = append([]string(nil), s.Names...)
		}
	}
	return in, nil
}

// ErrHandler is what a failing handler returns.
var ErrHandler = errors.New("verif: handler failed")

// Begin opens a transaction the way keyvalue.FS does.
func Begin(st keyvalue.Store) (keyvalue.Transaction, error) {
	return keyvalue.TransactionOrSerial(st, keyvalue.TransactionOptions{Mode: keyvalue.TransactionReadWrite})
}

// BeginMode opens a transaction in the given mode ("ro": read-only, anything else: read-write).
func BeginMode(st keyvalue.Store, mode string) (keyvalue.Transaction, error) {
	m := keyvalue.TransactionReadWrite
	if mode == "ro" {
		m = keyvalue.TransactionReadOnly
	}
	return keyvalue.TransactionOrSerial(st, keyvalue.TransactionOptions{Mode: m})
}

// Record is the FileRecord stored for model value v.
func Record(v string) (keyvalue.FileRecord, blob.Blob) {
	b := blob.NewBytes([]byte(v))
	return keyvalue.NewBaseFileRecord(int64(len(v)), time.Unix(1000000000, 0), 0644, nil,
		func() (blob.Blob, error) { return b, nil }, nil), b
}

// ValueOf reads the model value back out of a record ("-" = no record).
func ValueOf(r keyvalue.FileRecord) string {
	if r == nil {
		return "-"
	}
	b, err := r.Data()
	if err != nil || b == nil {
		return "?data-error"
	}
	return string(b.Bytes())
}

// ErrClass maps an operation error to the classes of Txn.tla.
func ErrClass(err error) string {
	switch {
	case err == nil:
		return "ok"
	case errors.Is(err, ErrHandler):
		return "HERR"
	case errors.Is(err, hackpadfs.ErrNotExist):
		return "ENOENT"
	}
	return "ERR"
}

// ResObs is one element of the list Commit returned.
type ResObs struct {
	ID    int64
	Val   string
	Class string
	Err   string
}

// Obs is what one call of the model alphabet did on the real code.
type Obs struct {
	Op          string
	ID          int64 // OpID returned by Get/Set (-1: not such a call)
	Err         error // error returned by Begin/Abort/Commit
	Results     []ResObs
	GotResults  bool // Commit returned a non-nil slice
	HandlerRuns int
	HandlerID   int64
	Probe       string // "" = probe transaction fine, else what went wrong
	Panic       string
	Fatal       string // the call killed the (child) process
	Hang        bool
	Dead        bool // instance no longer exists (earlier FATAL / HANG)
}

func (o Obs) class() string {
	switch {
	case o.Dead:
		return "DEAD"
	case o.Fatal != "":
		return "FATAL"
	case o.Hang:
		return "HANG"
	case o.Panic != "":
		return "PANIC"
	case o.Err != nil:
		return "ERR"
	}
	return "ok"
}

func (o Obs) String() string {
	switch o.class() {
	case "DEAD":
		return "DEAD (instance lost by an earlier FATAL/HANG)"
	case "FATAL":
		return "FATAL " + o.Fatal
	case "HANG":
		return "HANG (no return within the watchdog)"
	case "PANIC":
		return "PANIC " + o.Panic
	}
	var b strings.Builder
	fmt.Fprintf(&b, "%s:", o.Op)
	if o.ID >= 0 {
		fmt.Fprintf(&b, " opid=%d", o.ID)
	}
	if o.HandlerRuns > 0 {
		fmt.Fprintf(&b, " handler-runs=%d handler-saw-opid=%d", o.HandlerRuns, o.HandlerID)
	}
	if o.Op == "commit" {
		if !o.GotResults {
			b.WriteString(" results=nil")
		} else {
			b.WriteString(" results=[")
			for i, r := range o.Results {
				if i > 0 {
					b.WriteString(" ")
				}
				fmt.Fprintf(&b, "{op=%d v=%s %s}", r.ID, r.Val, r.Class)
			}
			b.WriteString("]")
		}
	}
	if o.Op == "probe" && o.Probe != "" {
		b.WriteString(" probe: " + o.Probe)
	}
	fmt.Fprintf(&b, " err=%v", o.Err)
	return b.String()
}

type Inst struct {
	cfg      *Config
	store    keyvalue.Store
	keys     []string
	txn      keyvalue.Transaction
	sawAbort bool     // Abort was called (directly or by a handler) on the current transaction
	hist     []string // raw calls applied so far (what a canary child has to repeat)
	dead     bool
	dirty    bool
}

func (in *Inst) Dirty() bool { return in.dirty || in.dead }
func (in *Inst) Close()      {}

// guarded runs f under recover() and the watchdog.
func (in *Inst) guarded(f func() Obs) Obs {
	ch := make(chan Obs, 1)
	go func() {
		defer func() {
			if r := recover(); r != nil {
				ch <- Obs{ID: -1, Panic: fmt.Sprint(r)}
			}
		}()
		ch <- f()
	}()
	t := time.NewTimer(watchdog())
	defer t.Stop()
	select {
	case o := <-ch:
		return o
	case <-t.C:
		in.dead = true
		noteHang()
		return Obs{ID: -1, Hang: true}
	}
}

// risky: the call may end in a fatal runtime error (double unlock) rather than a panic.
func (in *Inst) risky(op string) bool {
	return in.sawAbort && (op == "commit" || op == "abort")
}

func (in *Inst) Apply(call *tla.Value) any {
	op := call.F("op").S
	in.hist = append(in.hist, call.Raw)
	if in.dead {
		return Obs{Op: op, ID: -1, Dead: true}
	}
	if in.risky(op) && !in.cfg.InChild {
		if msg := canaryRun(canaryReq{Module: "txn", Adapter: in.cfg.AdapterName, Keys: in.keys, Hist: in.hist}); msg != "" {
			in.dead = true
			return Obs{Op: op, ID: -1, Fatal: msg}
		}
	}
	o := in.guarded(func() Obs { return in.do(call) })
	o.Op = op
	return o
}

func (in *Inst) handler(h string, o *Obs) keyvalue.OpHandler {
	return keyvalue.OpHandlerFunc(func(txn keyvalue.Transaction, r keyvalue.OpResult) error {
		o.HandlerRuns++
		o.HandlerID = int64(r.Op)
		switch h {
		case "fail":
			return ErrHandler
		case "abort":
			in.sawAbort = true
			_ = txn.Abort()
		}
		return nil
	})
}

func (in *Inst) do(call *tla.Value) (o Obs) {
	o.ID = -1
	op := call.F("op").S
	switch op {
	case "begin":
		in.txn, in.sawAbort = nil, false
		t, err := Begin(in.store)
		o.Err = err
		in.txn = t
	case "get":
		o.ID = int64(in.txn.Get(call.F("k").S))
	case "geth":
		o.ID = int64(in.txn.GetHandler(call.F("k").S, in.handler(call.F("h").S, &o)))
	case "set", "seth":
		var rec keyvalue.FileRecord
		var data blob.Blob
		if v := call.F("v").S; v != "nil" {
			rec, data = Record(v)
		}
		if op == "set" {
			o.ID = int64(in.txn.Set(call.F("k").S, rec, data))
		} else {
			o.ID = int64(in.txn.SetHandler(call.F("k").S, rec, data, in.handler(call.F("h").S, &o)))
		}
	case "abort":
		in.sawAbort = true
		o.Err = in.txn.Abort()
	case "commit":
		res, err := in.txn.Commit(context.Background())
		o.Err = err
		o.GotResults = res != nil
		for _, r := range res {
			ro := ResObs{ID: int64(r.Op), Val: ValueOf(r.Record), Class: ErrClass(r.Err)}
			if r.Err != nil {
				ro.Err = r.Err.Error()
			}
			o.Results = append(o.Results, ro)
		}
	case "probe":
		o.Probe = ProbeStore(in.store)
	default:
		panic("unknown txn op " + op)
	}
	return o
}

// ProbeStore runs a fresh transaction (Set, Get, delete of a key outside the model, Commit) and
// says what went wrong ("" = nothing).
func ProbeStore(st keyvalue.Store) string {
	t, err := Begin(st)
	if err != nil {
		return "ERR begin: " + err.Error()
	}
	rec, data := Record("probe-value")
	a := t.Set("verif-probe", rec, data)
	b := t.Get("verif-probe")
	c := t.Set("verif-probe", nil, nil)
	res, err := t.Commit(context.Background())
	if err != nil {
		return "ERR commit: " + err.Error()
	}
	if len(res) != 3 {
		return fmt.Sprintf("RESULTS %d results for 3 calls", len(res))
	}
	for i, id := range []keyvalue.OpID{a, b, c} {
		if res[i].Op != id || int(id) != i {
			return fmt.Sprintf("OPID result %d has op id %d, call returned %d", i, res[i].Op, id)
		}
		if res[i].Err != nil {
			return fmt.Sprintf("ERR result %d: %v", i, res[i].Err)
		}
	}
	if v := ValueOf(res[1].Record); v != "probe-value" {
		return "VALUE probe read back " + v
	}
	return ""
}

// ReadStore reads the model keys through a fresh transaction (the projection of Txn.tla's store).
func ReadStore(st keyvalue.Store, keys []string) (map[string]string, string) {
	t, err := Begin(st)
	if err != nil {
		return nil, "ERR begin: " + err.Error()
	}
	for _, k := range keys {
		t.Get(k)
	}
	res, err := t.Commit(context.Background())
	if err != nil {
		return nil, "ERR commit: " + err.Error()
	}
	if len(res) != len(keys) {
		return nil, fmt.Sprintf("RESULTS %d results for %d calls", len(res), len(keys))
	}
	out := map[string]string{}
	for i, k := range keys {
		switch ErrClass(res[i].Err) {
		case "ok":
			out[k] = ValueOf(res[i].Record)
		case "ENOENT":
			out[k] = "-"
		default:
			return nil, fmt.Sprintf("ERR get %s: %v", k, res[i].Err)
		}
	}
	return out, ""
}

func (in *Inst) sig(call, tr *tla.Value, what string) string {
	op, b := "-", "-"
	if call != nil {
		op = call.F("op").S
	}
	if tr != nil {
		if bv := tr.Get("b"); bv != nil {
			b = bv.S
		}
	}
	return fmt.Sprintf("%s %s %s %s", in.cfg.AdapterName, op, b, what)
}

func (in *Inst) CheckResult(call, tr *tla.Value, obsAny any) []engine.Div {
	o := obsAny.(Obs)
	var divs []engine.Div
	add := func(what, detail string) {
		divs = append(divs, engine.Div{Prop: in.cfg.Prop, Sig: in.sig(call, tr, what), Detail: detail})
		in.dirty = true
	}
	op := call.F("op").S
	exp := tr.F("e").S
	b := tr.F("b").S
	got := o.class()
	switch got {
	case "DEAD":
		return nil // the FATAL/HANG that lost the instance was reported where it happened
	case "FATAL", "HANG", "PANIC":
		add("exp="+exp+" got="+got, o.String())
		return divs
	}
	switch op {
	case "begin":
		if got != "ok" {
			add("exp=ok got=ERR", o.String())
		}
	case "abort":
		if exp == "ok" && got != "ok" {
			add("exp=ok got=ERR", o.String())
		}
	case "probe":
		if o.Probe != "" {
			add("exp=ok got="+strings.SplitN(o.Probe, " ", 2)[0], o.String())
		}
	case "get", "geth", "set", "seth":
		if want := tr.F("id").I; o.ID != want {
			add("exp=opid got=wrong-opid", fmt.Sprintf("%s; the call must return op id %d", o.String(), want))
		}
		if h := call.F("h").S; h != "" && !strings.HasSuffix(b, "/aborted") {
			if o.HandlerRuns != 1 {
				add("exp=handler-once got=handler-runs", o.String())
			} else if o.HandlerID != o.ID {
				add("exp=handler-opid got=wrong-opid", o.String())
			}
		}
	case "commit":
		if exp == "ok" && got != "ok" {
			add("exp=ok got=ERR", o.String())
		}
		for _, d := range compareResults(tr.F("rs").E, o) {
			add(d[0], d[1])
		}
	}
	return divs
}

func (in *Inst) CheckState(exp *tla.Value, call, tr *tla.Value) []engine.Div {
	if in.dead {
		if call == nil {
			return []engine.Div{{Prop: in.cfg.Prop, Sig: in.sig(call, tr, "state lost"), Detail: "instance lost by FATAL/HANG"}}
		}
		return nil
	}
	if exp.F("status").S == "active" {
		// a transaction holds the store; its content is observed by the transaction's own Gets
		return nil
	}
	var divs []engine.Div
	add := func(what, detail string) {
		divs = append(divs, engine.Div{Prop: in.cfg.Prop, Sig: in.sig(call, tr, what), Detail: detail})
		in.dirty = true
	}
	type proj struct {
		m   map[string]string
		bad string
	}
	var p proj
	o := in.guarded(func() Obs {
		p.m, p.bad = ReadStore(in.store, in.keys)
		return Obs{ID: -1}
	})
	switch {
	case o.Hang:
		add("state store-not-released", "a fresh transaction did not open and commit within the watchdog (status "+exp.F("status").S+")")
	case o.Panic != "":
		add("state projection-panic", o.Panic)
	case p.bad != "":
		add("state store-unusable", p.bad)
	default:
		want := exp.F("store")
		for i, k := range want.Names {
			if p.m[k] != want.E[i].S {
				add("state store-content", fmt.Sprintf("key %s holds %s, model %s", k, p.m[k], want.Raw))
				break
			}
		}
	}
	return divs
}

// compareResults compares the list Commit returned with the list the model prescribes; each
// element of the answer is {signature part, detail}. One divergence per kind.
func compareResults(want []tla.Value, o Obs) (out [][2]string) {
	switch {
	case len(o.Results) == len(want):
	case len(o.Results) == 0:
		return [][2]string{{"exp=one-result-per-call got=no-results", fmt.Sprintf("%s; want %d results", o.String(), len(want))}}
	case len(o.Results) < len(want):
		return [][2]string{{"exp=one-result-per-call got=fewer", fmt.Sprintf("%s; want %d results", o.String(), len(want))}}
	default:
		return [][2]string{{"exp=one-result-per-call got=more", fmt.Sprintf("%s; want %d results", o.String(), len(want))}}
	}
	seen := map[string]bool{}
	for i := range want {
		w, g := &want[i], o.Results[i]
		what := ""
		we := w.F("e").S
		switch {
		case g.ID != w.F("id").I:
			what = "exp=result-opid got=wrong-opid"
		case we == "ABORTED" && g.Class == "ok":
			what = "exp=result-ABORTED got=ok"
		case we == "ABORTED":
		case we != g.Class:
			what = "exp=result-" + we + " got=" + g.Class
		case w.F("v").S != g.Val && (we == "ok" || we == "HERR"):
			what = "exp=result-value got=other-value"
		}
		if what != "" && !seen[what] {
			seen[what] = true
			out = append(out, [2]string{what, fmt.Sprintf("%s; result %d must be %s", o.String(), i, w.Raw)})
		}
	}
	return out
}
