package txnad

import (
	"context"
	"fmt"
	"strings"
	"time"

	"github.com/hack-pad/hackpadfs/keyvalue"
	"github.com/hack-pad/hackpadfs/keyvalue/blob"
	"verif/harness/engine"
	"verif/harness/tla"
)

// Adapter "txniso:mem" binds TxnIso.tla to concurrent transactions of the in-memory store:
// every model transaction runs in its own goroutine, the engine releases one step at a time.
// A Begin that does not return within BlockWait while another transaction of the instance is
// open is observed as BLOCKED; it has to return when the holder ends.

// BlockWait is how long a Begin is given to return while another transaction is open.
var BlockWait = 4 * time.Millisecond

type IsoAdapter struct{ Cfg Config }

func (a *IsoAdapter) Name() string { return a.Cfg.AdapterName }

func (a *IsoAdapter) New(init *tla.Value) (engine.Instance, error) {
	st, err := NewStore(strings.Replace(a.Cfg.AdapterName, "txniso:", "txn:", 1))
	if err != nil {
		return nil, err
	}
	in := &IsoInst{cfg: &a.Cfg, store: st, keys: []string{"k1", "k2"}, nt: 3}
	if init != nil {
		if s := init.Get("store"); s != nil && len(s.Names) > 0 {
			in.keys = append([]string(nil), s.Names...)
		}
		if tx := init.Get("tx"); tx != nil {
			in.nt = len(tx.E)
		}
	}
	in.txs = make([]*isoTxn, in.nt+1)
	return in, nil
}

type isoTxn struct {
	ready    chan struct{} // closed when Transaction() returned
	cmds     chan func()
	txn      keyvalue.Transaction
	err      error
	waiting  bool // observed BLOCKED, not yet seen ready
	sawAbort bool
	ended    bool
}

func (x *isoTxn) isReady() bool {
	select {
	case <-x.ready:
		return true
	default:
		return false
	}
}

type IsoInst struct {
	cfg      *Config
	store    keyvalue.Store
	keys     []string
	nt       int
	txs      []*isoTxn
	anyAbort bool
	hist     []string
	dead     bool
	dirty    bool
	closed   chan struct{}
}

// IsoObs is what one step did.
type IsoObs struct {
	Obs
	Blocked   bool // begin: did not return within the wait
	Woken     int  // transaction whose blocked Begin returned because of this step (0 none)
	EarlyWake int  // transaction whose blocked Begin had returned before this step although nobody released the store
	NotReady  bool // step of a transaction whose Begin has not returned
}

func (o IsoObs) String() string {
	s := o.Obs.String()
	if o.Blocked {
		s += " BLOCKED"
	}
	if o.Woken != 0 {
		s += fmt.Sprintf(" woke=T%d", o.Woken)
	}
	if o.EarlyWake != 0 {
		s += fmt.Sprintf(" early-return-of-blocked-begin=T%d", o.EarlyWake)
	}
	if o.NotReady {
		s += " (Begin of this transaction still blocked)"
	}
	return s
}

func (in *IsoInst) Dirty() bool { return in.dirty || in.dead }

// Close ends what can be ended safely so that goroutines do not pile up.
func (in *IsoInst) Close() {
	if in.closed != nil {
		return
	}
	in.closed = make(chan struct{})
	close(in.closed)
	safe := !in.anyAbort && !in.dead
	for _, x := range in.txs {
		if x == nil {
			continue
		}
		x := x
		if safe && !x.ended {
			// the holder aborts in its goroutine; a waiter then gets the store, aborts and leaves
			select {
			case x.cmds <- func() {
				if x.txn != nil {
					_ = x.txn.Abort()
				}
			}:
			default:
			}
		}
		select {
		case x.cmds <- nil:
		default:
			go func() {
				select {
				case x.cmds <- nil:
				case <-time.After(watchdog()):
				}
			}()
		}
	}
}

func (in *IsoInst) open() int {
	n := 0
	for _, x := range in.txs {
		if x != nil && x.isReady() && !x.ended && !x.sawAbort {
			n++
		}
	}
	return n
}

func (in *IsoInst) Apply(call *tla.Value) any {
	op := call.F("op").S
	t := int(call.F("t").I)
	in.hist = append(in.hist, call.Raw)
	o := IsoObs{Obs: Obs{Op: op, ID: -1}}
	if in.dead {
		o.Dead = true
		return o
	}
	// a blocked Begin that returned although nobody released the store
	for u, x := range in.txs {
		if x != nil && x.waiting && x.isReady() {
			x.waiting = false
			o.EarlyWake = u
		}
	}
	if (op == "commit" || op == "abort") && in.anyAbort && !in.cfg.InChild {
		if msg := canaryRun(canaryReq{Module: "txniso", Adapter: in.cfg.AdapterName, Keys: in.keys, NT: in.nt, Hist: in.hist}); msg != "" {
			in.dead = true
			o.Fatal = msg
			return o
		}
	}
	if op == "begin" {
		x := &isoTxn{ready: make(chan struct{}), cmds: make(chan func(), 2)}
		in.txs[t] = x
		wd := watchdog()
		wait := wd
		if in.open() > 0 {
			wait = BlockWait
		}
		mode := call.F("k").S
		go func() {
			x.txn, x.err = BeginMode(in.store, mode)
			close(x.ready)
			for f := range x.cmds {
				if f == nil {
					return
				}
				f()
			}
		}()
		tm := time.NewTimer(wait)
		defer tm.Stop()
		select {
		case <-x.ready:
			o.Err = x.err
		case <-tm.C:
			if wait == wd {
				o.Hang = true
				in.dead = true
				noteHang()
			} else {
				o.Blocked = true
				x.waiting = true
			}
		}
		return o
	}
	x := in.txs[t]
	if x == nil || !x.isReady() {
		o.NotReady = true
		in.dirty = true
		return o
	}
	held := !x.sawAbort // by the harness's bookkeeping this transaction still holds the store
	done := make(chan Obs, 1)
	x.cmds <- func() {
		defer func() {
			if r := recover(); r != nil {
				done <- Obs{ID: -1, Panic: fmt.Sprint(r)}
			}
		}()
		done <- in.step(x, t, call)
	}
	tm := time.NewTimer(watchdog())
	defer tm.Stop()
	select {
	case r := <-done:
		r.Op = op
		o.Obs = r
	case <-tm.C:
		o.Hang = true
		in.dead = true
		noteHang()
		return o
	}
	if op == "abort" || op == "commit" {
		// whoever was blocked may return now; give it the long wait only when this step released the store
		wait := BlockWait
		if held {
			wait = watchdog()
		}
		for u, w := range in.txs {
			if w == nil || !w.waiting {
				continue
			}
			tm2 := time.NewTimer(wait)
			select {
			case <-w.ready:
				w.waiting = false
				o.Woken = u
			case <-tm2.C:
				if held {
					o.Hang = true // the store was not handed over
					in.dead = true
					noteHang()
				}
			}
			tm2.Stop()
		}
	}
	return o
}

func (in *IsoInst) step(x *isoTxn, t int, call *tla.Value) (o Obs) {
	o.ID = -1
	switch op := call.F("op").S; op {
	case "get":
		o.ID = int64(x.txn.Get(call.F("k").S))
	case "set":
		var rec keyvalue.FileRecord
		var data blob.Blob
		if call.F("v").S != "nil" {
			rec, data = Record(fmt.Sprintf("v%d", t))
		}
		o.ID = int64(x.txn.Set(call.F("k").S, rec, data))
	case "abort":
		x.sawAbort, in.anyAbort = true, true
		o.Err = x.txn.Abort()
	case "commit":
		x.ended = true
		res, err := x.txn.Commit(context.Background())
		o.Err = err
		o.GotResults = res != nil
		for _, r := range res {
			ro := ResObs{ID: int64(r.Op), Val: ValueOf(r.Record), Class: ErrClass(r.Err)}
			if r.Err != nil {
				ro.Err = r.Err.Error()
			}
			o.Results = append(o.Results, ro)
		}
	default:
		panic("unknown txniso op " + op)
	}
	return o
}

func (in *IsoInst) sig(call, tr *tla.Value, what string) string {
	op, b := "-", "-"
	if call != nil {
		op = call.F("op").S
	}
	if tr != nil {
		if bv := tr.Get("b"); bv != nil {
			b = bv.S
		}
	}
	return fmt.Sprintf("%s %s %s %s", in.cfg.AdapterName, op, b, what)
}

func (in *IsoInst) CheckResult(call, tr *tla.Value, obsAny any) []engine.Div {
	o := obsAny.(IsoObs)
	var divs []engine.Div
	add := func(what, detail string) {
		divs = append(divs, engine.Div{Prop: in.cfg.Prop, Sig: in.sig(call, tr, what), Detail: detail})
		in.dirty = true
	}
	op := call.F("op").S
	exp := tr.F("e").S
	got := o.class()
	if o.Blocked {
		got = "BLOCKED"
	}
	if o.NotReady {
		got = "STILL-BLOCKED"
	}
	switch got {
	case "DEAD":
		return nil
	case "FATAL", "HANG", "PANIC", "STILL-BLOCKED":
		add("exp="+exp+" got="+got, o.String())
		return divs
	}
	if o.EarlyWake != 0 {
		add("exp=BLOCKED-until-holder-ends got=returned-early", o.String())
	}
	switch op {
	case "begin":
		if exp != got {
			add("exp="+exp+" got="+got, o.String())
		}
	case "abort":
		if got != "ok" {
			add("exp=ok got=ERR", o.String())
		}
	case "get", "set":
		if want := tr.F("id").I; o.ID != want {
			add("exp=opid got=wrong-opid", fmt.Sprintf("%s; the call must return op id %d", o.String(), want))
		}
	case "commit":
		if exp == "ok" && got != "ok" {
			add("exp=ok got=ERR", o.String())
		}
		for _, d := range compareResults(tr.F("rs").E, o.Obs) {
			add(d[0], d[1])
		}
	}
	if op == "abort" || op == "commit" {
		if w := int(tr.F("w").I); w != o.Woken {
			if w == 0 {
				add("exp=no-wakeup got=woke-blocked-begin", o.String())
			} else {
				add("exp=wakes-blocked-begin got=no-wakeup", o.String())
			}
		}
	}
	return divs
}

func (in *IsoInst) CheckState(exp *tla.Value, call, tr *tla.Value) []engine.Div {
	if in.dead {
		if call == nil {
			return []engine.Div{{Prop: in.cfg.Prop, Sig: in.sig(call, tr, "state lost"), Detail: "instance lost by FATAL/HANG"}}
		}
		return nil
	}
	if exp.F("lock").I != 0 {
		// somebody holds the store: its content is what the holder's Gets return
		return nil
	}
	var divs []engine.Div
	add := func(what, detail string) {
		divs = append(divs, engine.Div{Prop: in.cfg.Prop, Sig: in.sig(call, tr, what), Detail: detail})
		in.dirty = true
	}
	type proj struct {
		m   map[string]string
		bad string
	}
	ch := make(chan proj, 1)
	go func() {
		defer func() {
			if r := recover(); r != nil {
				ch <- proj{bad: "PANIC " + fmt.Sprint(r)}
			}
		}()
		m, bad := ReadStore(in.store, in.keys)
		ch <- proj{m, bad}
	}()
	tm := time.NewTimer(watchdog())
	defer tm.Stop()
	select {
	case p := <-ch:
		if p.bad != "" {
			add("state store-unusable", p.bad)
			break
		}
		want := exp.F("store")
		for i, k := range want.Names {
			if p.m[k] != want.E[i].S {
				add("state store-content", fmt.Sprintf("key %s holds %s, model %s", k, p.m[k], want.Raw))
				break
			}
		}
	case <-tm.C:
		in.dead = true
		noteHang()
		add("state store-not-released", "no transaction is open in the model, yet a fresh transaction did not open and commit within the watchdog")
	}
	return divs
}
