package fsad

import (
	"fmt"
	"sort"
	"strings"
	"sync"
	"sync/atomic"
	"time"

	"github.com/hack-pad/hackpadfs"
	"github.com/hack-pad/hackpadfs/mem"
	"github.com/hack-pad/hackpadfs/mount"
	"verif/harness/engine"
	"verif/harness/tla"
)

// MountAdd.tla: concurrent AddMount calls on one mount.FS, forced step by step through the hook points of
// mount.FS.addMount (mount.VerifStep, build tag verif): every goroutine stops after the unlocked look-up, after taking
// mountMu and after the mount-point check; the model says where each goroutine stands after every step, who blocks on
// the mutex, who is woken, what every AddMount returns and which file system every look-up names.

// the hook is global; instances run in parallel, so goroutines are found by the file system they mount
var maRegistry sync.Map // hackpadfs.FS (the *mem.FS being mounted) -> *maThread
var maHookOnce sync.Once

func maInstallHook() {
	maHookOnce.Do(func() {
		mount.VerifStep = func(point string, m hackpadfs.FS) {
			if th, ok := maRegistry.Load(m); ok {
				th.(*maThread).arrive(point)
			}
		}
	})
}

type maThread struct {
	in      *MountAddInst
	id      int
	fs      hackpadfs.FS
	point   string
	mu      sync.Mutex
	gate    chan struct{}
	pos     string // start | prechecked | released-to-lock | locked | checked | running-held | done
	err     error
	started bool
	ev      chan string // "at:<point>" when the goroutine reaches a hook point, "done" when AddMount returned
}

func (th *maThread) arrive(point string) {
	th.mu.Lock()
	if th.in.closing.Load() {
		th.mu.Unlock()
		return
	}
	g := make(chan struct{})
	th.gate, th.pos = g, point
	th.mu.Unlock()
	th.ev <- "at:" + point
	<-g
}

type MountAddAdapter struct {
	AdapterName string
	Prop        string // C06
}

func (a *MountAddAdapter) Name() string { return a.AdapterName }

type MountAddInst struct {
	ad      *MountAddAdapter
	mfs     *mount.FS
	root    hackpadfs.FS
	threads map[int]*maThread
	closing atomic.Bool
	blocked map[int]bool // goroutines sent into the held mutex whose arrival behind it has not been consumed yet
	dirty   bool
	dead    bool
}

// BlockWait: how long a goroutine sent into a held mutex is given before it is taken to be blocked there.
const maBlockWait = 40 * time.Millisecond
const maWatchdog = 5 * time.Second

func (a *MountAddAdapter) New(init *tla.Value) (engine.Instance, error) {
	maInstallHook()
	root, err := mem.NewFS()
	if err != nil {
		return nil, err
	}
	// the root file system: every point of the configuration as a directory, a file or missing
	type pk struct{ p, k string }
	var pts []pk
	init.F("rk").Pairs(func(k, v *tla.Value) { pts = append(pts, pk{k.S, v.S}) })
	sort.Slice(pts, func(i, j int) bool { return len(pts[i].p) < len(pts[j].p) })
	for _, x := range pts {
		switch x.k {
		case "dir":
			err = hackpadfs.MkdirAll(root, x.p, 0755)
		case "file":
			err = hackpadfs.WriteFullFile(root, x.p, []byte{1}, 0644)
		}
		if err != nil && !strings.Contains(x.p, "/") {
			return nil, err
		}
	}
	mfs, err := mount.NewFS(root)
	if err != nil {
		return nil, err
	}
	in := &MountAddInst{ad: a, mfs: mfs, root: root, threads: map[int]*maThread{}, blocked: map[int]bool{}}
	init.F("po").Pairs(func(k, v *tla.Value) {
		tfs, _ := mem.NewFS()
		th := &maThread{in: in, id: int(k.I), fs: tfs, point: v.S, pos: "start", ev: make(chan string, 8)}
		in.threads[th.id] = th
		maRegistry.Store(hackpadfs.FS(tfs), th)
	})
	return in, nil
}

func (in *MountAddInst) Dirty() bool { return in.dirty || in.dead }

func (in *MountAddInst) Close() {
	in.closing.Store(true)
	for _, th := range in.threads {
		th.mu.Lock()
		if th.gate != nil {
			select {
			case <-th.gate:
			default:
				close(th.gate)
			}
		}
		th.mu.Unlock()
		maRegistry.Delete(th.fs)
	}
}

type MountAddObs struct {
	E     string
	W     int
	F     int
	Early int // a goroutine blocked on the mutex went on although the holder had not returned
	Hang  bool
	Note  string
}

func (o MountAddObs) String() string {
	s := fmt.Sprintf("%s woken=%d fs=%d", o.E, o.W, o.F)
	if o.Early != 0 {
		s += fmt.Sprintf(" early-wake=T%d", o.Early)
	}
	if o.Hang {
		s += " HANG"
	}
	if o.Note != "" {
		s += " " + o.Note
	}
	return s
}

// holder: by the harness's own bookkeeping, the goroutine standing between Lock and its return (0: none)
func (in *MountAddInst) holder() int {
	for id, th := range in.threads {
		th.mu.Lock()
		p := th.pos
		th.mu.Unlock()
		if p == "locked" || p == "checked" || p == "running-held" {
			return id
		}
	}
	return 0
}

// waitFor waits for the next event of goroutine id.
func (in *MountAddInst) waitFor(id int, d time.Duration) (string, bool) {
	tm := time.NewTimer(d)
	defer tm.Stop()
	select {
	case ev := <-in.threads[id].ev:
		return ev, true
	case <-tm.C:
		return "", false
	}
}

func errClassMA(err error) string { return ErrKind(err) }

func (in *MountAddInst) Apply(call *tla.Value) any {
	var o MountAddObs
	if in.dead {
		o.Note = "dead"
		return o
	}
	if call.F("op").S == "lookup" {
		m, _ := in.mfs.Mount(call.F("q").S)
		o.E = "ok"
		if m != in.root {
			o.F = -1
			for id, th := range in.threads {
				if th.fs == m {
					o.F = id
				}
			}
		}
		return o
	}
	id := int(call.F("t").I)
	th := in.threads[id]
	heldBy := in.holder()
	th.mu.Lock()
	pos := th.pos
	th.mu.Unlock()
	wait := maWatchdog
	switch pos {
	case "start":
		th.started = true
		go func() {
			err := in.mfs.AddMount(th.point, th.fs)
			th.mu.Lock()
			th.err, th.pos = err, "done"
			th.mu.Unlock()
			th.ev <- "done"
		}()
	case "prechecked", "locked", "checked":
		if pos == "prechecked" && heldBy != 0 {
			wait = maBlockWait // expected to block inside mountMu.Lock
		}
		th.mu.Lock()
		g := th.gate
		if pos == "prechecked" {
			th.pos = "released-to-lock"
		} else {
			th.pos = "running-held"
		}
		th.mu.Unlock()
		close(g)
	default:
		o.Note = "step of a goroutine at " + pos
		in.dirty = true
		return o
	}
	what, ok := in.waitFor(id, wait)
	switch {
	case ok && what == "done":
		th.mu.Lock()
		o.E = "done:" + errClassMA(th.err)
		th.mu.Unlock()
	case ok:
		o.E = what
	case wait == maBlockWait:
		o.E = "blocked"
		in.blocked[id] = true
	default:
		o.E, o.Hang, in.dead = "HANG", true, true
		return o
	}
	// goroutines blocked on the mutex: whoever held it and returned must have handed it on
	released := heldBy == id && strings.HasPrefix(o.E, "done:")
	for wid := range in.blocked {
		if wid == id {
			continue
		}
		d := maBlockWait
		if released {
			d = maWatchdog
		}
		if _, ok := in.waitFor(wid, d); ok {
			delete(in.blocked, wid)
			if released {
				o.W = wid
			} else {
				o.Early = wid
			}
		} else if released {
			o.Hang, in.dead = true, true
			o.Note = fmt.Sprintf("T%d stayed blocked after the holder returned", wid)
		}
	}
	return o
}

func (in *MountAddInst) sig(call, tr *tla.Value, what string) string {
	if call == nil || tr == nil {
		return fmt.Sprintf("%s rebuild - %s", in.ad.AdapterName, what)
	}
	return fmt.Sprintf("%s %s %s %s", in.ad.AdapterName, call.F("op").S, tr.F("b").S, what)
}

func (in *MountAddInst) CheckResult(call, tr *tla.Value, obsAny any) []engine.Div {
	o := obsAny.(MountAddObs)
	var divs []engine.Div
	add := func(what string) {
		divs = append(divs, engine.Div{Prop: in.ad.Prop, Sig: in.sig(call, tr, what), Detail: o.String()})
		in.dirty = true
	}
	if o.Note == "dead" {
		return nil
	}
	if o.Hang {
		add("exp=" + tr.F("e").S + " got=HANG")
		return divs
	}
	if call.F("op").S == "lookup" {
		if int64(o.F) != tr.F("f").I {
			add(fmt.Sprintf("exp=%s got=%s", fsClass(tr.F("f").I), fsClass(int64(o.F))))
		}
		return divs
	}
	if o.E != tr.F("e").S {
		add(fmt.Sprintf("exp=%s got=%s", tr.F("e").S, o.E))
	}
	if o.Early != 0 {
		add("blocked-goroutine-went-on-while-the-mutex-was-held")
	}
	if int64(o.W) != tr.F("w").I {
		add(fmt.Sprintf("wake exp=%s got=%s", wakeClass(tr.F("w").I), wakeClass(int64(o.W))))
	}
	return divs
}

func fsClass(f int64) string {
	switch {
	case f == 0:
		return "root"
	case f < 0:
		return "unknown-fs"
	}
	return "mounted"
}

func wakeClass(w int64) string {
	if w == 0 {
		return "none"
	}
	return "waiter"
}

// CheckState: where every goroutine stands, what every finished AddMount returned, and the mount table.
func (in *MountAddInst) CheckState(exp *tla.Value, call, tr *tla.Value) []engine.Div {
	var diffs []string
	posOf := map[string]string{"start": "start", "lock": "prechecked", "blocked": "released-to-lock", "stat": "locked", "store": "checked", "done": "done"}
	exp.F("pc").Pairs(func(k, v *tla.Value) {
		th := in.threads[int(k.I)]
		th.mu.Lock()
		pos, err := th.pos, th.err
		th.mu.Unlock()
		if posOf[v.S] != pos {
			diffs = append(diffs, fmt.Sprintf("T%d at %s, model pc %s", k.I, pos, v.S))
		}
		if v.S == "done" {
			want := ""
			exp.F("res").Pairs(func(k2, r *tla.Value) {
				if k2.I == k.I {
					want = r.S
				}
			})
			if got := errClassMA(err); got != want {
				diffs = append(diffs, fmt.Sprintf("T%d returned %s, model %s", k.I, got, want))
			}
		}
	})
	mounted := map[string]bool{}
	for _, p := range in.mfs.MountPoints() {
		mounted[p.Path] = true
	}
	exp.F("table").Pairs(func(k, v *tla.Value) {
		m, sub := in.mfs.Mount(k.S)
		switch {
		case v.I == 0 && mounted[k.S]:
			diffs = append(diffs, fmt.Sprintf("point %s is mounted, model: free", k.S))
		case v.I != 0 && !mounted[k.S]:
			diffs = append(diffs, fmt.Sprintf("point %s is free, model: mounted by T%d", k.S, v.I))
		case v.I != 0 && (m != in.threads[int(v.I)].fs || sub != "."):
			diffs = append(diffs, fmt.Sprintf("point %s does not serve the file system of T%d", k.S, v.I))
		}
		delete(mounted, k.S)
	})
	for p := range mounted {
		diffs = append(diffs, "unexpected mount point "+p)
	}
	if len(diffs) == 0 {
		return nil
	}
	sort.Strings(diffs)
	in.dirty = true
	return []engine.Div{{Prop: in.ad.Prop, Sig: in.sig(call, tr, "state"), Detail: strings.Join(diffs, "; ")}}
}
