package fsad

import (
	"fmt"
	gofs "io/fs"
	"os"
	"path"
	"sort"
	"strings"

	"github.com/hack-pad/hackpadfs"
	"github.com/hack-pad/hackpadfs/mem"
	"github.com/hack-pad/hackpadfs/mount"
	hpos "github.com/hack-pad/hackpadfs/os"
	"verif/harness/engine"
	"verif/harness/tla"
)

// SubConfig binds FSCore histories to a Sub view, as a twin run (property C07):
// the same call is made on Sub(fsA, dir) at name and on fsB at dir/name, where fsA and fsB are
// two identically built file systems; results and the full projections of fsA and fsB must agree,
// and nothing outside dir may change. The specification supplies histories and the expected
// result; a disagreement with the specification that the parent shares is not a C07 matter.
type SubConfig struct {
	Config
	PropSub string   // C07
	Dirs    []string // chain of Sub arguments, outermost first ("d", "e" = Sub(Sub(fs,"d"),"e"))
	Base    string   // mem | kvplain | oshp | openonly | mntat | mntabove | mntnested | mntatnested
}

type SubAdapter struct{ Cfg SubConfig }

func (a *SubAdapter) Name() string { return a.Cfg.AdapterName }

// openOnly exposes nothing but Open.
type openOnly struct{ fs hackpadfs.FS }

func (o openOnly) Open(name string) (gofs.File, error) { return o.fs.Open(name) }

type subBase struct {
	// sibling: a directory outside the view (a mount point whose name is a string prefix of the view's directory) that must stay empty
	sibling string
	top     hackpadfs.FS // what Sub is applied to / the parent is addressed through
	setup   hackpadfs.FS // a fully capable handle on the same content, for building and projecting
	cleanup func()
}

func (a *SubAdapter) mkBase() (*subBase, error) {
	dir := path.Join(a.Cfg.Dirs...)
	b := &subBase{cleanup: func() {}}
	switch a.Cfg.Base {
	case "mem", "kvplain", "openonly":
		mk := MemFS
		if a.Cfg.Base == "kvplain" {
			mk = KVPlainFS
		}
		fs, cl, err := mk()
		if err != nil {
			return nil, err
		}
		b.top, b.setup, b.cleanup = fs, fs, cl
		if a.Cfg.Base == "openonly" {
			b.top = openOnly{fs}
		}
	case "oshp":
		tmp, err := os.MkdirTemp(tmpBase(), "verif-sub-")
		if err != nil {
			return nil, err
		}
		fs, err := hpos.NewFS().Sub(strings.TrimPrefix(tmp, "/"))
		if err != nil {
			return nil, err
		}
		b.top, b.setup, b.cleanup = fs, fs, func() { _ = os.RemoveAll(tmp) }
	case "mntsibling":
		// a mount point whose name is a proper string prefix of the Sub directory's name ("d" vs "dx"): nothing of the
		// view may be routed into that mount
		root, _ := mem.NewFS()
		mfs, _ := mount.NewFS(root)
		point := dir[:1]
		if err := hackpadfs.MkdirAll(root, point, 0755); err != nil {
			return nil, err
		}
		inner, _ := mem.NewFS()
		if err := mfs.AddMount(point, inner); err != nil {
			return nil, err
		}
		b.top, b.setup, b.sibling = mfs, mfs, point
	case "mntat", "mntabove", "mntnested", "mntatnested":
		root, _ := mem.NewFS()
		mfs, _ := mount.NewFS(root)
		point := dir // the Sub directory is itself a mount point
		if a.Cfg.Base == "mntabove" {
			point = dir + "/a" // a mount point below the Sub directory, inside the call alphabet
		}
		if a.Cfg.Base == "mntnested" {
			// the Sub directory lies inside a mounted file system and another mount point lies below it
			outer := strings.Split(dir, "/")[0]
			if err := hackpadfs.MkdirAll(root, outer, 0755); err != nil {
				return nil, err
			}
			outerFS, _ := mem.NewFS()
			if err := mfs.AddMount(outer, outerFS); err != nil {
				return nil, err
			}
			point = dir + "/a"
			if err := hackpadfs.MkdirAll(mfs, point, 0755); err != nil {
				return nil, err
			}
			inner, _ := mem.NewFS()
			if err := mfs.AddMount(point, inner); err != nil {
				return nil, err
			}
			b.top, b.setup = mfs, mfs
			break
		}
		if err := hackpadfs.MkdirAll(root, point, 0755); err != nil {
			return nil, err
		}
		inner, _ := mem.NewFS()
		if err := mfs.AddMount(point, inner); err != nil {
			return nil, err
		}
		if a.Cfg.Base == "mntatnested" {
			// the Sub directory is a mount point, and a second file system is mounted below it
			if err := hackpadfs.MkdirAll(mfs, dir+"/a", 0755); err != nil {
				return nil, err
			}
			below, _ := mem.NewFS()
			if err := mfs.AddMount(dir+"/a", below); err != nil {
				return nil, err
			}
		}
		b.top, b.setup = mfs, mfs
	default:
		return nil, fmt.Errorf("unknown sub base %q", a.Cfg.Base)
	}
	if dir == "." {
		return b, nil // the view of the root itself: there is no outside
	}
	// content outside the view
	for _, step := range []func() error{
		func() error { return hackpadfs.MkdirAll(b.setup, dir, 0755) },
		func() error { return hackpadfs.MkdirAll(b.setup, "zz", 0755) },
		func() error { return hackpadfs.WriteFullFile(b.setup, "zz/o", []byte{9}, 0644) },
		func() error { return hackpadfs.WriteFullFile(b.setup, "o", []byte{8}, 0600) },
	} {
		if err := step(); err != nil {
			b.cleanup()
			return nil, err
		}
	}
	return b, nil
}

type SubInst struct {
	cfg       *SubConfig
	a, b      *subBase
	view      hackpadfs.FS
	dir       string
	probeA    *Inst // calls through the view
	probeB    *Inst // calls through the parent at dir/name
	dirty     bool
	lastObs   [2]Obs
	subFailed string // set when Sub itself refused an existing directory
	escaped   string // set when an os-backed view resolves outside its scratch directory: nothing is executed
}

type prefixed struct {
	fs  hackpadfs.FS
	dir string
}

func (a *SubAdapter) New(init *tla.Value) (engine.Instance, error) {
	in := &SubInst{cfg: &a.Cfg, dir: path.Join(a.Cfg.Dirs...)}
	var err error
	if in.a, err = a.mkBase(); err != nil {
		return nil, err
	}
	if in.b, err = a.mkBase(); err != nil {
		return nil, err
	}
	view := in.a.top
	for _, d := range a.Cfg.Dirs {
		next, err := hackpadfs.Sub(view, d)
		if err != nil {
			// the directory exists and the name is valid: Sub refusing it is a finding, not a harness failure
			in.subFailed = fmt.Sprintf("Sub(%q) of an existing directory failed: %v", d, err)
			in.escaped = in.subFailed
			break
		}
		view = next
	}
	in.view = view
	if osv, ok := view.(*hpos.FS); ok {
		// an os-backed view whose root is not inside the scratch directory must never be written through
		if p, err := osv.ToOSPath("."); err != nil || !strings.Contains(p, "verif-sub-") {
			in.escaped = fmt.Sprintf("the view's root is %q (%v)", p, err)
		}
	}
	in.probeA = NewProbe(&a.Cfg.Config, view)
	cfgB := a.Cfg.Config
	nm := map[string]string{}
	cfgB.NameMap = nm
	in.probeB = NewProbe(&cfgB, in.b.top)
	return in, nil
}

func (in *SubInst) Dirty() bool { return in.dirty }
func (in *SubInst) Close() {
	in.a.cleanup()
	in.b.cleanup()
}

func (in *SubInst) joined(p string) string {
	if p == "." {
		return in.dir
	}
	if in.dir == "." {
		return p // the view of the root itself: same names
	}
	return in.dir + "/" + p
}

func (in *SubInst) Apply(call *tla.Value) any {
	if in.escaped != "" {
		return Obs{Kind: "ESCAPED"}
	}
	oA := in.probeA.Apply(call).(Obs)
	// the same call on the parent of the twin, at dir joined with name
	p, q := in.probeA.path(call.F("p")), in.probeA.path(call.F("q"))
	oB := Do(in.b.top, call.F("op").S, in.joined(p), in.joined(q), flagOf(call.F("f")),
		hackpadfs.FileMode(call.F("perm").I), call.F("d").Bytes(), call.F("mt").S)
	in.lastObs = [2]Obs{oA, oB}
	// An operation the stack does not offer (ErrNotImplemented) is performed by the environment instead, through
	// the fully capable handle, so that the real state keeps following the model's history.
	if oA.Kind == "ENOSYS" {
		Do(in.a.setup, call.F("op").S, in.joined(p), in.joined(q), flagOf(call.F("f")),
			hackpadfs.FileMode(call.F("perm").I), call.F("d").Bytes(), call.F("mt").S)
		if oB.Kind == "ENOSYS" {
			Do(in.b.setup, call.F("op").S, in.joined(p), in.joined(q), flagOf(call.F("f")),
				hackpadfs.FileMode(call.F("perm").I), call.F("d").Bytes(), call.F("mt").S)
		}
	}
	return oA
}

// strip translates a parent-namespace path into the view's namespace.
func (in *SubInst) strip(p string) string {
	if p == in.dir {
		return "."
	}
	if in.dir == "." {
		return p
	}
	return strings.TrimPrefix(p, in.dir+"/")
}

func (in *SubInst) CheckResult(call, tr *tla.Value, obs any) []engine.Div {
	if in.escaped != "" {
		in.dirty = true
		what := "confinement view-root-outside-directory"
		if in.subFailed != "" {
			what = "sub-of-existing-directory-refused"
		}
		return []engine.Div{{Prop: in.cfg.PropSub, Sig: in.probeA.sig(call, tr, what), Detail: in.escaped}}
	}
	oA, oB := in.lastObs[0], in.lastObs[1]
	var divs []engine.Div
	add := func(what, detail string) {
		divs = append(divs, engine.Div{Prop: in.cfg.PropSub, Sig: in.probeA.sig(call, tr, what), Detail: detail})
		in.dirty = true
	}
	notOffered := oA.Kind == "ENOSYS"
	// (1) against the specification (attributed as configured; "-" = history generator only)
	if !notOffered {
		divs = append(divs, in.probeA.CheckResult(call, tr, oA)...)
	}
	// (2) view vs parent
	switch {
	case oA.Panic != "" || oB.Panic != "":
		if oA.Panic != oB.Panic {
			add("twin panic", fmt.Sprintf("view: %v parent: %v", oA, oB))
		}
	case notOffered:
		// the view does not offer the operation (tolerated: ErrNotImplemented, and the environment performed it)
	case oA.Kind != oB.Kind:
		add("twin result view="+oA.Kind+" parent="+oB.Kind, fmt.Sprintf("view: %v parent: %v", oA, oB))
	case oA.Err != nil:
		if oA.Typ != oB.Typ {
			add("twin errtype view="+oA.Typ+" parent="+oB.Typ, fmt.Sprintf("view: %v parent: %v", oA, oB))
		} else {
			for i := range oA.Paths {
				if i < len(oB.Paths) && oA.Paths[i] != in.strip(oB.Paths[i]) {
					cls := "other"
					switch {
					case oA.Paths[i] == "":
						cls = "empty"
					case strings.HasPrefix(oA.Paths[i], in.dir):
						cls = "parent-namespace"
					case strings.HasPrefix(oA.Paths[i], "/"):
						cls = "absolute"
					}
					add(fmt.Sprintf("twin errpath[%d] view=%s", i, cls), fmt.Sprintf("view: %v parent: %v", oA, oB))
				}
			}
		}
	default:
		a, b := fmt.Sprint(oA.Out), fmt.Sprint(oB.Out)
		if so, ok := oA.Out.(StatOut); ok {
			sb := oB.Out.(StatOut)
			// Stat(".") through the view names the view's root; everything else must be equal
			if call.F("p").Raw == "<<>>" {
				so.Name, sb.Name = "", ""
			}
			a, b = fmt.Sprint(so), fmt.Sprint(sb)
		}
		if a != b {
			add("twin output", fmt.Sprintf("view: %v parent: %v", oA, oB))
		}
	}
	return divs
}

// snapshot projects a whole base (inside and outside the view) through its setup handle.
func (in *SubInst) snapshot(b *subBase) map[string]string {
	out := map[string]string{}
	var walk func(p string, depth int)
	walk = func(p string, depth int) {
		info, err := hackpadfs.Stat(b.setup, p)
		if err != nil {
			out[p] = "ERR " + ErrKind(err)
			return
		}
		if !info.IsDir() {
			data, _ := hackpadfs.ReadFile(b.setup, p)
			out[p] = fmt.Sprintf("file %o %v %s", info.Mode().Perm(), data, timeName(info.ModTime()))
			return
		}
		ents, err := hackpadfs.ReadDir(b.setup, p)
		names := []string{}
		for _, e := range ents {
			names = append(names, e.Name())
		}
		out[p] = fmt.Sprintf("dir %o %v %v", info.Mode().Perm(), names, err)
		if p == "." {
			out[p] = fmt.Sprintf("dir %v %v", names, err)
		}
		if depth > 8 {
			return
		}
		for _, n := range names {
			c := n
			if p != "." {
				c = p + "/" + n
			}
			walk(c, depth+1)
		}
	}
	walk(".", 0)
	return out
}

func (in *SubInst) CheckState(exp *tla.Value, call, tr *tla.Value) []engine.Div {
	if in.escaped != "" {
		if call == nil {
			return nil
		}
		what := "confinement view-root-outside-directory"
		if in.subFailed != "" {
			what = "sub-of-existing-directory-refused"
		}
		return []engine.Div{{Prop: in.cfg.PropSub, Sig: in.probeA.sig(call, tr, what), Detail: in.escaped}}
	}
	var divs []engine.Div
	add := func(what, detail string) {
		divs = append(divs, engine.Div{Prop: in.cfg.PropSub, Sig: in.probeA.sig(call, tr, what), Detail: detail})
		in.dirty = true
	}
	sa, sb := in.snapshot(in.a), in.snapshot(in.b)
	notOffered := false
	{
		var diff []string
		for p, v := range sa {
			if sb[p] != v {
				diff = append(diff, fmt.Sprintf("%s: view-side %q parent-side %q", p, v, sb[p]))
			}
		}
		for p, v := range sb {
			if _, ok := sa[p]; !ok {
				diff = append(diff, fmt.Sprintf("%s: view-side absent parent-side %q", p, v))
			}
		}
		if len(diff) > 0 {
			sort.Strings(diff)
			add("twin state differs", strings.Join(diff, "; "))
		}
	}
	if in.a.sibling != "" {
		if ents, err := hackpadfs.ReadDir(in.a.setup, in.a.sibling); err != nil || len(ents) != 0 {
			add("confinement outside-created", fmt.Sprintf("%s (a mount point next to the view's directory) holds %d entries, err=%v", in.a.sibling, len(ents), err))
		}
	}
	// confinement: nothing outside dir may ever change
	for _, s := range []map[string]string{sa} {
		if in.dir == "." {
			break
		}
		if !strings.HasPrefix(s["zz/o"], "file 644 [9]") || !strings.HasPrefix(s["o"], "file 600 [8]") || !strings.HasPrefix(s["zz"], "dir 755 [o]") {
			add("confinement outside-changed", fmt.Sprintf("zz=%q zz/o=%q o=%q", s["zz"], s["zz/o"], s["o"]))
		}
		for p := range s {
			if p != "." && p != "o" && p != "zz" && p != "zz/o" && p != in.a.sibling && !(p == in.dir || strings.HasPrefix(p, in.dir+"/") || strings.HasPrefix(in.dir, p+"/")) {
				add("confinement outside-created", p)
			}
		}
	}
	// against the specification: the subtree seen through the parent at dir (attribution as configured)
	if in.cfg.PropState != "-" && !notOffered {
		sub, err := hackpadfs.Sub(in.a.setup, in.dir)
		if err == nil {
			divs = append(divs, in.probeA.CompareTree(sub, exp, call, tr, "")...)
		}
	}
	return divs
}
