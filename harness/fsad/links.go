package fsad

import (
	"errors"
	"fmt"
	gofs "io/fs"
	"os"
	"path/filepath"
	"sort"
	"strings"
	"syscall"

	"github.com/hack-pad/hackpadfs"
	"github.com/hack-pad/hackpadfs/mount"
	hpos "github.com/hack-pad/hackpadfs/os"
	"verif/harness/engine"
	"verif/harness/tla"
)

// Links.tla: symbolic links. The tree lives in a real directory; the reference leg ("osraw") runs the calls with the
// os package, the others run the package helpers (Stat, Lstat, LstatOrStat, Symlink, Mkdir, Remove, WriteFullFile,
// ReadFile, ReadDir) on hackpadfs os.FS, directly or through a capability mask (subsets of Stat/Lstat/Symlink), the
// fallback Sub view (a MountFS without Lstat of its own) or a mount.FS. The state is always projected with raw os calls.

// LinkConfig selects the leg.
type LinkConfig struct {
	AdapterName string
	// Kind: "osraw" | "hpos" | "<shape>:<mask>" with shape in direct, fsub, mount and mask a subset of "SLY"
	// (Stat, Lstat, Symlink exposed; "-" for none)
	Kind       string
	PropHelper string // C08: same result as with every interface exposed, or ErrNotImplemented and nothing changed
	PropErr    string // C05: error type and path fields
}

type LinkAdapter struct{ Cfg LinkConfig }

func (a *LinkAdapter) Name() string { return a.Cfg.AdapterName }

// the wrappers: lkCore is what every masked file system exposes, the mixins add the optional interfaces
type lkCore struct{ in *hpos.FS }

func (x lkCore) Open(name string) (hackpadfs.File, error) { return x.in.Open(name) }
func (x lkCore) OpenFile(name string, flag int, perm hackpadfs.FileMode) (hackpadfs.File, error) {
	return x.in.OpenFile(name, flag, perm)
}
func (x lkCore) Mkdir(name string, perm hackpadfs.FileMode) error { return x.in.Mkdir(name, perm) }
func (x lkCore) Remove(name string) error                         { return x.in.Remove(name) }

type lkS struct{ in *hpos.FS }
type lkL struct{ in *hpos.FS }
type lkY struct{ in *hpos.FS }

func (x lkS) Stat(name string) (hackpadfs.FileInfo, error)  { return x.in.Stat(name) }
func (x lkL) Lstat(name string) (hackpadfs.FileInfo, error) { return x.in.Lstat(name) }
func (x lkY) Symlink(oldname, newname string) error         { return x.in.Symlink(oldname, newname) }

type (
	lk000 struct{ lkCore }
	lkS00 struct {
		lkCore
		lkS
	}
	lk0L0 struct {
		lkCore
		lkL
	}
	lk00Y struct {
		lkCore
		lkY
	}
	lkSL0 struct {
		lkCore
		lkS
		lkL
	}
	lkS0Y struct {
		lkCore
		lkS
		lkY
	}
	lk0LY struct {
		lkCore
		lkL
		lkY
	}
	lkSLY struct {
		lkCore
		lkS
		lkL
		lkY
	}
)

func lkMask(mask string, in *hpos.FS) hackpadfs.FS {
	c, s, l, y := lkCore{in}, lkS{in}, lkL{in}, lkY{in}
	has := func(ch string) bool { return strings.Contains(mask, ch) }
	switch {
	case has("S") && has("L") && has("Y"):
		return lkSLY{c, s, l, y}
	case has("S") && has("L"):
		return lkSL0{c, s, l}
	case has("S") && has("Y"):
		return lkS0Y{c, s, y}
	case has("L") && has("Y"):
		return lk0LY{c, l, y}
	case has("S"):
		return lkS00{c, s}
	case has("L"):
		return lk0L0{c, l}
	case has("Y"):
		return lk00Y{c, y}
	}
	return lk000{c}
}

// LinkKinds lists every leg of the module.
func LinkKinds() []string {
	out := []string{"osraw", "hpos"}
	for _, shape := range []string{"direct", "fsub", "mount"} {
		for _, m := range []string{"-", "S", "L", "Y", "SL", "SY", "LY", "SLY"} {
			out = append(out, shape+":"+m)
		}
	}
	return out
}

type LinkInst struct {
	cfg     *LinkConfig
	base    string // scratch directory
	root    string // base/root: the tree
	fs      hackpadfs.FS
	hasL    bool // some Lstat is reachable through the helper's dispatch
	cleanup func()
	dirty   bool
	state   *tla.Value
}

// SetState receives the model state the instance is in (engine.StateAware).
func (in *LinkInst) SetState(s *tla.Value) { in.state = s }

func (a *LinkAdapter) New(init *tla.Value) (engine.Instance, error) {
	base, err := os.MkdirTemp(tmpBase(), "verif-links-")
	if err != nil {
		return nil, err
	}
	in := &LinkInst{cfg: &a.Cfg, base: base, root: filepath.Join(base, "root"), cleanup: func() { _ = os.RemoveAll(base) }}
	if err := os.Mkdir(in.root, 0777); err != nil {
		return nil, err
	}
	osfs := func(dir string) (*hpos.FS, error) {
		sub, err := hpos.NewFS().Sub(strings.TrimPrefix(dir, "/"))
		if err != nil {
			return nil, err
		}
		return sub.(*hpos.FS), nil
	}
	kind := a.Cfg.Kind
	switch {
	case kind == "osraw":
	case kind == "hpos":
		in.fs, err = osfs(in.root)
		in.hasL = true
	default:
		shape, mask, ok := strings.Cut(kind, ":")
		if !ok {
			return nil, fmt.Errorf("unknown links kind %q", kind)
		}
		in.hasL = strings.Contains(mask, "L")
		var inner *hpos.FS
		switch shape {
		case "direct":
			if inner, err = osfs(in.root); err == nil {
				in.fs = lkMask(mask, inner)
			}
		case "fsub":
			// the wrapper has no Sub method: hackpadfs.Sub falls back to its own view, a MountFS without Lstat
			if inner, err = osfs(in.base); err == nil {
				in.fs, err = hackpadfs.Sub(lkMask(mask, inner), "root")
			}
		case "mount":
			if inner, err = osfs(in.root); err == nil {
				in.fs, err = mount.NewFS(lkMask(mask, inner))
			}
		default:
			err = fmt.Errorf("unknown links shape %q", shape)
		}
	}
	if err != nil {
		in.cleanup()
		return nil, err
	}
	if init != nil {
		if err := in.construct(init); err != nil {
			in.cleanup()
			return nil, err
		}
	}
	return in, nil
}

func lkPath(p *tla.Value) string {
	if len(p.E) == 0 {
		return "."
	}
	return strings.Join(p.Strs(), "/")
}

// construct builds the tree with raw os calls (parents first).
func (in *LinkInst) construct(st *tla.Value) error {
	type ent struct {
		p    string
		node *tla.Value
	}
	var ents []ent
	st.Pairs(func(k, v *tla.Value) {
		if len(k.E) > 0 {
			ents = append(ents, ent{lkPath(k), v})
		}
	})
	sort.Slice(ents, func(i, j int) bool { return strings.Count(ents[i].p, "/") < strings.Count(ents[j].p, "/") })
	for _, e := range ents {
		full := filepath.Join(in.root, e.p)
		var err error
		switch e.node.F("k").S {
		case "dir":
			err = os.Mkdir(full, 0755)
		case "file":
			err = os.WriteFile(full, []byte(e.node.F("d").S), 0644)
		case "link":
			err = os.Symlink(filepath.Join(in.root, e.node.F("t").S), full)
		}
		if err != nil {
			return err
		}
	}
	return nil
}

func (in *LinkInst) Dirty() bool { return in.dirty }
func (in *LinkInst) Close()      { in.cleanup() }

// LinkObs is what one call returned.
type LinkObs struct {
	Kind  string // error class
	K     string // kind reported by a stat-like call
	D     string
	LS    []DirEnt
	Err   error
	Panic string
	ByEnv bool // the leg answered ErrNotImplemented and the environment performed the call
	// Changed: what the tree looked like after an ErrNotImplemented answer, when it was no longer the state before
	Changed string
}

func (o LinkObs) String() string {
	s := o.Kind
	if o.K != "" {
		s += " kind=" + o.K
	}
	if o.D != "" {
		s += " data=" + o.D
	}
	if o.LS != nil {
		s += fmt.Sprintf(" list=%v", o.LS)
	}
	if o.Err != nil {
		s += fmt.Sprintf(" err=%T{%v}", o.Err, o.Err)
	}
	if o.Panic != "" {
		s += " PANIC " + o.Panic
	}
	return s
}

func lkErrKind(err error) string {
	if err != nil && errors.Is(err, syscall.ELOOP) {
		return "ELOOP"
	}
	return ErrKind(err)
}

func lkKind(m gofs.FileMode) string {
	switch {
	case m&gofs.ModeSymlink != 0:
		return "link"
	case m.IsDir():
		return "dir"
	}
	return "file"
}

func (in *LinkInst) raw(op, p, t, d string) (o LinkObs) {
	full := filepath.Join(in.root, p)
	var err error
	switch op {
	case "stat", "lstat", "lstatorstat":
		var info os.FileInfo
		if op == "stat" {
			info, err = os.Stat(full)
		} else {
			info, err = os.Lstat(full)
		}
		if err == nil {
			o.K = lkKind(info.Mode())
		}
	case "symlink":
		err = os.Symlink(filepath.Join(in.root, t), full)
	case "mkdir":
		err = os.Mkdir(full, 0755)
	case "mkdirall":
		err = os.MkdirAll(full, 0755)
	case "removeall":
		err = os.RemoveAll(full)
	case "remove":
		err = os.Remove(full)
	case "writefile":
		err = os.WriteFile(full, []byte(d), 0644)
	case "readfile":
		var b []byte
		b, err = os.ReadFile(full)
		o.D = string(b)
	case "readdir":
		var ents []os.DirEntry
		ents, err = os.ReadDir(full)
		if err == nil {
			o.LS = []DirEnt{}
			for _, e := range ents {
				o.LS = append(o.LS, DirEnt{Name: e.Name(), Kind: lkKind(e.Type())})
			}
		}
	}
	o.Err, o.Kind = err, lkErrKind(err)
	return o
}

func (in *LinkInst) viaHelpers(op, p, t, d string) (o LinkObs) {
	defer func() {
		if r := recover(); r != nil {
			o.Panic, o.Kind = fmt.Sprint(r), "PANIC"
		}
	}()
	var err error
	switch op {
	case "stat", "lstat", "lstatorstat":
		var info hackpadfs.FileInfo
		switch op {
		case "stat":
			info, err = hackpadfs.Stat(in.fs, p)
		case "lstat":
			info, err = hackpadfs.Lstat(in.fs, p)
		default:
			info, err = hackpadfs.LstatOrStat(in.fs, p)
		}
		if err == nil {
			o.K = lkKind(info.Mode())
		}
	case "symlink":
		err = hackpadfs.Symlink(in.fs, t, p)
	case "mkdir":
		err = hackpadfs.Mkdir(in.fs, p, 0755)
	case "mkdirall":
		err = hackpadfs.MkdirAll(in.fs, p, 0755)
	case "removeall":
		err = hackpadfs.RemoveAll(in.fs, p)
	case "remove":
		err = hackpadfs.Remove(in.fs, p)
	case "writefile":
		err = hackpadfs.WriteFullFile(in.fs, p, []byte(d), 0644)
	case "readfile":
		var b []byte
		b, err = hackpadfs.ReadFile(in.fs, p)
		o.D = string(b)
	case "readdir":
		var ents []hackpadfs.DirEntry
		ents, err = hackpadfs.ReadDir(in.fs, p)
		if err == nil {
			o.LS = []DirEnt{}
			for _, e := range ents {
				o.LS = append(o.LS, DirEnt{Name: e.Name(), Kind: lkKind(e.Type())})
			}
		}
	}
	o.Err, o.Kind = err, lkErrKind(err)
	return o
}

func (in *LinkInst) Apply(call *tla.Value) any {
	op, p, t, d := call.F("op").S, lkPath(call.F("p")), call.F("t").S, call.F("d").S
	if in.cfg.Kind == "osraw" {
		return in.raw(op, p, t, d)
	}
	o := in.viaHelpers(op, p, t, d)
	if o.Kind == "ENOSYS" {
		// not offered by this leg: nothing may have changed; then the environment performs the call, so that the
		// histories go on
		if in.state != nil {
			o.Changed = strings.Join(in.diffState(in.state), "; ")
		}
		in.raw(op, p, t, d)
		o.ByEnv = true
	}
	return o
}

func (in *LinkInst) sig(call, tr *tla.Value, what string) string {
	if call == nil || tr == nil {
		return fmt.Sprintf("%s rebuild - %s", in.cfg.AdapterName, what)
	}
	return fmt.Sprintf("%s %s %s %s", in.cfg.AdapterName, call.F("op").S, tr.F("b").S, what)
}

func (in *LinkInst) CheckResult(call, tr *tla.Value, obsAny any) []engine.Div {
	o := obsAny.(LinkObs)
	var divs []engine.Div
	prop := in.cfg.PropHelper
	if in.cfg.Kind == "osraw" {
		prop = "SPEC"
	}
	add := func(pr, what string) {
		divs = append(divs, engine.Div{Prop: pr, Sig: in.sig(call, tr, what), Detail: o.String()})
		in.dirty = true
	}
	if o.Panic != "" {
		add(prop, "got=PANIC")
		return divs
	}
	if o.ByEnv {
		// ErrNotImplemented: allowed by C08 on a leg that hides something, provided nothing changed
		if in.cfg.Kind == "hpos" {
			add(prop, "exp="+tr.F("e").S+" got=ENOSYS")
		} else if o.Changed != "" {
			add(prop, "ENOSYS-but-changed")
		}
		return divs
	}
	op := call.F("op").S
	expE, expK := tr.F("e").S, tr.F("k").S
	if op == "lstatorstat" && !in.hasL && in.cfg.Kind != "osraw" {
		// no Lstat anywhere behind this leg: LstatOrStat is Stat by design
		expE, expK = tr.F("ae").S, tr.F("ak").S
	}
	if o.Kind != expE {
		add(prop, fmt.Sprintf("exp=%s got=%s", expE, o.Kind))
		return divs
	}
	if expE == "ok" {
		switch op {
		case "stat", "lstat", "lstatorstat":
			if o.K != expK {
				add(prop, fmt.Sprintf("kind exp=%s got=%s", expK, o.K))
			}
		case "readfile":
			if o.D != tr.F("d").S {
				add(prop, "bytes")
			}
		case "readdir":
			var exp []string
			for i := range tr.F("ls").E {
				e := &tr.F("ls").E[i]
				exp = append(exp, e.F("n").S+":"+e.F("k").S)
			}
			var got []string
			for _, e := range o.LS {
				got = append(got, e.Name+":"+e.Kind)
			}
			sort.Strings(exp)
			sort.Strings(got)
			if strings.Join(exp, ",") != strings.Join(got, ",") {
				add(prop, "listing")
			}
		}
		return divs
	}
	// error shape (C05): PathError naming the caller's path; LinkError naming both names, for Symlink
	if in.cfg.Kind != "osraw" && in.cfg.PropErr != "-" {
		p, t := lkPath(call.F("p")), call.F("t").S
		switch e := o.Err.(type) {
		case *hackpadfs.PathError:
			if op == "symlink" {
				add(in.cfg.PropErr, "errtype exp=link got=path")
			} else if e.Path != p {
				// MkdirAll names the ancestor it failed at, RemoveAll possibly an entry below the name (as os does)
				related := (op == "mkdirall" && strings.HasPrefix(p, e.Path+"/")) || (op == "removeall" && (strings.HasPrefix(e.Path, p+"/") || strings.HasPrefix(p, e.Path+"/")))
				if !related {
					add(in.cfg.PropErr, "errpath "+pathClass(e.Path, p))
				}
			}
		case *hackpadfs.LinkError:
			if op != "symlink" {
				add(in.cfg.PropErr, "errtype exp=path got=link")
			} else if e.New != p || e.Old != t {
				add(in.cfg.PropErr, "errpath "+pathClass(e.New, p)+"/"+pathClass(e.Old, t))
			}
		default:
			add(in.cfg.PropErr, "errtype exp=typed got=untyped")
		}
	}
	return divs
}

func pathClass(got, want string) string {
	switch {
	case got == want:
		return "same"
	case got == "":
		return "empty"
	case strings.HasPrefix(got, "/"):
		return "absolute"
	case strings.HasSuffix(got, "/"+want):
		return "inner-namespace"
	}
	return "other"
}

// CheckState projects the directory with raw os calls and compares it with the model tree.
func (in *LinkInst) CheckState(exp *tla.Value, call, tr *tla.Value) []engine.Div {
	diffs := in.diffState(exp)
	if len(diffs) == 0 {
		return nil
	}
	in.dirty = true
	prop := in.cfg.PropHelper
	if in.cfg.Kind == "osraw" {
		prop = "SPEC"
	}
	return []engine.Div{{Prop: prop, Sig: in.sig(call, tr, "state"), Detail: strings.Join(diffs, "; ")}}
}

func (in *LinkInst) diffState(exp *tla.Value) []string {
	want := map[string]string{}
	exp.Pairs(func(k, v *tla.Value) {
		if len(k.E) == 0 {
			return
		}
		want[lkPath(k)] = v.F("k").S + ":" + v.F("t").S + ":" + v.F("d").S
	})
	got := map[string]string{}
	var walk func(rel string)
	walk = func(rel string) {
		ents, err := os.ReadDir(filepath.Join(in.root, rel))
		if err != nil {
			got[rel+"/?"] = "unreadable:" + err.Error()
			return
		}
		for _, e := range ents {
			p := e.Name()
			if rel != "" {
				p = rel + "/" + e.Name()
			}
			full := filepath.Join(in.root, p)
			info, err := os.Lstat(full)
			if err != nil {
				got[p] = "unstatable"
				continue
			}
			switch lkKind(info.Mode()) {
			case "dir":
				got[p] = "dir::"
				walk(p)
			case "link":
				tgt, _ := os.Readlink(full)
				got[p] = "link:" + strings.TrimPrefix(tgt, in.root+"/") + ":"
			default:
				b, _ := os.ReadFile(full)
				got[p] = "file::" + string(b)
			}
		}
	}
	walk("")
	var diffs []string
	for p, w := range want {
		if got[p] != w {
			diffs = append(diffs, fmt.Sprintf("%s: want %s got %q", p, w, got[p]))
		}
	}
	for p, g := range got {
		if _, ok := want[p]; !ok {
			diffs = append(diffs, fmt.Sprintf("%s: unexpected %s", p, g))
		}
	}
	sort.Strings(diffs)
	return diffs
}
