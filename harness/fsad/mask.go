package fsad

import (
	"errors"
	"fmt"
	"io"
	gofs "io/fs"
	"os"
	"sort"
	"strings"
	"sync/atomic"
	"time"

	"github.com/hack-pad/hackpadfs"
	"github.com/hack-pad/hackpadfs/mem"
	"verif/harness/engine"
	"verif/harness/tla"
)

// ---------------------------------------------------------------------------------------------
// full-capability bases

// fullMem exposes every optional interface over mem.FS; what mem lacks is provided through the
// package helpers (that is, through the library's own fallbacks on the complete mem.FS).
type fullMem struct{ *mem.FS }

func (f fullMem) Create(name string) (hackpadfs.File, error) { return hackpadfs.Create(f.FS, name) }
func (f fullMem) RemoveAll(name string) error                { return hackpadfs.RemoveAll(f.FS, name) }
func (f fullMem) Lstat(name string) (hackpadfs.FileInfo, error) {
	return f.FS.Stat(name)
}
func (f fullMem) ReadDir(name string) ([]hackpadfs.DirEntry, error) {
	return hackpadfs.ReadDir(f.FS, name)
}
func (f fullMem) ReadFile(name string) ([]byte, error) { return hackpadfs.ReadFile(f.FS, name) }
func (f fullMem) WriteFile(name string, data []byte, perm hackpadfs.FileMode) error {
	return hackpadfs.WriteFullFile(f.FS, name, data, perm)
}

// fullOS exposes every optional interface over the os reference.
type fullOS struct{ *OSRef }

func (f fullOS) Create(name string) (hackpadfs.File, error) {
	return f.OSRef.OpenFile(name, os.O_RDWR|os.O_CREATE|os.O_TRUNC, 0666)
}
func (f fullOS) Lstat(name string) (hackpadfs.FileInfo, error) {
	i, err := os.Lstat(f.p(name))
	return i, f.fix(err)
}

func newFull(base string) (FullFS, func(), error) {
	switch base {
	case "mem":
		m, err := mem.NewFS()
		return fullMem{m}, func() {}, err
	case "os":
		fs, cl, err := OSRefFS()
		if err != nil {
			return nil, nil, err
		}
		return fullOS{fs.(*OSRef)}, cl, nil
	}
	return nil, nil, fmt.Errorf("unknown full base %q", base)
}

// MaskedMemFS returns a constructor of mem.FS hidden behind the capability mask 'kind' (one of MaskKinds).
func MaskedMemFS(kind string) func() (hackpadfs.FS, func(), error) {
	return func() (hackpadfs.FS, func(), error) {
		full, cl, err := newFull("mem")
		if err != nil {
			return nil, nil, err
		}
		m := NewMask(kind, full)
		if m == nil {
			return nil, nil, fmt.Errorf("unknown mask kind %q", kind)
		}
		return m, cl, nil
	}
}

// ---------------------------------------------------------------------------------------------
// fault injection at the primitive level

var errInjected = errors.New("injected I/O failure")

type faultCtl struct {
	count  int64 // primitive calls so far
	failAt int64 // 1-based index of the call that fails (0 = never)
	fired  atomic.Bool
	what   string // the primitive that was failed
	log    []string
}

func (c *faultCtl) hit(op, name string) error {
	n := atomic.AddInt64(&c.count, 1)
	c.log = append(c.log, op)
	if n == c.failAt {
		c.fired.Store(true)
		c.what = op
		return &hackpadfs.PathError{Op: op, Path: name, Err: errInjected}
	}
	return nil
}

type faultFS struct {
	in FullFS
	c  *faultCtl
}

func (f *faultFS) file(fl hackpadfs.File, name string, err error) (hackpadfs.File, error) {
	if err != nil || fl == nil {
		return fl, err
	}
	return &faultFile{in: fl, c: f.c, name: name}, nil
}

func (f *faultFS) Open(name string) (hackpadfs.File, error) {
	if err := f.c.hit("open", name); err != nil {
		return nil, err
	}
	fl, err := f.in.Open(name)
	return f.file(fl, name, err)
}
func (f *faultFS) OpenFile(name string, flag int, perm hackpadfs.FileMode) (hackpadfs.File, error) {
	if err := f.c.hit("openfile", name); err != nil {
		return nil, err
	}
	fl, err := f.in.OpenFile(name, flag, perm)
	return f.file(fl, name, err)
}
func (f *faultFS) Create(name string) (hackpadfs.File, error) {
	if err := f.c.hit("create", name); err != nil {
		return nil, err
	}
	fl, err := f.in.Create(name)
	return f.file(fl, name, err)
}
func (f *faultFS) Mkdir(name string, perm hackpadfs.FileMode) error {
	if err := f.c.hit("mkdir", name); err != nil {
		return err
	}
	return f.in.Mkdir(name, perm)
}
func (f *faultFS) MkdirAll(name string, perm hackpadfs.FileMode) error {
	if err := f.c.hit("mkdirall", name); err != nil {
		return err
	}
	return f.in.MkdirAll(name, perm)
}
func (f *faultFS) Remove(name string) error {
	if err := f.c.hit("remove", name); err != nil {
		return err
	}
	return f.in.Remove(name)
}
func (f *faultFS) RemoveAll(name string) error {
	if err := f.c.hit("removeall", name); err != nil {
		return err
	}
	return f.in.RemoveAll(name)
}
func (f *faultFS) Rename(a, b string) error {
	if err := f.c.hit("rename", a); err != nil {
		return err
	}
	return f.in.Rename(a, b)
}
func (f *faultFS) Stat(name string) (hackpadfs.FileInfo, error) {
	if err := f.c.hit("stat", name); err != nil {
		return nil, err
	}
	return f.in.Stat(name)
}
func (f *faultFS) Lstat(name string) (hackpadfs.FileInfo, error) {
	if err := f.c.hit("lstat", name); err != nil {
		return nil, err
	}
	return f.in.Lstat(name)
}
func (f *faultFS) Chmod(name string, m hackpadfs.FileMode) error {
	if err := f.c.hit("chmod", name); err != nil {
		return err
	}
	return f.in.Chmod(name, m)
}
func (f *faultFS) Chtimes(name string, a, m time.Time) error {
	if err := f.c.hit("chtimes", name); err != nil {
		return err
	}
	return f.in.Chtimes(name, a, m)
}
func (f *faultFS) ReadDir(name string) ([]hackpadfs.DirEntry, error) {
	if err := f.c.hit("readdir", name); err != nil {
		return nil, err
	}
	return f.in.ReadDir(name)
}
func (f *faultFS) ReadFile(name string) ([]byte, error) {
	if err := f.c.hit("readfile", name); err != nil {
		return nil, err
	}
	return f.in.ReadFile(name)
}
func (f *faultFS) WriteFile(name string, data []byte, perm hackpadfs.FileMode) error {
	if err := f.c.hit("writefile", name); err != nil {
		return err
	}
	return f.in.WriteFile(name, data, perm)
}

// faultFile exposes every optional file method and counts each call as a primitive.
type faultFile struct {
	in      hackpadfs.File
	c       *faultCtl
	name    string
	mutated bool
}

func (f *faultFile) Read(p []byte) (int, error) {
	if err := f.c.hit("file.read", f.name); err != nil {
		return 0, err
	}
	return f.in.Read(p)
}
func (f *faultFile) Stat() (hackpadfs.FileInfo, error) {
	if err := f.c.hit("file.stat", f.name); err != nil {
		return nil, err
	}
	return f.in.Stat()
}
func (f *faultFile) Close() error {
	op := "file.close-after-read"
	if f.mutated {
		op = "file.close-after-write"
	}
	if err := f.c.hit(op, f.name); err != nil {
		_ = f.in.Close()
		return err
	}
	return f.in.Close()
}
func (f *faultFile) Write(p []byte) (int, error) {
	f.mutated = true
	if err := f.c.hit("file.write", f.name); err != nil {
		return 0, err
	}
	return hackpadfs.WriteFile(f.in, p)
}
func (f *faultFile) ReadDir(n int) ([]hackpadfs.DirEntry, error) {
	if err := f.c.hit("file.readdir", f.name); err != nil {
		return nil, err
	}
	return hackpadfs.ReadDirFile(f.in, n)
}
func (f *faultFile) Seek(o int64, w int) (int64, error) {
	if err := f.c.hit("file.seek", f.name); err != nil {
		return 0, err
	}
	return hackpadfs.SeekFile(f.in, o, w)
}
func (f *faultFile) Truncate(n int64) error {
	f.mutated = true
	if err := f.c.hit("file.truncate", f.name); err != nil {
		return err
	}
	return hackpadfs.TruncateFile(f.in, n)
}
func (f *faultFile) Chmod(m hackpadfs.FileMode) error {
	f.mutated = true
	if err := f.c.hit("file.chmod", f.name); err != nil {
		return err
	}
	return hackpadfs.ChmodFile(f.in, m)
}
func (f *faultFile) Chtimes(a, m time.Time) error {
	f.mutated = true
	if err := f.c.hit("file.chtimes", f.name); err != nil {
		return err
	}
	return hackpadfs.ChtimesFile(f.in, a, m)
}

var _ io.Writer = (*faultFile)(nil)
var _ gofs.ReadDirFile = (*faultFile)(nil)

// ---------------------------------------------------------------------------------------------
// the adapter: FSCore histories through a capability mask, with optional fault enumeration

// MaskConfig binds FSCore.tla to the package helpers running on a capability-masked file system (C08).
type MaskConfig struct {
	Config
	PropHelper string // C08
	Kind       string // one of MaskKinds
	Base       string // mem | os
	Faults     bool   // enumerate a failure of every primitive call of every transition
}

type MaskAdapter struct{ Cfg MaskConfig }

func (a *MaskAdapter) Name() string { return a.Cfg.AdapterName }

type MaskInst struct {
	cfg     *MaskConfig
	full    FullFS
	ctl     *faultCtl
	masked  hackpadfs.FS
	probe   *Inst // calls through the mask
	direct  *Inst // calls on the full file system (environment)
	cleanup func()
	dirty   bool
	state   *tla.Value
	lastObs Obs
	faults  []string
}

func (a *MaskAdapter) New(init *tla.Value) (engine.Instance, error) {
	full, cl, err := newFull(a.Cfg.Base)
	if err != nil {
		return nil, err
	}
	in := &MaskInst{cfg: &a.Cfg, full: full, cleanup: cl, ctl: &faultCtl{}}
	in.masked = NewMask(a.Cfg.Kind, &faultFS{in: full, c: in.ctl})
	if in.masked == nil {
		return nil, fmt.Errorf("unknown mask kind %q", a.Cfg.Kind)
	}
	in.probe = NewProbe(&a.Cfg.Config, in.masked)
	in.direct = NewProbe(&a.Cfg.Config, full)
	if init != nil {
		if err := Construct(full, init, nil); err != nil {
			return nil, err
		}
	}
	return in, nil
}

func (in *MaskInst) Dirty() bool { return in.dirty }
func (in *MaskInst) Close()      { in.cleanup() }

// SetState receives the model state the instance is in (engine.StateAware).
func (in *MaskInst) SetState(s *tla.Value) { in.state = s }

func (in *MaskInst) Apply(call *tla.Value) any {
	in.faults = nil
	if in.cfg.Faults && in.state != nil {
		in.enumerateFaults(call)
	}
	in.ctl.failAt, in.ctl.count, in.ctl.log = 0, 0, nil
	o := in.probe.Apply(call).(Obs)
	if o.Kind == "ENOSYS" {
		// not offered under this mask: the environment performs it with full capabilities
		in.direct.Apply(call)
	}
	in.lastObs = o
	return o
}

// enumerateFaults re-runs the call once per primitive call it makes, on a fresh copy of the current
// state, failing exactly that primitive, and records every case in which the helper still reported success.
func (in *MaskInst) enumerateFaults(call *tla.Value) {
	closure, _ := in.probe.closure()
	run := func(failAt int64) (Obs, *faultCtl, string) {
		full, cl, err := newFull(in.cfg.Base)
		if err != nil {
			panic(err)
		}
		defer cl()
		if err := Construct(full, in.state, nil); err != nil {
			panic(err)
		}
		ctl := &faultCtl{failAt: failAt}
		masked := NewMask(in.cfg.Kind, &faultFS{in: full, c: ctl})
		o := NewProbe(&in.cfg.Config, masked).Apply(call).(Obs)
		tree, _ := Project(full, closure)
		return o, ctl, describe(tree)
	}
	o0, c0, after0 := run(0)
	if o0.Kind == "ENOSYS" {
		return
	}
	n := c0.count
	if n > 40 {
		n = 40
	}
	for k := int64(1); k <= n; k++ {
		o, ctl, after := run(k)
		if !ctl.fired.Load() {
			continue
		}
		switch {
		case o.Panic != "":
			in.faults = append(in.faults, "panic-after-fault "+ctl.what)
		case o.Err == nil && (o0.Err != nil || after != after0 || fmt.Sprint(o.Out) != fmt.Sprint(o0.Out)):
			// success was reported although the failed primitive's work is missing from the outcome
			in.faults = append(in.faults, "fault-swallowed "+ctl.what)
		}
	}
}

func (in *MaskInst) CheckResult(call, tr *tla.Value, obs any) []engine.Div {
	o := obs.(Obs)
	var divs []engine.Div
	if o.Kind != "ENOSYS" {
		// same result as with all interfaces exposed (= the specification's)
		divs = append(divs, in.probe.CheckResult(call, tr, o)...)
	}
	seen := map[string]bool{}
	sort.Strings(in.faults)
	for _, f := range in.faults {
		if !seen[f] {
			seen[f] = true
			divs = append(divs, engine.Div{Prop: in.cfg.PropHelper, Sig: in.probe.sig(call, tr, f), Detail: fmt.Sprintf("primitive calls of the fault-free run: %s", strings.Join(in.ctl.log, ","))})
		}
	}
	if in.probe.dirty || len(divs) > 0 {
		in.dirty = true
	}
	return divs
}

func (in *MaskInst) CheckState(exp *tla.Value, call, tr *tla.Value) []engine.Div {
	exp = in.probe.Expected(exp, tr)
	divs := in.direct.CompareTree(in.full, exp, call, tr, "")
	if len(divs) > 0 {
		in.dirty = true
	}
	return divs
}
