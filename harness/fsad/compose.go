package fsad

import (
	"archive/tar"
	"bytes"
	"context"
	"fmt"
	"os"
	"sort"
	"strings"
	"time"

	"github.com/hack-pad/hackpadfs"
	"github.com/hack-pad/hackpadfs/cache"
	"github.com/hack-pad/hackpadfs/mem"
	"github.com/hack-pad/hackpadfs/mount"
	hpos "github.com/hack-pad/hackpadfs/os"
	hptar "github.com/hack-pad/hackpadfs/tar"
	"verif/harness/tla"
)

// OSHackpadFS is the library's os.FS rooted (through Sub) in a fresh temporary directory.
func OSHackpadFS() (hackpadfs.FS, func(), error) {
	tmp, err := os.MkdirTemp(tmpBase(), "verif-oshp-")
	if err != nil {
		return nil, nil, err
	}
	fs, err := hpos.NewFS().Sub(strings.TrimPrefix(tmp, "/"))
	if err != nil {
		return nil, nil, err
	}
	return fs, func() { _ = os.RemoveAll(tmp) }, nil
}

// ComposeFrom returns constructors of composed file systems that already hold the model's initial tree.
//
//	mnt:<point>   mount.FS with a mem.FS mounted at <point> (content below the point lives in the mounted FS)
//	subview:<dir> Sub(mem, dir) view, content built through the view
//	cache         cache.ReadOnlyFS over a mem source
//	tar           tar.ReaderFS unpacked from an archive of the tree
func ComposeFrom(kind string) func(init *tla.Value, populate func(hackpadfs.FS) error) (hackpadfs.FS, func(), error) {
	return func(init *tla.Value, populate func(hackpadfs.FS) error) (hackpadfs.FS, func(), error) {
		none := func() {}
		switch {
		case strings.HasPrefix(kind, "mnt:"):
			point := strings.TrimPrefix(kind, "mnt:")
			root, _ := mem.NewFS()
			if err := hackpadfs.MkdirAll(root, point, 0755); err != nil {
				return nil, nil, err
			}
			inner, _ := mem.NewFS()
			mfs, _ := mount.NewFS(root)
			if err := mfs.AddMount(point, inner); err != nil {
				return nil, nil, err
			}
			// populate through the mount view; the mount point itself already exists
			if err := populateSkipping(mfs, init, populate, point); err != nil {
				return nil, nil, err
			}
			return mfs, none, nil
		case strings.HasPrefix(kind, "subview:"):
			dir := strings.TrimPrefix(kind, "subview:")
			base, _ := mem.NewFS()
			if err := hackpadfs.MkdirAll(base, dir, 0755); err != nil {
				return nil, nil, err
			}
			view, err := hackpadfs.Sub(base, dir)
			if err != nil {
				return nil, nil, err
			}
			return view, none, populate(view)
		case kind == "cache":
			src, _ := mem.NewFS()
			if err := populate(src); err != nil {
				return nil, nil, err
			}
			store, _ := mem.NewFS()
			c, err := cache.NewReadOnlyFS(src, store, cache.ReadOnlyOptions{})
			return c, none, err
		case kind == "tarcut":
			// a tar FS whose archive was cut off in the middle of its second entry (unpacking failed): invalid names must
			// still be refused as invalid, whatever state the archive is in
			src, _ := mem.NewFS()
			if err := populate(src); err != nil {
				return nil, nil, err
			}
			buf, err := TarOf(src)
			if err != nil {
				return nil, nil, err
			}
			cut := 512 + 512 + 512 + 100 // first entry complete (header + data block), second header, part of its data
			if cut > len(buf) {
				cut = len(buf) / 2
			}
			t, err := hptar.NewReaderFS(context.Background(), bytes.NewReader(buf[:cut]), hptar.ReaderFSOptions{})
			if err != nil {
				return nil, nil, err
			}
			select {
			case <-t.Done():
			case <-time.After(20 * time.Second):
				return nil, nil, fmt.Errorf("tar unpack of a cut archive did not finish")
			}
			return t, none, nil
		case kind == "tar":
			src, _ := mem.NewFS()
			if err := populate(src); err != nil {
				return nil, nil, err
			}
			buf, err := TarOf(src)
			if err != nil {
				return nil, nil, err
			}
			t, err := hptar.NewReaderFS(context.Background(), bytes.NewReader(buf), hptar.ReaderFSOptions{})
			if err != nil {
				return nil, nil, err
			}
			select {
			case <-t.Done():
			case <-time.After(20 * time.Second):
				return nil, nil, fmt.Errorf("tar unpack did not finish")
			}
			if err := t.UnarchiveErr(); err != nil {
				return nil, nil, err
			}
			return t, none, nil
		}
		return nil, nil, fmt.Errorf("unknown composition %q", kind)
	}
}

// populateSkipping runs populate but tolerates "already exists" for the pre-made mount point directory.
func populateSkipping(fs hackpadfs.FS, init *tla.Value, populate func(hackpadfs.FS) error, point string) error {
	return populate(existsOK{fs, point})
}

type existsOK struct {
	hackpadfs.FS
	point string
}

func (e existsOK) Mkdir(name string, perm hackpadfs.FileMode) error {
	if name == e.point {
		return hackpadfs.Chmod(e.FS, name, perm)
	}
	return hackpadfs.Mkdir(e.FS, name, perm)
}
func (e existsOK) Mount(name string) (hackpadfs.FS, string) {
	return e.FS.(hackpadfs.MountFS).Mount(name)
}

// TarOf archives a whole file system (directories before their children, names sorted).
func TarOf(src hackpadfs.FS) ([]byte, error) {
	var buf bytes.Buffer
	w := tar.NewWriter(&buf)
	var paths []string
	err := hackpadfs.WalkDir(src, ".", func(p string, d hackpadfs.DirEntry, err error) error {
		if err != nil {
			return err
		}
		if p != "." {
			paths = append(paths, p)
		}
		return nil
	})
	if err != nil {
		return nil, err
	}
	sort.Strings(paths)
	for _, p := range paths {
		info, err := hackpadfs.Stat(src, p)
		if err != nil {
			return nil, err
		}
		h := &tar.Header{Name: p, Mode: int64(info.Mode().Perm()), ModTime: info.ModTime()}
		if info.IsDir() {
			h.Typeflag = tar.TypeDir
			h.Name += "/"
			if err := w.WriteHeader(h); err != nil {
				return nil, err
			}
			continue
		}
		data, err := hackpadfs.ReadFile(src, p)
		if err != nil {
			return nil, err
		}
		h.Typeflag = tar.TypeReg
		h.Size = int64(len(data))
		if err := w.WriteHeader(h); err != nil {
			return nil, err
		}
		if _, err := w.Write(data); err != nil {
			return nil, err
		}
	}
	if err := w.Close(); err != nil {
		return nil, err
	}
	return buf.Bytes(), nil
}
