// Package fsad binds the FSCore specification to real hackpadfs file systems.
package fsad

import (
	"bytes"
	"errors"
	"fmt"
	"io"
	"sort"
	"strings"
	"time"

	"github.com/hack-pad/hackpadfs"
	"verif/harness/engine"
	"verif/harness/tla"
)

// Times used for Chtimes; the projection maps them back to their names.
var times = map[string]time.Time{
	"T1": time.Unix(1000000000, 0),
	"T2": time.Unix(1100000000, 0),
	"T3": time.Unix(1200000000, 0),
}

func timeName(t time.Time) string {
	for n, v := range times {
		if v.Unix() == t.Unix() {
			return n
		}
	}
	return "other"
}

// ErrKind classifies an error by the sentinels the properties name.
func ErrKind(err error) string {
	switch {
	case err == nil:
		return "ok"
	case errors.Is(err, hackpadfs.ErrNotEmpty):
		return "ENOTEMPTY"
	case errors.Is(err, hackpadfs.ErrIsDir):
		return "EISDIR"
	case errors.Is(err, hackpadfs.ErrNotDir):
		return "ENOTDIR"
	case errors.Is(err, hackpadfs.ErrInvalid):
		return "EINVAL"
	case errors.Is(err, hackpadfs.ErrNotImplemented):
		return "ENOSYS"
	case errors.Is(err, hackpadfs.ErrNotExist):
		return "ENOENT"
	case errors.Is(err, hackpadfs.ErrExist):
		return "EEXIST"
	case errors.Is(err, hackpadfs.ErrClosed):
		return "ECLOSED"
	case errors.Is(err, io.EOF):
		return "EOF"
	}
	return "OTHER"
}

// ErrShape returns the concrete type class and the path fields of an error.
func ErrShape(err error) (typ string, paths []string) {
	switch e := err.(type) {
	case nil:
		return "none", nil
	case *hackpadfs.PathError:
		return "path", []string{e.Path}
	case *hackpadfs.LinkError:
		return "link", []string{e.Old, e.New}
	}
	// os.LinkError is a distinct type (reference leg only)
	var le interface{ Unwrap() error }
	_ = le
	return "untyped", nil
}

// Obs is what one FS-level call returned.
type Obs struct {
	Err      error
	Kind     string
	Typ      string
	Paths    []string
	Out      any
	Panic    string
	Unsorted bool // a by-name listing came back unsorted or with duplicates
}

func (o Obs) String() string {
	if o.Panic != "" {
		return "PANIC " + o.Panic
	}
	if o.Err != nil {
		return fmt.Sprintf("%s %s%v (%v)", o.Kind, o.Typ, o.Paths, o.Err)
	}
	return fmt.Sprintf("ok %v", o.Out)
}

// Entry is one projected tree entry.
type Entry struct {
	Kind    string // "dir" / "file"
	Perm    int64
	Size    int64
	MT      string
	Data    []byte
	Listing []string // by-name listing, for directories
}

// StatOut is the data Stat returns.
type StatOut struct {
	Kind string
	Perm int64
	Size int64
	MT   string
	Name string
}

type DirEnt struct {
	Name string
	Kind string
}

// Config selects how divergences are attributed and how names are instantiated.
type Config struct {
	AdapterName string
	PropState   string // property for success/failure/state/data mismatches (C01, C06, C07...)
	PropErr     string // property for error kind / type / path mismatches (C05)
	PropWF      string // property for well-formedness violations (C03)
	PropList    string // property for listing order/duplicates (C16)
	Names       []string
	Depth       int
	NameMap     map[string]string
	Reference   bool // os reference leg: error paths are not compared for shape
	// MkFS returns a fresh file system (and a cleanup).
	MkFS func() (hackpadfs.FS, func(), error)
	// SkipBranchPrefixes: transitions whose branch has one of these prefixes are not applied.
	SkipBranchPrefixes []string
	// PropErrPath: property for error type / path-field mismatches (defaults to PropErr).
	PropErrPath string
	// RawNames: paths in calls are raw token sequences joined with "/" literally (NameGate.tla);
	// the token BADUTF8 stands for bytes that are not valid UTF-8.
	RawNames bool
	// GateOnly: the file system is a composition whose mutating operations need not follow FSCore for valid names
	// (read-only views, mount points): for valid names a mutator is only required not to be refused as invalid.
	GateOnly bool
	// InvalidOnly: the file system is deliberately in a failed state; only calls with invalid names are judged (they
	// must be refused with ErrInvalid), valid names and the state are not compared.
	InvalidOnly bool
	// CheckRootName: compare the Name() Stat reports for "." (only meaningful for the plain in-memory file systems).
	CheckRootName bool
	// MkFSFrom, when set, builds the file system from the initial model tree itself (read-only compositions).
	MkFSFrom func(init *tla.Value, populate func(hackpadfs.FS) error) (hackpadfs.FS, func(), error)
}

func (c *Config) errPathProp() string {
	if c.PropErrPath != "" {
		return c.PropErrPath
	}
	return c.PropErr
}

type Adapter struct{ Cfg Config }

func (a *Adapter) Name() string { return a.Cfg.AdapterName }

func (a *Adapter) New(init *tla.Value) (engine.Instance, error) {
	if a.Cfg.MkFSFrom != nil {
		in := &Inst{cfg: &a.Cfg}
		fs, cleanup, err := a.Cfg.MkFSFrom(init, func(w hackpadfs.FS) error {
			tmp := &Inst{cfg: &a.Cfg, fs: w}
			return tmp.constructImpl(init)
		})
		if err != nil {
			return nil, err
		}
		in.fs, in.cleanup = fs, cleanup
		return in, nil
	}
	fs, cleanup, err := a.Cfg.MkFS()
	if err != nil {
		return nil, err
	}
	in := &Inst{cfg: &a.Cfg, fs: fs, cleanup: cleanup}
	if init != nil {
		if err := in.construct(init); err != nil {
			return nil, err
		}
	}
	return in, nil
}

type Inst struct {
	cfg     *Config
	fs      hackpadfs.FS
	cleanup func()
	dirty   bool
	// after a tolerated root-emptying call the expected state is the empty root
	emptied bool
	// the last call's effect is not specified: do not compare the state (the instance is rebuilt)
	skipState bool
}

// offered reports whether the file system offers call's operation for a valid name at all.
func (in *Inst) offered(call *tla.Value) bool {
	in.dirty = true
	o := Do(in.fs, call.F("op").S, "zz-valid-probe", "zz-valid-probe2", flagOf(call.F("f")), hackpadfs.FileMode(call.F("perm").I), nil, "T1")
	return o.Kind != "ENOSYS"
}

func (in *Inst) FS() hackpadfs.FS { return in.fs }
func (in *Inst) Dirty() bool      { return in.dirty }
func (in *Inst) Close() {
	if in.cleanup != nil {
		in.cleanup()
	}
}

// construct brings a fresh FS to a non-empty initial model state using plain primitives.
func (in *Inst) construct(init *tla.Value) error { return Construct(in.fs, init, in.name) }

// Construct populates fs with the entries of a model tree (root excluded).
func Construct(fs hackpadfs.FS, init *tla.Value, name func(string) string) error {
	in := &Inst{cfg: &Config{}, fs: fs}
	if name != nil {
		nm := map[string]string{}
		init.Pairs(func(k, v *tla.Value) {
			for i := range k.E {
				nm[k.E[i].S] = name(k.E[i].S)
			}
		})
		in.cfg.NameMap = nm
	}
	return in.constructImpl(init)
}

func (in *Inst) constructImpl(init *tla.Value) error {
	type pe struct {
		p string
		v *tla.Value
		d int
	}
	var ents []pe
	init.Pairs(func(k, v *tla.Value) {
		if len(k.E) > 0 {
			ents = append(ents, pe{in.path(k), v, len(k.E)})
		}
	})
	sort.Slice(ents, func(i, j int) bool { return ents[i].d < ents[j].d || (ents[i].d == ents[j].d && ents[i].p < ents[j].p) })
	for _, e := range ents {
		perm := hackpadfs.FileMode(e.v.F("perm").I)
		if e.v.F("k").S == "dir" {
			if err := hackpadfs.Mkdir(in.fs, e.p, perm); err != nil {
				return err
			}
		} else {
			if err := hackpadfs.WriteFullFile(in.fs, e.p, e.v.F("d").Bytes(), perm); err != nil {
				return err
			}
		}
	}
	// times last (children change directory times on a real OS)
	for i := len(ents) - 1; i >= 0; i-- {
		if mt := ents[i].v.F("mt").S; mt != "*" {
			if err := hackpadfs.Chtimes(in.fs, ents[i].p, times[mt], times[mt]); err != nil {
				return err
			}
		}
	}
	return nil
}

func (in *Inst) name(n string) string {
	if m, ok := in.cfg.NameMap[n]; ok {
		return m
	}
	return n
}

func (in *Inst) path(p *tla.Value) string {
	if len(p.E) == 0 {
		return "."
	}
	if in.cfg.RawNames {
		parts := make([]string, len(p.E))
		for i := range p.E {
			parts[i] = p.E[i].S
			if parts[i] == "BADUTF8" {
				parts[i] = "\xff\xfe"
			}
		}
		return strings.Join(parts, "/")
	}
	parts := make([]string, len(p.E))
	for i := range p.E {
		parts[i] = in.name(p.E[i].S)
	}
	return strings.Join(parts, "/")
}

func flagOf(f *tla.Value) int {
	fl := 0
	switch f.F("acc").S {
	case "RO":
		fl = hackpadfs.FlagReadOnly
	case "WO":
		fl = hackpadfs.FlagWriteOnly
	case "RW":
		fl = hackpadfs.FlagReadWrite
	}
	if f.F("c").B {
		fl |= hackpadfs.FlagCreate
	}
	if f.F("x").B {
		fl |= hackpadfs.FlagExclusive
	}
	if f.F("tr").B {
		fl |= hackpadfs.FlagTruncate
	}
	if f.F("ap").B {
		fl |= hackpadfs.FlagAppend
	}
	return fl
}

func kindOfMode(m hackpadfs.FileMode) string {
	switch {
	case m.IsDir():
		return "dir"
	case m.IsRegular():
		return "file"
	}
	return "other:" + m.Type().String()
}

func statOut(info hackpadfs.FileInfo) StatOut {
	return StatOut{Kind: kindOfMode(info.Mode()), Perm: int64(info.Mode() & hackpadfs.ModePerm), Size: info.Size(), MT: timeName(info.ModTime()), Name: info.Name()}
}

// Do performs one FS-level call of the FSCore alphabet.
func Do(fs hackpadfs.FS, op, p, q string, flag int, perm hackpadfs.FileMode, data []byte, mt string) (o Obs) {
	defer func() {
		if r := recover(); r != nil {
			o.Panic = fmt.Sprint(r)
			o.Kind = "PANIC"
		}
	}()
	var err error
	switch op {
	case "mkdir":
		err = hackpadfs.Mkdir(fs, p, perm)
	case "mkdirall":
		err = hackpadfs.MkdirAll(fs, p, perm)
	case "open":
		var f hackpadfs.File
		f, err = hackpadfs.OpenFile(fs, p, flag, perm)
		if f != nil {
			cerr := f.Close()
			if err == nil && cerr != nil {
				err = fmt.Errorf("close after open: %w", cerr)
			}
		}
	case "writefile":
		err = hackpadfs.WriteFullFile(fs, p, data, perm)
	case "remove":
		err = hackpadfs.Remove(fs, p)
	case "removeall":
		err = hackpadfs.RemoveAll(fs, p)
	case "rename":
		err = hackpadfs.Rename(fs, p, q)
	case "chmod":
		err = hackpadfs.Chmod(fs, p, perm)
	case "chtimes":
		err = hackpadfs.Chtimes(fs, p, times[mt], times[mt])
	case "stat":
		var info hackpadfs.FileInfo
		info, err = hackpadfs.Stat(fs, p)
		if err == nil {
			o.Out = statOut(info)
		}
	case "readdir":
		var ents []hackpadfs.DirEntry
		ents, err = hackpadfs.ReadDir(fs, p)
		if err == nil {
			out := make([]DirEnt, len(ents))
			for i, e := range ents {
				k := "file"
				if e.IsDir() {
					k = "dir"
				}
				out[i] = DirEnt{e.Name(), k}
				if i > 0 && out[i-1].Name >= out[i].Name {
					o.Unsorted = true
				}
			}
			o.Out = out
		}
	case "readfile":
		var b []byte
		b, err = hackpadfs.ReadFile(fs, p)
		if err == nil {
			o.Out = b
		}
	case "create":
		var f hackpadfs.File
		f, err = hackpadfs.Create(fs, p)
		if f != nil {
			_ = f.Close()
		}
	case "lstat":
		_, err = hackpadfs.Lstat(fs, p)
	case "chown":
		err = hackpadfs.Chown(fs, p, 0, 0)
	case "sub":
		_, err = hackpadfs.Sub(fs, p)
	case "symlink":
		err = hackpadfs.Symlink(fs, p, q)
	default:
		panic("unknown op " + op)
	}
	o.Err = err
	o.Kind = ErrKind(err)
	o.Typ, o.Paths = ErrShape(err)
	return o
}

func (in *Inst) skip(tr *tla.Value) bool {
	if tr == nil {
		return false
	}
	b := tr.Get("b")
	if b == nil {
		return false
	}
	for _, p := range in.cfg.SkipBranchPrefixes {
		if strings.HasPrefix(b.S, p) {
			return true
		}
	}
	return false
}

func (in *Inst) Apply(call *tla.Value) any {
	op := call.F("op").S
	return Do(in.fs, op, in.path(call.F("p")), in.path(call.F("q")), flagOf(call.F("f")),
		hackpadfs.FileMode(call.F("perm").I), call.F("d").Bytes(), call.F("mt").S)
}

func (in *Inst) sig(call, tr *tla.Value, what string) string {
	b := "-"
	if tr != nil {
		if bv := tr.Get("b"); bv != nil {
			b = bv.S
		}
	}
	op := "-"
	if call != nil {
		op = call.F("op").S
	}
	return fmt.Sprintf("%s %s %s %s", in.cfg.AdapterName, op, b, what)
}

func (in *Inst) CheckResult(call, tr *tla.Value, obsAny any) []engine.Div {
	o := obsAny.(Obs)
	cfg := in.cfg
	var divs []engine.Div
	add := func(prop, what, detail string) {
		divs = append(divs, engine.Div{Prop: prop, Sig: in.sig(call, tr, what), Detail: detail})
	}
	exp := tr.F("e").S
	if o.Panic != "" {
		add(cfg.PropState, "exp="+exp+" got=PANIC", o.Panic)
		in.dirty = true
		return divs
	}
	if exp == "NOTNAME" {
		// a valid name given to an operation outside the namespace specification: it only must not be refused as invalid
		in.dirty, in.skipState = true, true
		if o.Kind == "EINVAL" {
			add(cfg.PropState, "valid name refused as invalid", o.String())
		}
		return divs
	}
	if exp == "EINVAL" && cfg.RawNames && o.Kind == "ENOSYS" && !in.offered(call) {
		// the file system does not offer this operation at all (also not for valid names)
		return divs
	}
	if cfg.InvalidOnly {
		in.dirty, in.skipState = true, true
		if !strings.HasPrefix(tr.F("b").S, "invalid/") {
			return nil
		}
		if o.Kind != "EINVAL" && !(o.Kind == "ENOSYS" && !in.offered(call)) {
			add(cfg.PropState, "exp=EINVAL got="+o.Kind, o.String())
		}
		return divs
	}
	if cfg.RawNames && strings.HasPrefix(tr.F("b").S, "valid/") {
		// C04 judges valid names only for its own clause: bytes such as backslash, colon or a leading ".." are
		// ordinary name bytes. Plain names are the business of C01/C06/C07 (checked elsewhere).
		special := false
		for _, pv := range []*tla.Value{call.F("p"), call.F("q")} {
			for i := range pv.E {
				t := pv.E[i].S
				if strings.ContainsAny(t, "\\:") || (strings.HasPrefix(t, "..") && t != "..") {
					special = true
				}
			}
		}
		if !special {
			in.dirty, in.skipState = true, true
			return nil
		}
		if o.Kind == "ENOSYS" {
			// valid name, operation not offered by this file system
			in.dirty, in.skipState = true, true
			return divs
		}
		op := call.F("op").S
		mutator := !(op == "stat" || op == "readdir" || op == "readfile" || (op == "open" && call.F("f").F("acc").S == "RO" && !call.F("f").F("c").B && !call.F("f").F("tr").B))
		if cfg.GateOnly && mutator {
			in.dirty, in.skipState = true, true
			if o.Kind == "EINVAL" && exp != "EINVAL" && exp != "OTHER" && exp != "ROOTANY" {
				add(cfg.PropState, "valid name refused as invalid", o.String())
			}
			return divs
		}
	}
	if exp == "ROOTANY" {
		// tolerated: fail and change nothing, or succeed leaving an empty root
		if o.Err == nil {
			in.emptied = true
			in.dirty = true
		}
		return divs
	}
	switch {
	case exp == "ok" && o.Err != nil:
		add(cfg.PropState, "exp=ok got="+o.Kind, o.String())
		return divs
	case exp != "ok" && o.Err == nil:
		add(cfg.PropState, "exp="+exp+" got=ok", o.String())
		return divs
	case exp != "ok":
		if exp != "OTHER" && exp != o.Kind {
			add(cfg.PropErr, "exp="+exp+" got="+o.Kind, o.String())
		}
		if !cfg.Reference || o.Typ != "untyped" {
			want := tr.F("ep")
			wantTyp := "path"
			if len(want.E) == 2 {
				wantTyp = "link"
			}
			if o.Typ != wantTyp {
				add(cfg.errPathProp(), "errtype exp="+wantTyp+" got="+o.Typ, o.String())
			} else {
				for i := range want.E {
					if w := in.path(&want.E[i]); i < len(o.Paths) && o.Paths[i] != w {
						cls := "other"
						switch {
						case o.Paths[i] == "":
							cls = "empty"
						case strings.HasPrefix(o.Paths[i], "/"):
							cls = "absolute"
						case strings.HasPrefix(w, o.Paths[i]+"/") || o.Paths[i] == ".":
							cls = "ancestor"
						case strings.HasPrefix(o.Paths[i], w+"/"):
							cls = "descendant"
						}
						add(cfg.errPathProp(), fmt.Sprintf("errpath[%d] exp=%s got=%s", i, exp, cls), fmt.Sprintf("want %q: %s", w, o.String()))
					}
				}
			}
		}
		return divs
	}
	// both succeeded: compare returned data
	switch call.F("op").S {
	case "stat":
		so := o.Out.(StatOut)
		e := tr.F("o")
		if so.Kind != e.F("k").S {
			add(cfg.PropState, "stat kind", fmt.Sprintf("got %+v", so))
		}
		if w := e.F("perm").I; w >= 0 && w != so.Perm {
			add(cfg.PropState, "stat perm", fmt.Sprintf("got %+v want %o", so, w))
		}
		if w := e.F("size").I; w >= 0 && w != so.Size {
			add(cfg.PropState, "stat size", fmt.Sprintf("got %+v want %d", so, w))
		}
		if w := e.F("mt").S; w != "*" && w != so.MT {
			add(cfg.PropState, "stat mtime", fmt.Sprintf("got %+v want %s", so, w))
		}
		wantName := "."
		if p := call.F("p"); len(p.E) > 0 {
			wantName = in.name(p.E[len(p.E)-1].S)
		}
		atMount := strings.HasPrefix(tr.F("b").S, "at|") // Stat of a mount point is Stat(".") of the mounted FS
		if so.Name != wantName && cfg.CheckRootName && !atMount {
			add(cfg.PropState, "stat name", fmt.Sprintf("got %q want %q", so.Name, wantName))
		}
	case "readdir":
		got := o.Out.([]DirEnt)
		want := map[string]string{}
		for i := range tr.F("o").E {
			want[in.name(tr.F("o").E[i].F("n").S)] = tr.F("o").E[i].F("k").S
		}
		bad := len(got) != len(want)
		for _, g := range got {
			if want[g.Name] != g.Kind {
				bad = true
			}
		}
		if o.Unsorted {
			add(cfg.PropList, "readdir unsorted-or-duplicate", fmt.Sprintf("got %v", got))
		} else if bad {
			add(cfg.PropState, "readdir entries", fmt.Sprintf("got %v want %v", got, want))
		}
	case "readfile":
		if !bytes.Equal(o.Out.([]byte), tr.F("o").Bytes()) {
			add(cfg.PropState, "readfile bytes", fmt.Sprintf("got %v want %s", o.Out, tr.F("o").Raw))
		}
	}
	return divs
}

// Project observes the real FS through its public API over the full closure of candidate paths.
func Project(fs hackpadfs.FS, closure []string) (tree map[string]*Entry, problems []string) {
	tree = map[string]*Entry{}
	defer func() {
		if r := recover(); r != nil {
			problems = append(problems, fmt.Sprint("panic-in-projection: ", r))
		}
	}()
	for _, p := range closure {
		info, err := hackpadfs.Stat(fs, p)
		if err != nil {
			if k := ErrKind(err); k != "ENOENT" && k != "ENOTDIR" {
				problems = append(problems, fmt.Sprintf("stat-error %s: %v", p, err))
			}
			continue
		}
		e := &Entry{Kind: kindOfMode(info.Mode()), Perm: int64(info.Mode() & hackpadfs.ModePerm), Size: info.Size(), MT: timeName(info.ModTime())}
		tree[p] = e
		switch e.Kind {
		case "file":
			b, err := hackpadfs.ReadFile(fs, p)
			if err != nil {
				problems = append(problems, fmt.Sprintf("readfile-error %s: %v", p, err))
			}
			e.Data = b
			if int64(len(b)) != e.Size {
				problems = append(problems, fmt.Sprintf("size-disagrees %s: stat %d read %d", p, e.Size, len(b)))
			}
		case "dir":
			ents, err := hackpadfs.ReadDir(fs, p)
			if err != nil {
				problems = append(problems, fmt.Sprintf("readdir-error %s: %v", p, err))
			}
			for _, d := range ents {
				e.Listing = append(e.Listing, d.Name())
			}
		}
	}
	return tree, problems
}

func parentOf(p string) string {
	i := strings.LastIndexByte(p, '/')
	if i < 0 {
		return "."
	}
	return p[:i]
}

func baseOf(p string) string {
	return p[strings.LastIndexByte(p, '/')+1:]
}

// WellFormed evaluates the C03 invariant on a projection.
func WellFormed(tree map[string]*Entry, closureSet map[string]bool) []string {
	var bad []string
	root := tree["."]
	if root == nil {
		return []string{"root-missing"}
	}
	if root.Kind != "dir" {
		bad = append(bad, "root-not-dir")
	}
	for p, e := range tree {
		if p != "." {
			par := tree[parentOf(p)]
			switch {
			case par == nil:
				bad = append(bad, "orphan-parent-missing")
			case par.Kind != "dir":
				bad = append(bad, "orphan-parent-is-file")
			default:
				found := false
				for _, n := range par.Listing {
					if n == baseOf(p) {
						found = true
					}
				}
				if !found {
					bad = append(bad, "hidden-entry-not-listed")
				}
			}
		}
		if e.Kind == "dir" {
			seen := map[string]bool{}
			for i, n := range e.Listing {
				if seen[n] {
					bad = append(bad, "listing-duplicate")
				}
				seen[n] = true
				if i > 0 && e.Listing[i-1] > n {
					bad = append(bad, "listing-unsorted")
				}
				child := n
				if p != "." {
					child = p + "/" + n
				}
				if closureSet[child] && tree[child] == nil {
					bad = append(bad, "listed-entry-not-statable")
				}
				if !closureSet[child] && strings.Count(child, "/") < 2 {
					bad = append(bad, "listed-entry-outside-alphabet")
				}
			}
		}
	}
	sort.Strings(bad)
	return bad
}

func (in *Inst) closure() ([]string, map[string]bool) {
	names := make([]string, len(in.cfg.Names))
	for i, n := range in.cfg.Names {
		names[i] = in.name(n)
	}
	out := []string{"."}
	level := []string{""}
	for d := 0; d < in.cfg.Depth; d++ {
		var next []string
		for _, p := range level {
			for _, n := range names {
				q := n
				if p != "" {
					q = p + "/" + n
				}
				next = append(next, q)
			}
		}
		out = append(out, next...)
		level = next
	}
	set := map[string]bool{}
	for _, p := range out {
		set[p] = true
	}
	return out, set
}

func (in *Inst) CheckState(exp *tla.Value, call, tr *tla.Value) []engine.Div {
	return in.CompareTree(in.fs, in.Expected(exp, tr), call, tr, "")
}

// Expected returns the state to compare with: after a tolerated root-emptying call that
// succeeded it is the transition's alternative outcome.
func (in *Inst) Expected(exp, tr *tla.Value) *tla.Value {
	if in.emptied && tr != nil {
		if alt := tr.Get("alt"); alt != nil && alt.K != tla.Str {
			return alt
		}
	}
	return exp
}

// NewProbe returns an Inst usable for Apply/CheckResult/CompareTree on an externally built FS.
func NewProbe(cfg *Config, fs hackpadfs.FS) *Inst { return &Inst{cfg: cfg, fs: fs} }

// CompareTree projects fs over the closure and compares it with the model tree exp;
// tag is prepended to the class of each disagreement (e.g. the constituent FS it was seen in).
func (in *Inst) CompareTree(fs hackpadfs.FS, exp *tla.Value, call, tr *tla.Value, tag string) []engine.Div {
	if in.cfg.InvalidOnly {
		return nil
	}
	if in.skipState {
		in.skipState = false
		return nil
	}
	cfg := in.cfg
	var divs []engine.Div
	add := func(prop, what, detail string) {
		divs = append(divs, engine.Div{Prop: prop, Sig: in.sig(call, tr, tag+what), Detail: detail})
	}
	closure, cset := in.closure()
	tree, problems := Project(fs, closure)
	for _, p := range problems {
		add(cfg.PropState, "projection "+strings.SplitN(p, " ", 2)[0], p)
	}
	if !cfg.Reference {
		seen := map[string]bool{}
		for _, b := range WellFormed(tree, cset) {
			if !seen[b] {
				seen[b] = true
				add(cfg.PropWF, "wf "+b, describe(tree))
				// a listing that misses a child, lists one twice or lists what cannot be stat-ed is also a listing defect (C16)
				if cfg.PropList != "" && cfg.PropList != "-" && cfg.PropList != cfg.PropWF &&
					(strings.HasPrefix(b, "hidden-entry") || strings.HasPrefix(b, "listing-duplicate") || strings.HasPrefix(b, "listed-entry")) {
					add(cfg.PropList, "list "+b, describe(tree))
				}
			}
		}
	}
	want := map[string]*tla.Value{}
	exp.Pairs(func(k, v *tla.Value) { want[in.path(k)] = v })
	cls := map[string]bool{}
	for p, w := range want {
		g := tree[p]
		if g == nil {
			cls["missing-path"] = true
			continue
		}
		if g.Kind != w.F("k").S {
			cls["kind"] = true
			continue
		}
		if wp := w.F("perm").I; wp >= 0 && wp != g.Perm {
			cls["perm"] = true
		}
		if wm := w.F("mt").S; wm != "*" && wm != g.MT {
			cls["mtime"] = true
		}
		if g.Kind == "file" && !bytes.Equal(g.Data, w.F("d").Bytes()) {
			cls["data"] = true
		}
	}
	for p := range tree {
		if want[p] == nil {
			cls["extra-path"] = true
		}
	}
	var cl []string
	for c := range cls {
		cl = append(cl, c)
	}
	sort.Strings(cl)
	for _, c := range cl {
		add(cfg.PropState, "state "+c, "real: "+describe(tree)+" model: "+exp.Raw)
	}
	return divs
}

func describe(tree map[string]*Entry) string {
	var ps []string
	for p := range tree {
		ps = append(ps, p)
	}
	sort.Strings(ps)
	var b strings.Builder
	for _, p := range ps {
		e := tree[p]
		if e.Kind == "dir" {
			fmt.Fprintf(&b, "%s/ %o %s %v; ", p, e.Perm, e.MT, e.Listing)
		} else {
			fmt.Fprintf(&b, "%s %o %s %v; ", p, e.Perm, e.MT, e.Data)
		}
	}
	return b.String()
}
