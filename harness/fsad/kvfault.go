package fsad

import (
	"bytes"
	"fmt"
	"sort"
	"strings"

	"github.com/hack-pad/hackpadfs"
	"github.com/hack-pad/hackpadfs/keyvalue"
	"github.com/hack-pad/hackpadfs/mem"
	"verif/harness/engine"
	"verif/harness/kvctl"
	"verif/harness/tla"
)

// KVFaultConfig binds FSCore histories to keyvalue.FS over a store in which every single store call
// (Get, Set, lazy Data()/ReadDirNames(), transaction begin) is failed once (property C14).
type KVFaultConfig struct {
	Config
	PropFault string // C14
	Store     string // plain (serial fallback transactions) | txn (the in-memory TransactionStore)
}

type KVFaultAdapter struct{ Cfg KVFaultConfig }

func (a *KVFaultAdapter) Name() string { return a.Cfg.AdapterName }

func newKV(store string, ctl *kvctl.Ctl) (*keyvalue.FS, error) {
	switch store {
	case "plain":
		return keyvalue.NewFS(&kvctl.Plain{In: NewPlainStore(), C: ctl})
	case "txn":
		return keyvalue.NewFS(&kvctl.Txn{In: mem.NewStoreForVerif(), C: ctl})
	}
	return nil, fmt.Errorf("unknown store kind %q", store)
}

type KVFaultInst struct {
	cfg      *KVFaultConfig
	ctl      *kvctl.Ctl
	fs       *keyvalue.FS
	probe    *Inst
	state    *tla.Value
	faults   []string
	wfFaults []string
	dirty    bool
}

func (a *KVFaultAdapter) New(init *tla.Value) (engine.Instance, error) {
	in := &KVFaultInst{cfg: &a.Cfg, ctl: &kvctl.Ctl{}}
	fs, err := newKV(a.Cfg.Store, in.ctl)
	if err != nil {
		return nil, err
	}
	in.fs = fs
	in.probe = NewProbe(&a.Cfg.Config, fs)
	if init != nil {
		if err := Construct(fs, init, nil); err != nil {
			return nil, err
		}
	}
	return in, nil
}

func (in *KVFaultInst) Dirty() bool           { return in.dirty }
func (in *KVFaultInst) Close()                {}
func (in *KVFaultInst) SetState(s *tla.Value) { in.state = s }

func callClass(what string) string {
	if i := strings.IndexByte(what, ' '); i > 0 {
		return what[:i]
	}
	return what
}

func (in *KVFaultInst) Apply(call *tla.Value) any {
	in.faults, in.wfFaults = nil, nil
	if in.state != nil {
		in.enumerate(call)
	}
	in.ctl.FailAt = 0
	return in.probe.Apply(call)
}

func (in *KVFaultInst) enumerate(call *tla.Value) {
	closure, cset := in.probe.closure()
	type outcome struct {
		o     Obs
		ctl   *kvctl.Ctl
		after string
		probs []string
		wf    []string
	}
	run := func(failAt int64) outcome {
		ctl := &kvctl.Ctl{}
		fs, err := newKV(in.cfg.Store, ctl)
		if err == nil {
			err = Construct(fs, in.state, nil)
		}
		if err != nil {
			panic(err)
		}
		start := ctl.Count()
		if failAt > 0 {
			ctl.FailAt = start + failAt
		}
		o := NewProbe(&in.cfg.Config, fs).Apply(call).(Obs)
		ctl.FailAt = 0
		out := outcome{o: o, ctl: ctl}
		// afterwards the file system must keep answering: full projection plus a few follow-up operations
		tree, probs := Project(fs, closure)
		out.after, out.probs = describe(tree), probs
		out.wf = WellFormed(tree, cset)
		for _, f := range []func() Obs{
			func() Obs { return Do(fs, "mkdir", "zz-after", "", 0, 0755, nil, "") },
			func() Obs { return Do(fs, "writefile", "zz-after/f", "", 0, 0644, []byte{1}, "") },
			func() Obs { return Do(fs, "readdir", ".", "", 0, 0, nil, "") },
			func() Obs { return Do(fs, "removeall", "zz-after", "", 0, 0, nil, "") },
		} {
			if fo := f(); fo.Panic != "" {
				out.probs = append(out.probs, "panic-in-follow-up: "+fo.Panic)
			}
		}
		return out
	}
	base := run(0)
	n := base.ctl.Count()
	// number of store calls the operation itself made in the fault-free run
	fs0ctl := &kvctl.Ctl{}
	if fs0, err := newKV(in.cfg.Store, fs0ctl); err == nil {
		_ = Construct(fs0, in.state, nil)
		pre := fs0ctl.Count()
		NewProbe(&in.cfg.Config, fs0).Apply(call)
		n = fs0ctl.Count() - pre
	}
	if n > 30 {
		n = 30
	}
	for k := int64(1); k <= n; k++ {
		r := run(k)
		if !r.ctl.Fired.Load() {
			continue
		}
		cls := callClass(r.ctl.What)
		switch {
		case r.o.Panic != "":
			in.faults = append(in.faults, "panic-after-fault "+cls)
		case r.o.Err == nil && (base.o.Err != nil || r.after != base.after || fmt.Sprint(r.o.Out) != fmt.Sprint(base.o.Out)):
			in.faults = append(in.faults, "fault-swallowed "+cls)
		}
		// whatever the operation reported, it must not terminate having made an entry unreachable (C03)
		for _, w := range r.wf {
			in.wfFaults = append(in.wfFaults, "wf-after-fault "+w+" ("+cls+")")
		}
		for _, p := range r.probs {
			if strings.HasPrefix(p, "panic") {
				in.faults = append(in.faults, "panic-after-fault follow-up")
			}
		}
	}
}

func (in *KVFaultInst) CheckResult(call, tr *tla.Value, obs any) []engine.Div {
	divs := in.probe.CheckResult(call, tr, obs)
	sort.Strings(in.faults)
	last := ""
	for _, f := range in.faults {
		if f != last {
			divs = append(divs, engine.Div{Prop: in.cfg.PropFault, Sig: in.probe.sig(call, tr, f), Detail: "store calls of the run: " + strings.Join(in.ctl.Log, ",")})
		}
		last = f
	}
	sort.Strings(in.wfFaults)
	last = ""
	for _, f := range in.wfFaults {
		if f != last {
			divs = append(divs, engine.Div{Prop: in.cfg.PropWF, Sig: in.probe.sig(call, tr, f), Detail: "store calls of the run: " + strings.Join(in.ctl.Log, ",")})
		}
		last = f
	}
	if len(divs) > 0 || in.probe.dirty {
		in.dirty = true
	}
	return divs
}

func (in *KVFaultInst) CheckState(exp *tla.Value, call, tr *tla.Value) []engine.Div {
	return in.probe.CompareTree(in.fs, in.probe.Expected(exp, tr), call, tr, "")
}

var _ hackpadfs.FS = (*keyvalue.FS)(nil)

// ---------------------------------------------------------------------------------------------
// handle operations under store faults (C14: "operations on already-open handles keep returning results or errors")

// HKVFaultAdapter runs Handles.tla on keyvalue.FS over a controlled store and, for every transition, re-runs the call on
// fresh copies of the model state (file, open handles with their flags and offsets, unlinked or renamed name) while
// failing each store call once; afterwards every open handle must still answer Stat/Read/Seek/Write without panicking.
type HKVFaultAdapter struct {
	Cfg   HConfig
	Store string
	Prop  string
}

func (a *HKVFaultAdapter) Name() string { return a.Cfg.AdapterName }

type HKVFaultInst struct {
	*HInst
	ad     *HKVFaultAdapter
	ctl    *kvctl.Ctl
	state  *tla.Value
	faults []string
}

func (a *HKVFaultAdapter) New(init *tla.Value) (engine.Instance, error) {
	ctl := &kvctl.Ctl{}
	cfg := a.Cfg
	cfg.MkFS = func() (hackpadfs.FS, func(), error) {
		fs, err := newKV(a.Store, ctl)
		return fs, func() {}, err
	}
	inst, err := (&HAdapter{Cfg: cfg}).New(init)
	if err != nil {
		return nil, err
	}
	return &HKVFaultInst{HInst: inst.(*HInst), ad: a, ctl: ctl}, nil
}

func (in *HKVFaultInst) SetState(s *tla.Value) { in.state = s }

// buildFromState constructs file, handles and name state of a Handles.tla state on a fresh file system.
func buildFromState(cfg *HConfig, fs hackpadfs.FS, st *tla.Value) (*HInst, error) {
	h := &HInst{cfg: cfg, fs: fs, cleanup: func() {}}
	hs := st.F("hs").E
	h.hs = make([]hackpadfs.File, len(hs)+1)
	if err := hackpadfs.WriteFullFile(fs, "f", st.F("data").Bytes(), 0644); err != nil {
		return nil, err
	}
	for i := range hs {
		if hs[i].F("s").S == "unused" {
			continue
		}
		fl := 0
		switch hs[i].F("acc").S {
		case "WO":
			fl = hackpadfs.FlagWriteOnly
		case "RW":
			fl = hackpadfs.FlagReadWrite
		}
		if hs[i].F("app").B {
			fl |= hackpadfs.FlagAppend
		}
		f, err := hackpadfs.OpenFile(fs, "f", fl, 0)
		if err != nil {
			return nil, err
		}
		h.hs[i+1] = f
		if hs[i].F("s").S == "closed" {
			_ = f.Close()
			continue
		}
		if off := hs[i].F("off").I; off > 0 {
			if _, err := hackpadfs.SeekFile(f, off, 0); err != nil {
				return nil, err
			}
		}
	}
	switch st.F("link").S {
	case "g":
		if err := hackpadfs.Rename(fs, "f", "g"); err != nil {
			return nil, err
		}
	case "none":
		if err := hackpadfs.Remove(fs, "f"); err != nil {
			return nil, err
		}
	}
	return h, nil
}

func (in *HKVFaultInst) Apply(call *tla.Value) any {
	in.faults = nil
	if in.state != nil {
		in.enumerate(call)
	}
	in.ctl.FailAt = 0
	return in.HInst.Apply(call)
}

func (in *HKVFaultInst) snapshot(h *HInst) string {
	var b strings.Builder
	for _, n := range []string{"f", "g"} {
		data, err := hackpadfs.ReadFile(h.fs, n)
		fmt.Fprintf(&b, "%s=%v/%v;", n, data, err != nil)
	}
	return b.String()
}

func (in *HKVFaultInst) enumerate(call *tla.Value) {
	run := func(failAt int64) (o HObs, ctl *kvctl.Ctl, after string, panics []string) {
		ctl = &kvctl.Ctl{}
		fs, err := newKV(in.ad.Store, ctl)
		if err != nil {
			panic(err)
		}
		cfg := in.ad.Cfg
		h, err := buildFromState(&cfg, fs, in.state)
		if err != nil {
			return HObs{Err: err}, ctl, "unbuildable", nil
		}
		if failAt > 0 {
			ctl.FailAt = ctl.Count() + failAt
		}
		before := in.snapshot(h)
		o = h.do(call)
		ctl.FailAt = 0
		after = in.snapshot(h)
		// a call that failed and left the names as they were must leave the handles attached to their file too: a write
		// that then succeeds through one of them has to show under the name (213: a byte no model value uses)
		link := in.state.F("link").S
		// (only while the file still has the name it was opened under: keyvalue handles do not follow a renamed file's record)
		attached := failAt > 0 && o.Err != nil && after == before && link == "f"
		// every open handle must keep answering
		for i := 1; i < len(h.hs); i++ {
			if h.hs[i] == nil {
				continue
			}
			for _, probe := range []string{"stat", "read", "seek", "write", "truncate"} {
				c := tla.MustParse(fmt.Sprintf(`[op |-> "%s", h |-> %d, n |-> 1, off |-> 0, bs |-> <<213>>, wh |-> 2, acc |-> "RO", app |-> FALSE, tr |-> FALSE]`, probe, i))
				po := h.do(&c)
				if po.Panic != "" {
					panics = append(panics, probe)
				}
				if probe == "write" && attached && po.Err == nil && po.N == 1 {
					if data, err := hackpadfs.ReadFile(h.fs, link); err != nil || !bytes.Contains(data, []byte{213}) {
						panics = append(panics, "write-lost")
					}
					// in-memory stores share the blob with the handle, so lost bytes do not show; a lost write-back of the
					// record does: the mode set through the handle must be the mode of the name
					func() {
						defer func() { _ = recover() }()
						if err := hackpadfs.ChmodFile(h.hs[i], 0741); err == nil {
							if info, serr := hackpadfs.Stat(h.fs, link); serr != nil || info.Mode().Perm() != 0741 {
								panics = append(panics, "write-lost")
							}
						}
					}()
				}
			}
		}
		h.Close()
		return
	}
	base, bctl, baseAfter, _ := run(0)
	if baseAfter == "unbuildable" {
		return
	}
	// store calls of the operation itself: measured on a second fault-free copy
	n := int64(12)
	_ = bctl
	for k := int64(1); k <= n; k++ {
		o, ctl, after, panics := run(k)
		if !ctl.Fired.Load() {
			break
		}
		cls := callClass(ctl.What)
		if o.Panic != "" {
			in.faults = append(in.faults, "panic-after-fault "+cls)
		} else if o.Err == nil && (base.Err != nil || after != baseAfter) {
			in.faults = append(in.faults, "fault-swallowed "+cls)
		}
		for _, p := range panics {
			if p == "write-lost" {
				in.faults = append(in.faults, "handle-write-lost-after-failed-call ("+cls+")")
				continue
			}
			in.faults = append(in.faults, "handle-panics-after-fault "+p+" ("+cls+")")
		}
	}
}

func (in *HKVFaultInst) CheckResult(call, tr *tla.Value, obs any) []engine.Div {
	divs := in.HInst.CheckResult(call, tr, obs)
	sort.Strings(in.faults)
	last := ""
	for _, f := range in.faults {
		if f != last {
			divs = append(divs, engine.Div{Prop: in.ad.Prop, Sig: in.HInst.sig(call, tr, f), Detail: "store calls: " + strings.Join(in.ctl.Log, ",")})
		}
		last = f
	}
	if len(divs) > 0 {
		in.HInst.dirty = true
	}
	return divs
}
