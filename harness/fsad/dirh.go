package fsad

import (
	"errors"
	"fmt"
	"github.com/hack-pad/hackpadfs/mem"
	"github.com/hack-pad/hackpadfs/mount"
	hpos "github.com/hack-pad/hackpadfs/os"
	"io"
	"math"
	"os"
	"sort"
	"strings"

	"github.com/hack-pad/hackpadfs"
	"verif/harness/engine"
	"verif/harness/tla"
)

// DConfig binds DirH.tla to a real file system holding directory "d" with K children
// (c01 file, c02 dir, c03 file ...), a regular file "f" and no entry "m".
type DConfig struct {
	AdapterName string
	PropList    string // C16
	PropClosed  string // C17
	PropIO      string // C02 (reading a directory handle as bytes)
	Reference   bool
	// MkDirFS returns a file system already populated for k children.
	MkDirFS func(k int) (hackpadfs.FS, func(), error)
	// MountChild: a child that is itself a mount point; only its name and kind must agree with Stat (C16)
	MountChild string
	// Dir is the name of the listed directory: "d", or ".d" for the variants whose listed directory has a name that
	// begins with a dot (a name like any other, also directly below the root of an archive, a mount or a view)
	Dir string
}

func (c *DConfig) dir() string {
	if c.Dir == "" {
		return "d"
	}
	return c.Dir
}

// DirOfKind splits the ".dot" suffix off an adapter kind: ("tar.dot") -> ("tar", ".d")
func DirOfKind(kind string) (string, string) {
	if strings.HasSuffix(kind, ".dot") {
		return strings.TrimSuffix(kind, ".dot"), ".d"
	}
	return kind, "d"
}

// ChildName returns the i-th (1-based) child name; odd children are files, even ones directories.
func ChildName(i int) string { return fmt.Sprintf("c%02d", i) }
func ChildIsDir(i int) bool  { return i%2 == 0 }

// PopulateDir builds the DirH fixture on a writable FS.
func PopulateDir(fs hackpadfs.FS, k int) error { return populateDir(fs, k, true, "d") }

func populateDir(fs hackpadfs.FS, k int, mkD bool, dir string) error {
	if mkD {
		if err := hackpadfs.Mkdir(fs, dir, 0755); err != nil {
			return err
		}
	}
	if err := hackpadfs.WriteFullFile(fs, "f", []byte("x"), 0644); err != nil {
		return err
	}
	// siblings whose names extend the directory's name: a prefix scan that ignores the element boundary would
	// list "zz" (unknown) and "c01" (duplicate) as children of "d"
	for _, sib := range []string{dir + "zz", dir + "Xc01"} {
		if err := hackpadfs.WriteFullFile(fs, sib, []byte("s"), 0644); err != nil {
			return err
		}
	}
	for i := 1; i <= k; i++ {
		p := dir + "/" + ChildName(i)
		if ChildIsDir(i) {
			if err := hackpadfs.Mkdir(fs, p, 0700); err != nil {
				return err
			}
		} else if err := hackpadfs.WriteFullFile(fs, p, []byte(ChildName(i)), 0600); err != nil {
			return err
		}
		// the first file and the first directory carry mode bits that are neither permission nor type bits: an
		// entry's Type() must still be the type bits only, and agree with Stat
		switch i {
		case 1:
			if err := hackpadfs.Chmod(fs, p, 0600|hackpadfs.ModeSetuid|hackpadfs.ModeSticky); err != nil && !errors.Is(err, hackpadfs.ErrNotImplemented) {
				return err
			}
		case 2:
			if err := hackpadfs.Chmod(fs, p, 0700|hackpadfs.ModeSetgid|hackpadfs.ModeSticky); err != nil && !errors.Is(err, hackpadfs.ErrNotImplemented) {
				return err
			}
		}
	}
	return nil
}

// Writable wraps a plain FS constructor into a DirH fixture constructor.
func Writable(mk func() (hackpadfs.FS, func(), error)) func(int) (hackpadfs.FS, func(), error) {
	return WritableAt(mk, "d")
}

// WritableAt is Writable with the listed directory named dir.
func WritableAt(mk func() (hackpadfs.FS, func(), error), dir string) func(int) (hackpadfs.FS, func(), error) {
	return func(k int) (hackpadfs.FS, func(), error) {
		fs, cl, err := mk()
		if err != nil {
			return nil, nil, err
		}
		if err := populateDir(fs, k, true, dir); err != nil {
			cl()
			return nil, nil, err
		}
		return fs, cl, nil
	}
}

// ComposedDir builds the DirH fixture behind a composition layer (C16 names mount, Sub, cache, tar and os.FS):
//
//	oshp      hackpadfs os.FS rooted in a fresh directory
//	mntat     mount.FS, the listed directory "d" is a mount point (its children live in the mounted file system)
//	mntbelow  mount.FS, a child directory of "d" is a mount point
//	sub       Sub view of a directory of mem.FS
//	cache     cache.ReadOnlyFS over the populated source
//	tar       tar.ReaderFS unpacked from an archive of the populated tree
func ComposedDir(kind string) func(int) (hackpadfs.FS, func(), error) {
	kind, dir := DirOfKind(kind)
	return func(k int) (hackpadfs.FS, func(), error) {
		none := func() {}
		switch kind {
		case "oshp":
			tmp, err := os.MkdirTemp(tmpBase(), "verif-dirh-")
			if err != nil {
				return nil, nil, err
			}
			fs, err := hpos.NewFS().Sub(strings.TrimPrefix(tmp, "/"))
			if err == nil {
				err = populateDir(fs, k, true, dir)
			}
			return fs, func() { _ = os.RemoveAll(tmp) }, err
		case "mntat":
			root, _ := mem.NewFS()
			if err := hackpadfs.Mkdir(root, dir, 0755); err != nil {
				return nil, nil, err
			}
			inner, _ := mem.NewFS()
			mfs, _ := mount.NewFS(root)
			if err := mfs.AddMount(dir, inner); err != nil {
				return nil, nil, err
			}
			return mfs, none, populateDir(mfs, k, false, dir)
		case "mntbelow":
			root, _ := mem.NewFS()
			mfs, _ := mount.NewFS(root)
			if err := populateDir(mfs, k, true, dir); err != nil {
				return nil, nil, err
			}
			if k >= 2 { // the first child directory becomes a mount point
				inner, _ := mem.NewFS()
				if err := mfs.AddMount(dir+"/"+ChildName(2), inner); err != nil {
					return nil, nil, err
				}
			}
			return mfs, none, nil
		case "sub":
			base, _ := mem.NewFS()
			if err := hackpadfs.MkdirAll(base, "x/y", 0755); err != nil {
				return nil, nil, err
			}
			view, err := hackpadfs.Sub(base, "x/y")
			if err == nil {
				err = populateDir(view, k, true, dir)
			}
			return view, none, err
		case "cache", "tar":
			return ComposeFrom(kind)(nil, func(fs hackpadfs.FS) error { return populateDir(fs, k, true, dir) })
		}
		return nil, nil, fmt.Errorf("unknown composed dir kind %q", kind)
	}
}

type DAdapter struct{ Cfg DConfig }

func (a *DAdapter) Name() string { return a.Cfg.AdapterName }
func (a *DAdapter) New(init *tla.Value) (engine.Instance, error) {
	k, nh := 0, 2
	if init != nil {
		k = int(init.F("k").I)
		nh = len(init.F("hs").E)
	}
	fs, cl, err := a.Cfg.MkDirFS(k)
	if err != nil {
		return nil, err
	}
	return &DInst{cfg: &a.Cfg, fs: fs, cleanup: cl, k: k, hs: make([]hackpadfs.File, nh+1), seen: make([]map[string]bool, nh+1)}, nil
}

type DInst struct {
	cfg     *DConfig
	fs      hackpadfs.FS
	cleanup func()
	k       int
	hs      []hackpadfs.File
	seen    []map[string]bool
	dirty   bool
}

func (in *DInst) Dirty() bool { return in.dirty }
func (in *DInst) Close() {
	for _, h := range in.hs {
		if h != nil {
			func() {
				defer func() { _ = recover() }()
				_ = h.Close()
			}()
		}
	}
	if in.cleanup != nil {
		in.cleanup()
	}
}

type DObs struct {
	Err      error
	Entries  []hackpadfs.DirEntry
	Problems []string
	Panic    string
}

func (o DObs) String() string {
	if o.Panic != "" {
		return "PANIC " + o.Panic
	}
	names := []string{}
	for _, e := range o.Entries {
		names = append(names, e.Name())
	}
	return fmt.Sprintf("entries=%v err=%v problems=%v", names, o.Err, o.Problems)
}

func (o DObs) class() string {
	switch {
	case o.Panic != "":
		return "PANIC"
	case o.Err == nil:
		return "ok"
	case errors.Is(o.Err, io.EOF):
		return "EOF"
	case errors.Is(o.Err, hackpadfs.ErrClosed):
		return "ECLOSED"
	case errors.Is(o.Err, hackpadfs.ErrNotDir):
		return "ENOTDIR"
	case errors.Is(o.Err, hackpadfs.ErrNotExist):
		return "ENOENT"
	}
	return "FAIL"
}

// checkEntries validates names, kinds and Info of listed entries against Stat of each child.
func (in *DInst) checkEntries(ents []hackpadfs.DirEntry, seen map[string]bool, sorted bool) (problems []string) {
	valid := map[string]int{}
	for i := 1; i <= in.k; i++ {
		valid[ChildName(i)] = i
	}
	prev := ""
	for idx, e := range ents {
		name := e.Name()
		i, ok := valid[name]
		if !ok {
			problems = append(problems, "unknown-entry")
			continue
		}
		if seen != nil {
			if seen[name] {
				problems = append(problems, "duplicate-entry")
			}
			seen[name] = true
		}
		if sorted && idx > 0 && prev >= name {
			problems = append(problems, "unsorted")
		}
		prev = name
		if e.IsDir() != ChildIsDir(i) || e.Type().IsDir() != ChildIsDir(i) {
			problems = append(problems, "kind-disagrees")
		}
		if e.Type()&^hackpadfs.ModeType != 0 {
			problems = append(problems, "type-with-non-type-bits")
		}
		info, err := e.Info()
		if err != nil || info == nil {
			problems = append(problems, "info-error")
			continue
		}
		st, err := hackpadfs.Stat(in.fs, in.cfg.dir()+"/"+name)
		if err != nil {
			problems = append(problems, "listed-entry-not-statable")
			continue
		}
		if e.Type() != st.Mode().Type() {
			problems = append(problems, "kind-disagrees-with-stat")
		}
		if name == in.cfg.MountChild {
			if info.Name() != name || info.IsDir() != st.IsDir() {
				problems = append(problems, "info-disagrees-with-stat")
			}
			continue
		}
		if info.Name() != name || info.IsDir() != st.IsDir() || info.Mode() != st.Mode() || (!st.IsDir() && info.Size() != st.Size()) {
			problems = append(problems, "info-disagrees-with-stat")
		}
	}
	return problems
}

func (in *DInst) Apply(call *tla.Value) any { return in.do(call) }

func (in *DInst) do(call *tla.Value) (o DObs) {
	defer func() {
		if r := recover(); r != nil {
			o.Panic = fmt.Sprint(r)
		}
	}()
	op := call.F("op").S
	i := int(call.F("h").I)
	var f hackpadfs.File
	if i > 0 && i < len(in.hs) {
		f = in.hs[i]
	}
	switch op {
	case "open":
		h, err := in.fs.Open(in.cfg.dir())
		o.Err = err
		if err == nil {
			in.hs[i] = h
			in.seen[i] = map[string]bool{}
		}
	case "readdir":
		n := int(call.F("n").I)
		if n == math.MaxInt32 {
			n = math.MaxInt // TLC's integers are 32 bits wide: the model's largest page stands for the platform's largest int
		}
		o.Entries, o.Err = hackpadfs.ReadDirFile(f, n)
		o.Problems = in.checkEntries(o.Entries, in.seen[i], false)
	case "readbytes":
		buf := make([]byte, 1)
		_, o.Err = f.Read(buf)
	case "rewind":
		_, o.Err = hackpadfs.SeekFile(f, 0, io.SeekStart)
		if o.Err == nil {
			in.seen[i] = map[string]bool{}
		}
	case "stat":
		info, err := f.Stat()
		o.Err = err
		if err == nil && !info.IsDir() {
			o.Problems = append(o.Problems, "handle-stat-not-dir")
		}
	case "close":
		o.Err = f.Close()
	case "listdir":
		o.Entries, o.Err = hackpadfs.ReadDir(in.fs, in.cfg.dir())
		o.Problems = in.checkEntries(o.Entries, map[string]bool{}, true)
	case "listfile":
		o.Entries, o.Err = hackpadfs.ReadDir(in.fs, "f")
	case "listmissing":
		o.Entries, o.Err = hackpadfs.ReadDir(in.fs, "m")
	default:
		panic("unknown dirh op " + op)
	}
	return o
}

func (in *DInst) CheckResult(call, tr *tla.Value, obsAny any) []engine.Div {
	o := obsAny.(DObs)
	var divs []engine.Div
	op, exp, b := call.F("op").S, tr.F("e").S, tr.F("b").S
	prop := in.cfg.PropList
	switch {
	case len(b) > 7 && b[len(b)-7:] == "/closed":
		prop = in.cfg.PropClosed
	case op == "readbytes":
		prop = in.cfg.PropIO
	case op == "close" || op == "stat" || op == "open":
		prop = in.cfg.PropClosed
	}
	add := func(what string) {
		divs = append(divs, engine.Div{Prop: prop, Sig: fmt.Sprintf("%s %s %s %s", in.cfg.AdapterName, op, b, what), Detail: o.String()})
		in.dirty = true
	}
	got := o.class()
	if got == "PANIC" {
		add("exp=" + exp + " got=PANIC")
		return divs
	}
	switch exp {
	case "ok", "EOF", "ENOTDIR", "ENOENT":
		if got != exp {
			if exp == "ok" || got == "ok" || exp == "EOF" || got == "EOF" {
				add("exp=" + exp + " got=" + got)
			} else {
				// both fail with different sentinels: an error-kind disagreement
				add("errkind exp=" + exp + " got=" + got)
			}
			return divs
		}
	case "FAIL":
		if got == "ok" || got == "EOF" {
			add("exp=FAIL got=" + got)
		}
		return divs
	case "ECLOSED":
		if got == "ok" || got == "EOF" {
			add("exp=ECLOSED got=" + got)
		} else if got != "ECLOSED" {
			add("exp=ECLOSED got=other-error")
		}
		return divs
	}
	if op == "readdir" || op == "listdir" {
		if int64(len(o.Entries)) != tr.F("cnt").I {
			add(fmt.Sprintf("entry-count exp=%s", cntClass(tr.F("cnt").I, int64(len(o.Entries)))))
		}
	}
	ps := append([]string{}, o.Problems...)
	sort.Strings(ps)
	last := ""
	for _, p := range ps {
		if p != last {
			add(p)
		}
		last = p
	}
	return divs
}

func cntClass(want, got int64) string {
	switch {
	case got == 0:
		return "some got=none"
	case got < want:
		return "more got=fewer"
	}
	return "fewer got=more"
}

func (in *DInst) CheckState(exp *tla.Value, call, tr *tla.Value) []engine.Div { return nil }
