package fsad

import (
	"bytes"
	"fmt"
	"math/rand"
	"sort"
	"strings"

	"github.com/hack-pad/hackpadfs"
	"github.com/hack-pad/hackpadfs/mem"
	"github.com/hack-pad/hackpadfs/mount"
	"verif/harness/engine"
	"verif/harness/tla"
)

// MConfig binds Mount.tla to a real mount.FS over mem.FS instances.
type MConfig struct {
	Config           // attribution / names / depth for the constituent trees
	PropRoute string // C06: effect in the wrong FS, wrong result
	Seed      int64
	// Repeat: each read-only query is repeated this many times (sync.Map iteration orders)
	Repeat int
	// Faults: every Rename is re-run on fresh copies of the current state with one primitive call of a constituent
	// file system failing: it must either do all of its work or fail leaving every constituent as it was
	Faults    bool
	PropFault string // attribution of what the fault enumeration finds (no listed property quantifies over faults in mount.FS)
}

type MAdapter struct {
	Cfg   MConfig
	fresh *tla.Value // the tree of a newly mounted file system (header constant "fresh")
}

// SetHeader receives the header line of the model (engine.HeaderAware).
func (a *MAdapter) SetHeader(h *tla.Value) {
	if f := h.Get("fresh"); f != nil {
		a.fresh = f
	}
}

func (a *MAdapter) Name() string { return a.Cfg.AdapterName }

type MInst struct {
	cfg    *MConfig
	mfs    *mount.FS
	parts  map[int64]hackpadfs.FS // constituent file systems by model id
	probe  *Inst                  // reuses the FSCore call/result machinery on the mount FS
	root0  *tla.Value             // initial tree of the root FS (template for freshly mounted file systems when the model names none)
	fresh  *tla.Value             // the tree a newly mounted file system carries, as the model's header states it
	dirty  bool
	state  *tla.Value // model state before the call (engine.StateAware)
	faults []string
	ctl    *faultCtl // non-nil: every constituent file system is wrapped and fails its ctl.failAt-th primitive call
}

// SetState receives the model state the instance is in.
func (in *MInst) SetState(s *tla.Value) { in.state = s }

func (a *MAdapter) New(init *tla.Value) (engine.Instance, error) {
	return a.build(init, nil)
}

func (a *MAdapter) build(init *tla.Value, ctl *faultCtl) (*MInst, error) {
	in := &MInst{cfg: &a.Cfg, parts: map[int64]hackpadfs.FS{}, ctl: ctl}
	mkPart := func(id int64, tree *tla.Value) (hackpadfs.FS, error) {
		fs, err := mem.NewFS()
		if err != nil {
			return nil, err
		}
		if tree != nil {
			if err := Construct(fs, tree, nil); err != nil {
				return nil, err
			}
		}
		in.parts[id] = fs
		if ctl != nil {
			return &faultFS{in: fullMem{fs}, c: ctl}, nil // what is mounted fails on demand; in.parts keeps the plain FS for projection
		}
		return fs, nil
	}
	var rootTree *tla.Value
	fss := init.F("fss")
	trees := map[int64]*tla.Value{}
	fss.Pairs(func(k, v *tla.Value) {
		trees[k.I] = v
		if k.I == 0 {
			rootTree = v
		}
	})
	in.root0 = rootTree
	if a.fresh != nil {
		in.fresh = a.fresh
	}
	root, err := mkPart(0, rootTree)
	if err != nil {
		return nil, err
	}
	in.mfs, err = mount.NewFS(root)
	if err != nil {
		return nil, err
	}
	type mp struct {
		path string
		id   int64
	}
	var mps []mp
	pr := &Inst{cfg: &a.Cfg.Config}
	init.F("mounts").Pairs(func(k, v *tla.Value) { mps = append(mps, mp{pr.path(k), v.I}) })
	// insertion order permuted by seed (the mount table is a sync.Map); parents first is not
	// required because every constituent FS carries the directory skeleton
	sort.Slice(mps, func(i, j int) bool { return mps[i].path < mps[j].path })
	rand.New(rand.NewSource(a.Cfg.Seed)).Shuffle(len(mps), func(i, j int) { mps[i], mps[j] = mps[j], mps[i] })
	for _, m := range mps {
		part, err := mkPart(m.id, trees[m.id])
		if err != nil {
			return nil, err
		}
		if err := in.mfs.AddMount(m.path, part); err != nil {
			return nil, fmt.Errorf("building layout: AddMount(%s): %w", m.path, err)
		}
	}
	in.probe = NewProbe(&a.Cfg.Config, in.mfs)
	return in, nil
}

func (in *MInst) Dirty() bool { return in.dirty }
func (in *MInst) Close()      {}

func (in *MInst) Apply(call *tla.Value) any {
	if call.F("op").S == "addmount" {
		return in.addMount(call)
	}
	in.faults = nil
	if in.cfg.Faults && in.state != nil && in.ctl == nil && call.F("op").S == "rename" {
		in.enumerateFaults(call)
	}
	o := in.probe.Apply(call).(Obs)
	// routing must not depend on the iteration order of the mount table: repeat pure queries
	switch call.F("op").S {
	case "stat", "readfile", "readdir":
		for i := 1; i < in.cfg.Repeat; i++ {
			o2 := in.probe.Apply(call).(Obs)
			if o2.Kind != o.Kind || fmt.Sprint(o2.Out) != fmt.Sprint(o.Out) {
				o.Panic = fmt.Sprintf("unstable routing: %v then %v", o, o2)
				break
			}
		}
	}
	return o
}

// enumerateFaults re-runs the Rename once per primitive call it makes on the constituent file systems, on fresh copies
// of the current state, failing exactly that call.
func (in *MInst) enumerateFaults(call *tla.Value) {
	ad := &MAdapter{Cfg: *in.cfg}
	closure, _ := in.probe.closure()
	snapshot := func(x *MInst) string {
		var ids []int64
		for id := range x.parts {
			ids = append(ids, id)
		}
		sort.Slice(ids, func(i, j int) bool { return ids[i] < ids[j] })
		var b strings.Builder
		for _, id := range ids {
			tree, _ := Project(x.parts[id], closure)
			fmt.Fprintf(&b, "#%d{%s}", id, describe(tree))
		}
		return b.String()
	}
	run := func(failAt int64) (Obs, *faultCtl, string, string) {
		ctl := &faultCtl{}
		x, err := ad.build(in.state, ctl)
		if err != nil {
			panic(err)
		}
		before := snapshot(x)
		ctl.count, ctl.failAt, ctl.log = 0, failAt, nil
		o := x.probe.Apply(call).(Obs)
		return o, ctl, before, snapshot(x)
	}
	o0, c0, _, after0 := run(0)
	n := c0.count
	if n > 60 {
		n = 60
	}
	for k := int64(1); k <= n; k++ {
		o, ctl, before, after := run(k)
		if !ctl.fired.Load() {
			continue
		}
		switch {
		case o.Panic != "":
			in.faults = append(in.faults, "panic-after-fault "+ctl.what)
		case o.Err == nil && (o0.Err != nil || after != after0):
			in.faults = append(in.faults, "fault-swallowed "+ctl.what)
		case o.Err != nil && after != before && after != after0:
			in.faults = append(in.faults, "failed-half-done "+ctl.what)
		case o.Err != nil && after != before:
			in.faults = append(in.faults, "failed-but-done "+ctl.what)
		}
	}
}

func (in *MInst) addMount(call *tla.Value) (o Obs) {
	defer func() {
		if r := recover(); r != nil {
			o.Panic = fmt.Sprint(r)
			o.Kind = "PANIC"
		}
	}()
	p := in.probe.path(call.F("p"))
	// a freshly mounted FS carries the model's FreshFixture: the root skeleton with every file byte = 77
	part, err := mem.NewFS()
	if err == nil && in.fresh != nil {
		err = Construct(part, in.fresh, nil) // the model says what a newly mounted file system holds
	} else if err == nil {
		err = Construct(part, in.root0, nil)
	}
	if err == nil && in.fresh == nil {
		in.root0.Pairs(func(k, v *tla.Value) {
			if v.F("k").S == "file" && err == nil {
				err = hackpadfs.WriteFullFile(part, in.probe.path(k), bytes.Repeat([]byte{77}, len(v.F("d").E)), hackpadfs.FileMode(v.F("perm").I))
			}
		})
	}
	if err != nil {
		panic(err)
	}
	err = in.mfs.AddMount(p, part)
	if err == nil {
		in.parts[-1] = part // id resolved in CheckState from the model
	}
	o.Err = err
	o.Kind = ErrKind(err)
	o.Typ, o.Paths = ErrShape(err)
	return o
}

func (in *MInst) CheckResult(call, tr *tla.Value, obs any) []engine.Div {
	divs := in.probe.CheckResult(call, tr, obs)
	seen := map[string]bool{}
	sort.Strings(in.faults)
	for _, f := range in.faults {
		if !seen[f] {
			seen[f] = true
			divs = append(divs, engine.Div{Prop: in.cfg.PropFault, Sig: in.probe.sig(call, tr, f), Detail: "Rename re-run on a copy of the state with that primitive call failing"})
		}
	}
	if in.probe.dirty {
		in.dirty = true
	}
	return divs
}

func (in *MInst) CheckState(exp *tla.Value, call, tr *tla.Value) []engine.Div {
	var divs []engine.Div
	exp = in.probe.Expected(exp, tr)
	// a mount added by this call: populate it like the model's fixture, then compare as usual
	if part, ok := in.parts[-1]; ok {
		delete(in.parts, -1)
		var newID int64 = -1
		exp.F("fss").Pairs(func(k, v *tla.Value) {
			if _, known := in.parts[k.I]; !known {
				newID = k.I
			}
		})
		if newID >= 0 {
			in.parts[newID] = part
		}
	}
	seen := map[int64]bool{}
	exp.F("fss").Pairs(func(k, v *tla.Value) {
		seen[k.I] = true
		part, ok := in.parts[k.I]
		if !ok {
			divs = append(divs, engine.Div{Prop: in.cfg.PropRoute, Sig: in.probe.sig(call, tr, "state fs-missing"), Detail: fmt.Sprint("no constituent FS for id ", k.I)})
			return
		}
		divs = append(divs, in.probe.CompareTree(part, v, call, tr, "")...)
	})
	// the composed view must itself be a well-formed tree (C03): listing, Stat and Open through the mount FS agree
	if in.cfg.PropWF != "-" {
		closure, cset := in.probe.closure()
		view, _ := Project(in.mfs, closure)
		seenWF := map[string]bool{}
		for _, b := range WellFormed(view, cset) {
			if !seenWF[b] {
				seenWF[b] = true
				divs = append(divs, engine.Div{Prop: in.cfg.PropWF, Sig: in.probe.sig(call, tr, "view-wf "+b), Detail: describe(view)})
			}
		}
	}
	// the mount table itself
	want := map[string]bool{}
	exp.F("mounts").Pairs(func(k, v *tla.Value) { want[in.probe.path(k)] = true })
	got := map[string]bool{}
	for _, p := range in.mfs.MountPoints() {
		got[p.Path] = true
	}
	if fmt.Sprint(keys(want)) != fmt.Sprint(keys(got)) {
		divs = append(divs, engine.Div{Prop: in.cfg.PropRoute, Sig: in.probe.sig(call, tr, "state mount-table"), Detail: fmt.Sprintf("mount points %v want %v", keys(got), keys(want))})
	}
	if len(divs) > 0 {
		in.dirty = true
	}
	return divs
}

func keys(m map[string]bool) []string {
	var out []string
	for k := range m {
		out = append(out, k)
	}
	sort.Strings(out)
	return out
}
