package fsad

import (
	"bytes"
	"errors"
	"fmt"
	"io"
	"strings"

	"github.com/hack-pad/hackpadfs"
	"verif/harness/engine"
	"verif/harness/tla"
)

// HConfig configures the adapter binding Handles.tla to real file handles.
type HConfig struct {
	AdapterName string
	PropIO      string // C02: bytes, offsets, contents, success/failure
	PropClosed  string // C17: closed handles, independence, resurrection
	Reference   bool
	MkFS        func() (hackpadfs.FS, func(), error)
}

type HAdapter struct{ Cfg HConfig }

func (a *HAdapter) Name() string { return a.Cfg.AdapterName }

func (a *HAdapter) New(init *tla.Value) (engine.Instance, error) {
	fs, cleanup, err := a.Cfg.MkFS()
	if err != nil {
		return nil, err
	}
	in := &HInst{cfg: &a.Cfg, fs: fs, cleanup: cleanup}
	data := []byte{}
	nh := 2
	if init != nil {
		data = init.F("data").Bytes()
		nh = len(init.F("hs").E)
	}
	in.hs = make([]hackpadfs.File, nh+1)
	if err := hackpadfs.WriteFullFile(fs, "f", data, 0644); err != nil {
		return nil, err
	}
	return in, nil
}

type HInst struct {
	cfg     *HConfig
	fs      hackpadfs.FS
	cleanup func()
	hs      []hackpadfs.File
	dirty   bool
}

func (in *HInst) Dirty() bool { return in.dirty }
func (in *HInst) Close() {
	for _, h := range in.hs {
		if h != nil {
			func() {
				defer func() { _ = recover() }()
				_ = h.Close()
			}()
		}
	}
	if in.cleanup != nil {
		in.cleanup()
	}
}

// HObs is what one handle call returned.
type HObs struct {
	Err   error
	N     int
	Bytes []byte
	Ret   int64
	Panic string
}

func (o HObs) String() string {
	if o.Panic != "" {
		return "PANIC " + o.Panic
	}
	return fmt.Sprintf("n=%d bytes=%v ret=%d err=%v", o.N, o.Bytes, o.Ret, o.Err)
}

func (o HObs) class() string {
	switch {
	case o.Panic != "":
		return "PANIC"
	case o.Err == nil:
		return "ok"
	case errors.Is(o.Err, io.EOF):
		return "EOF"
	case errors.Is(o.Err, hackpadfs.ErrClosed):
		return "ECLOSED"
	}
	return "FAIL"
}

func (in *HInst) Apply(call *tla.Value) any {
	return in.do(call)
}

func (in *HInst) do(call *tla.Value) (o HObs) {
	defer func() {
		if r := recover(); r != nil {
			o.Panic = fmt.Sprint(r)
		}
	}()
	op := call.F("op").S
	i := int(call.F("h").I)
	var f hackpadfs.File
	if i > 0 && i < len(in.hs) {
		f = in.hs[i]
	}
	switch op {
	case "open", "create":
		fl := 0
		if op == "create" {
			fl = hackpadfs.FlagCreate
		}
		switch call.F("acc").S {
		case "RO":
			fl |= hackpadfs.FlagReadOnly
		case "WO":
			fl |= hackpadfs.FlagWriteOnly
		case "RW":
			fl |= hackpadfs.FlagReadWrite
		}
		if call.F("app").B {
			fl |= hackpadfs.FlagAppend
		}
		if call.F("tr").B {
			fl |= hackpadfs.FlagTruncate
		}
		h, err := hackpadfs.OpenFile(in.fs, "f", fl, 0644)
		o.Err = err
		if err == nil {
			in.hs[i] = h
		}
	case "read":
		buf := bytes.Repeat([]byte{0xEE}, int(call.F("n").I))
		o.N, o.Err = f.Read(buf)
		if o.N >= 0 && o.N <= len(buf) {
			o.Bytes = buf[:o.N]
		}
	case "readat":
		buf := bytes.Repeat([]byte{0xEE}, int(call.F("n").I))
		o.N, o.Err = hackpadfs.ReadAtFile(f, buf, call.F("off").I)
		if o.N >= 0 && o.N <= len(buf) {
			o.Bytes = buf[:o.N]
		}
	case "write":
		o.N, o.Err = hackpadfs.WriteFile(f, call.F("bs").Bytes())
	case "writeat":
		o.N, o.Err = hackpadfs.WriteAtFile(f, call.F("bs").Bytes(), call.F("off").I)
	case "seek":
		o.Ret, o.Err = hackpadfs.SeekFile(f, call.F("off").I, int(call.F("wh").I))
	case "truncate":
		o.Err = hackpadfs.TruncateFile(f, call.F("off").I)
	case "stat":
		info, err := f.Stat()
		o.Err = err
		if err == nil {
			o.Ret = info.Size()
		}
	case "close":
		o.Err = f.Close()
	case "sync":
		o.Err = hackpadfs.SyncFile(f)
	case "chmod":
		o.Err = hackpadfs.ChmodFile(f, 0644)
	case "readdir":
		_, o.Err = hackpadfs.ReadDirFile(f, 1)
	case "remove":
		o.Err = hackpadfs.Remove(in.fs, "f")
	case "rename":
		o.Err = hackpadfs.Rename(in.fs, "f", "g")
	case "replace":
		// another file takes the name
		if o.Err = hackpadfs.WriteFullFile(in.fs, "r", otherData, 0644); o.Err == nil {
			o.Err = hackpadfs.Rename(in.fs, "r", "f")
		}
	default:
		panic("unknown handle op " + op)
	}
	return o
}

// otherData is the content of the file that op "replace" renames onto the handles' name
var otherData = []byte{200, 201}

func (in *HInst) sig(call, tr *tla.Value, what string) string {
	op, b := "-", "-"
	if call != nil {
		op = call.F("op").S
	}
	if tr != nil {
		if bv := tr.Get("b"); bv != nil {
			b = bv.S
		}
	}
	return fmt.Sprintf("%s %s %s %s", in.cfg.AdapterName, op, b, what)
}

func (in *HInst) CheckResult(call, tr *tla.Value, obsAny any) []engine.Div {
	o := obsAny.(HObs)
	var divs []engine.Div
	op := call.F("op").S
	exp := tr.F("e").S
	b := tr.F("b").S
	prop := in.cfg.PropIO
	closedCase := strings.Contains(b, "/closed")
	if closedCase {
		prop = in.cfg.PropClosed
	}
	add := func(what, detail string) {
		divs = append(divs, engine.Div{Prop: prop, Sig: in.sig(call, tr, what), Detail: detail})
		in.dirty = true
	}
	got := o.class()
	if got == "PANIC" {
		add("exp="+exp+" got=PANIC", o.String())
		return divs
	}
	switch exp {
	case "ANY":
		return nil
	case "ZERO":
		if o.N != 0 {
			add("exp=ZERO got=bytes", o.String())
		}
		return divs
	case "ok":
		may := tr.F("may").B
		if got == "EOF" && may {
			// io.EOF together with the last bytes: allowed
		} else if got != "ok" {
			add("exp=ok got="+got, o.String())
			return divs
		}
	case "EOF":
		if got != "EOF" {
			add("exp=EOF got="+got, o.String())
			return divs
		}
	case "FAIL":
		if got == "ok" {
			add("exp=FAIL got=ok", o.String())
		}
		return divs
	case "ECLOSED":
		if got == "ok" || got == "EOF" {
			add("exp=ECLOSED got="+got, o.String())
		} else if got != "ECLOSED" {
			add("exp=ECLOSED got=other-error", o.String())
		}
		return divs
	}
	// data of successful calls
	switch op {
	case "read", "readat":
		if int64(o.N) != tr.F("cnt").I || !bytes.Equal(o.Bytes, tr.F("bs").Bytes()) {
			add("bytes", fmt.Sprintf("%s want n=%d %s", o.String(), tr.F("cnt").I, tr.F("bs").Raw))
		}
	case "write", "writeat":
		if int64(o.N) != tr.F("cnt").I {
			add("count", fmt.Sprintf("%s want n=%d", o.String(), tr.F("cnt").I))
		}
	case "seek", "stat":
		if o.Ret != tr.F("ret").I {
			add("returned", fmt.Sprintf("%s want %d", o.String(), tr.F("ret").I))
		}
	}
	return divs
}

func (in *HInst) CheckState(exp *tla.Value, call, tr *tla.Value) []engine.Div {
	var divs []engine.Div
	add := func(prop, what, detail string) {
		divs = append(divs, engine.Div{Prop: prop, Sig: in.sig(call, tr, what), Detail: detail})
		in.dirty = true
	}
	defer func() {
		if r := recover(); r != nil {
			add(in.cfg.PropIO, "projection panic", fmt.Sprint(r))
		}
	}()
	link := exp.F("link").S
	want := exp.F("data").Bytes()
	isNs := call != nil && (call.F("op").S == "remove" || call.F("op").S == "rename" || call.F("op").S == "replace")
	for _, name := range []string{"f", "g"} {
		b, err := hackpadfs.ReadFile(in.fs, name)
		switch {
		case link == "other" && name == "f":
			// the name belongs to the file that replaced the handles' file: nothing done through them may show here
			if err != nil {
				add(in.cfg.PropClosed, "state replacing-file-missing", fmt.Sprintf("%s: %v", name, err))
			} else if !bytes.Equal(b, otherData) {
				add(in.cfg.PropClosed, "state replacing-file-overwritten", fmt.Sprintf("%s holds %v want %v", name, b, otherData))
			}
		case link == name && err != nil:
			add(in.cfg.PropIO, "state name-missing", fmt.Sprintf("%s: %v", name, err))
		case link == name && !bytes.Equal(b, want):
			add(in.cfg.PropIO, "state contents", fmt.Sprintf("%s holds %v want %v", name, b, want))
		case link != name && err == nil:
			if isNs {
				add(in.cfg.PropIO, "state name-present", fmt.Sprintf("%s exists with %v, model link=%s", name, b, link))
			} else {
				add(in.cfg.PropClosed, "state name-resurrected", fmt.Sprintf("%s exists with %v, model link=%s", name, b, link))
			}
		}
	}
	hs := exp.F("hs").E
	for i := range hs {
		if hs[i].F("s").S != "open" || in.hs[i+1] == nil {
			continue
		}
		off, err := hackpadfs.SeekFile(in.hs[i+1], 0, io.SeekCurrent)
		if err != nil {
			p := in.cfg.PropClosed
			if call != nil && int(call.F("h").I) == i+1 && !isNs {
				p = in.cfg.PropIO // the handle's own call (e.g. a failed Seek) left it unusable
			}
			add(p, "state handle-unusable", fmt.Sprintf("handle %d: %v", i+1, err))
			continue
		}
		if off != hs[i].F("off").I {
			p := in.cfg.PropIO
			if call != nil && int(call.F("h").I) != i+1 && !isNs {
				p = in.cfg.PropClosed // another handle's call moved this one
			}
			add(p, "state offset", fmt.Sprintf("handle %d at %d want %d", i+1, off, hs[i].F("off").I))
		}
	}
	return divs
}
