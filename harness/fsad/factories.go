package fsad

import (
	"context"
	"io"
	gofs "io/fs"
	"os"
	"path/filepath"
	"sort"
	"strings"
	"sync"
	"syscall"
	"time"

	"github.com/hack-pad/hackpadfs"
	"github.com/hack-pad/hackpadfs/keyvalue"
	"github.com/hack-pad/hackpadfs/keyvalue/blob"
	"github.com/hack-pad/hackpadfs/mem"
)

func init() { syscall.Umask(0) }

// MemFS is the in-memory file system of the library.
func MemFS() (hackpadfs.FS, func(), error) {
	fs, err := mem.NewFS()
	return fs, func() {}, err
}

// ---- plain store: keyvalue.FS takes the serial (non-transactional) path ----

type plainRecord struct {
	store *PlainStore
	path  string
	data  blob.Blob
	mode  hackpadfs.FileMode
	mtime time.Time
}

func (r plainRecord) Data() (blob.Blob, error) {
	if r.mode.IsDir() {
		return nil, hackpadfs.ErrIsDir
	}
	return r.data, nil
}
func (r plainRecord) Size() int64 {
	if r.data == nil {
		return 0
	}
	return int64(r.data.Len())
}
func (r plainRecord) Mode() hackpadfs.FileMode { return r.mode }
func (r plainRecord) ModTime() time.Time       { return r.mtime }
func (r plainRecord) Sys() interface{}         { return nil }
func (r plainRecord) ReadDirNames() ([]string, error) {
	if !r.mode.IsDir() {
		return nil, hackpadfs.ErrNotDir
	}
	return r.store.children(r.path), nil
}

// PlainStore is a keyvalue.Store with only Get and Set.
type PlainStore struct {
	mu   sync.Mutex
	recs map[string]plainRecord
}

func NewPlainStore() *PlainStore { return &PlainStore{recs: map[string]plainRecord{}} }

func (s *PlainStore) children(dir string) []string {
	s.mu.Lock()
	defer s.mu.Unlock()
	prefix := dir + "/"
	if dir == "." {
		prefix = ""
	}
	var names []string
	for p := range s.recs {
		if p == "." || !strings.HasPrefix(p, prefix) {
			continue
		}
		rest := p[len(prefix):]
		if rest != "" && !strings.Contains(rest, "/") {
			names = append(names, rest)
		}
	}
	sort.Strings(names)
	return names
}

func (s *PlainStore) Get(ctx context.Context, path string) (keyvalue.FileRecord, error) {
	s.mu.Lock()
	defer s.mu.Unlock()
	r, ok := s.recs[path]
	if !ok {
		return nil, hackpadfs.ErrNotExist
	}
	return r, nil
}

func (s *PlainStore) Set(ctx context.Context, path string, src keyvalue.FileRecord) error {
	if src == nil {
		s.mu.Lock()
		delete(s.recs, path)
		s.mu.Unlock()
		return nil
	}
	rec := plainRecord{store: s, path: path, mode: src.Mode(), mtime: src.ModTime()}
	if !src.Mode().IsDir() {
		d, err := src.Data()
		if err != nil {
			return err
		}
		rec.data = d
	}
	s.mu.Lock()
	s.recs[path] = rec
	s.mu.Unlock()
	return nil
}

// Keys lists what the store holds (for C14's "a fresh look-up shows what the store holds").
func (s *PlainStore) Keys() []string {
	s.mu.Lock()
	defer s.mu.Unlock()
	var out []string
	for p := range s.recs {
		out = append(out, p)
	}
	sort.Strings(out)
	return out
}

// KVPlainFS is keyvalue.FS over the plain store.
func KVPlainFS() (hackpadfs.FS, func(), error) {
	fs, err := keyvalue.NewFS(NewPlainStore())
	return fs, func() {}, err
}

// ---- reference leg: the Go os package in a fresh directory ----

// OSRef exposes the os package under a root directory through the hackpadfs interfaces,
// with no hackpadfs code in between (it is the ground truth C01/C02/C05 name).
type OSRef struct{ Root string }

func (o *OSRef) p(name string) string {
	if name == "." {
		return o.Root
	}
	return o.Root + "/" + name
}

func (o *OSRef) rel(p string) string {
	if p == o.Root {
		return "."
	}
	return strings.TrimPrefix(p, o.Root+"/")
}

func (o *OSRef) fix(err error) error {
	switch e := err.(type) {
	case *gofs.PathError:
		return &gofs.PathError{Op: e.Op, Path: o.rel(e.Path), Err: e.Err}
	case *os.LinkError:
		return &hackpadfs.LinkError{Op: e.Op, Old: o.rel(e.Old), New: o.rel(e.New), Err: e.Err}
	}
	return err
}

type osRefFile struct {
	*os.File
	o *OSRef
}

func (f osRefFile) ReadDir(n int) ([]gofs.DirEntry, error) { return f.File.ReadDir(n) }

func (o *OSRef) Open(name string) (gofs.File, error) {
	f, err := os.Open(o.p(name))
	if err != nil {
		return nil, o.fix(err)
	}
	return f, nil
}
func (o *OSRef) OpenFile(name string, flag int, perm gofs.FileMode) (gofs.File, error) {
	f, err := os.OpenFile(o.p(name), flag, perm)
	if err != nil {
		return nil, o.fix(err)
	}
	return f, nil
}
func (o *OSRef) Mkdir(name string, perm gofs.FileMode) error { return o.fix(os.Mkdir(o.p(name), perm)) }
func (o *OSRef) MkdirAll(name string, perm gofs.FileMode) error {
	return o.fix(os.MkdirAll(o.p(name), perm))
}
func (o *OSRef) Remove(name string) error    { return o.fix(os.Remove(o.p(name))) }
func (o *OSRef) RemoveAll(name string) error { return o.fix(os.RemoveAll(o.p(name))) }
func (o *OSRef) Rename(a, b string) error    { return o.fix(os.Rename(o.p(a), o.p(b))) }
func (o *OSRef) Stat(name string) (gofs.FileInfo, error) {
	i, err := os.Stat(o.p(name))
	return i, o.fix(err)
}
func (o *OSRef) Chmod(name string, m gofs.FileMode) error { return o.fix(os.Chmod(o.p(name), m)) }
func (o *OSRef) Chtimes(name string, a, m time.Time) error {
	return o.fix(os.Chtimes(o.p(name), a, m))
}
func (o *OSRef) ReadDir(name string) ([]gofs.DirEntry, error) {
	d, err := os.ReadDir(o.p(name))
	return d, o.fix(err)
}
func (o *OSRef) ReadFile(name string) ([]byte, error) {
	b, err := os.ReadFile(o.p(name))
	return b, o.fix(err)
}
func (o *OSRef) WriteFile(name string, data []byte, perm gofs.FileMode) error {
	return o.fix(os.WriteFile(o.p(name), data, perm))
}

var _ io.Closer = (*os.File)(nil)

func tmpBase() string {
	if st, err := os.Stat("/dev/shm"); err == nil && st.IsDir() {
		return "/dev/shm"
	}
	return os.TempDir()
}

// OSRefFS returns the reference in a fresh directory (removed by the cleanup).
func OSRefFS() (hackpadfs.FS, func(), error) {
	dir, err := os.MkdirTemp(tmpBase(), "verif-osref-")
	if err != nil {
		return nil, nil, err
	}
	root := filepath.Join(dir, "root")
	if err := os.Mkdir(root, 0777); err != nil {
		return nil, nil, err
	}
	return &OSRef{Root: root}, func() { _ = os.RemoveAll(dir) }, nil
}
