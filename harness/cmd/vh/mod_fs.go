package main

import (
	"fmt"
	"strings"

	"github.com/hack-pad/hackpadfs"
	"verif/harness/engine"
	"verif/harness/fsad"
)

// mkfs returns the constructor of a plain file system kind.
func mkfs(kind string) func() (hackpadfs.FS, func(), error) {
	if strings.HasPrefix(kind, "dev=") {
		return devFS(kind)
	}
	switch kind {
	case "mem":
		return fsad.MemFS
	case "kvplain":
		return fsad.KVPlainFS
	case "osref":
		return fsad.OSRefFS
	case "oshp":
		return fsad.OSHackpadFS
	}
	fatal("unknown fs kind", kind)
	return nil
}

func init() {
	commands["mask-kinds"] = func([]string) {
		for _, k := range fsad.MaskKinds {
			fmt.Println(k)
		}
	}
	// FSCore.tla: namespace operations
	modules["fscore"] = func(kind string, o *Opts) engine.Adapter {
		if strings.HasPrefix(kind, "sub=") {
			// sub=<dir>=<base> or nested sub=<dir>=sub=<dir>=<base>: twin run of a Sub view against its parent (C07)
			parts := strings.Split(kind, "=")
			sc := fsad.SubConfig{PropSub: o.attr("sub", "C07")}
			i := 0
			for i+1 < len(parts) && parts[i] == "sub" {
				sc.Dirs = append(sc.Dirs, parts[i+1])
				i += 2
			}
			sc.Base = parts[i]
			sc.Config = fsad.Config{AdapterName: kind, PropState: o.attr("state", "-"), PropErr: o.attr("err", "C05"), PropWF: o.attr("wf", "-"),
				PropList: o.attr("list", "C16"), Names: o.Names, Depth: o.Depth}
			return &fsad.SubAdapter{Cfg: sc}
		}
		if strings.HasPrefix(kind, "kvfault=") {
			// kvfault=plain|txn: keyvalue.FS over a store in which every store call is failed once (C14)
			kc := fsad.KVFaultConfig{PropFault: o.attr("fault", "C14"), Store: strings.TrimPrefix(kind, "kvfault=")}
			kc.Config = fsad.Config{AdapterName: kind, PropState: o.attr("state", "-"), PropErr: o.attr("err", "-"), PropErrPath: "-",
				PropWF: o.attr("wf", "C03"), PropList: o.attr("list", "-"), Names: o.Names, Depth: o.Depth}
			return &fsad.KVFaultAdapter{Cfg: kc}
		}
		if strings.HasPrefix(kind, "mask=") || strings.HasPrefix(kind, "fault=") {
			// mask=<group:members>=<base>: package helpers on a capability-masked FS (C08); fault= adds fault enumeration
			parts := strings.Split(kind, "=")
			mc := fsad.MaskConfig{PropHelper: o.attr("helper", "C08"), Kind: parts[1], Base: parts[2], Faults: parts[0] == "fault"}
			mc.Config = fsad.Config{AdapterName: kind, PropState: o.attr("state", "C08"), PropErr: o.attr("err", "C08"), PropErrPath: o.attr("errpath", "C05"),
				PropWF: o.attr("wf", "-"), PropList: o.attr("list", "C16"), Names: o.Names, Depth: o.Depth}
			return &fsad.MaskAdapter{Cfg: mc}
		}
		cfg := fsad.Config{AdapterName: kind, PropState: o.attr("state", "C01"), PropErr: o.attr("err", "C05"), PropWF: o.attr("wf", "C03"),
			PropList: o.attr("list", "C16"), Names: o.Names, Depth: o.Depth, MkFS: mkfs(kind), CheckRootName: kind != "osref"}
		if kind == "osref" {
			cfg.Reference = true
			cfg.PropState, cfg.PropErr, cfg.PropWF, cfg.PropList = "SPEC", "SPEC", "SPEC", "SPEC"
		}
		return &fsad.Adapter{Cfg: cfg}
	}
	// Mount.tla: mount.FS over several mem.FS
	modules["mount"] = func(kind string, o *Opts) engine.Adapter {
		// mountmem: mount.FS over mem.FS instances; mountfault: the same, and every Rename re-run with each primitive call failing
		cfg := fsad.MConfig{PropRoute: o.attr("route", "C06"), Seed: o.Seed, Repeat: 8, Faults: kind == "mountfault", PropFault: o.attr("fault", "INFO")}
		cfg.Config = fsad.Config{AdapterName: kind, PropState: o.attr("state", "C06"), PropErr: o.attr("err", "C05"), PropWF: o.attr("wf", "C03"),
			PropList: o.attr("list", "C16"), Names: o.Names, Depth: o.Depth}
		return &fsad.MAdapter{Cfg: cfg}
	}
	// Handles.tla: handles on one regular file
	modules["handles"] = func(kind string, o *Opts) engine.Adapter {
		if strings.HasPrefix(kind, "kvfault=") {
			return &fsad.HKVFaultAdapter{Cfg: fsad.HConfig{AdapterName: kind, PropIO: o.attr("io", "-"), PropClosed: o.attr("closed", "-")},
				Store: strings.TrimPrefix(kind, "kvfault="), Prop: o.attr("fault", "C14")}
		}
		cfg := fsad.HConfig{AdapterName: kind, PropIO: o.attr("io", "C02"), PropClosed: o.attr("closed", "C17"), MkFS: mkfs(kind)}
		if kind == "osref" {
			cfg.Reference = true
			cfg.PropIO, cfg.PropClosed = "SPEC", "SPEC"
		}
		return &fsad.HAdapter{Cfg: cfg}
	}
	// DirH.tla: directory handles and by-name listings
	modules["dirh"] = func(kind string, o *Opts) engine.Adapter {
		cfg := fsad.DConfig{AdapterName: kind, PropList: o.attr("list", "C16"), PropClosed: o.attr("closed", "C17"), PropIO: o.attr("io", "C02")}
		full := kind
		kind, cfg.Dir = fsad.DirOfKind(kind) // "<kind>.dot": the listed directory is called ".d"
		switch kind {
		case "oshp", "mntat", "mntbelow", "sub", "cache", "tar":
			cfg.MkDirFS = fsad.ComposedDir(full)
			if kind == "mntbelow" {
				cfg.MountChild = fsad.ChildName(2)
			}
		default:
			cfg.MkDirFS = fsad.WritableAt(mkfs(kind), cfg.Dir)
		}
		if kind == "osref" {
			cfg.Reference = true
			cfg.PropList, cfg.PropClosed, cfg.PropIO = "SPEC", "SPEC", "SPEC"
		}
		return &fsad.DAdapter{Cfg: cfg}
	}
}
