package main

import (
	"bufio"
	"flag"
	"os"
	"strings"

	"verif/harness/engine"
	"verif/harness/txnad"
)

func init() {
	// Txn.tla: one transaction at a time on txn:mem / txn:serial (C18)
	modules["txn"] = func(kind string, o *Opts) engine.Adapter {
		return &txnad.Adapter{Cfg: txnad.Config{AdapterName: kind, Prop: o.attr("txn", "C18")}}
	}
	// canary child: executes call histories that may end in a Go runtime fatal error
	commands["txn-child"] = func(args []string) { txnad.ChildMain() }
	// vh txn-run --adapter txn:mem : raw call records, one per line on stdin, executed in this process
	commands["txn-run"] = func(args []string) {
		fl := flag.NewFlagSet("txn-run", flag.ExitOnError)
		adapter := fl.String("adapter", "txn:mem", "txn:mem | txn:serial")
		_ = fl.Parse(args)
		var hist []string
		sc := bufio.NewScanner(os.Stdin)
		for sc.Scan() {
			if l := strings.TrimSpace(sc.Text()); l != "" {
				hist = append(hist, l)
			}
		}
		txnad.RunHistory(*adapter, hist, os.Stdout)
	}
}

func init() {
	// TxnIso.tla: concurrent transactions of the in-memory store, one step at a time (C18, isolation)
	modules["txniso"] = func(kind string, o *Opts) engine.Adapter {
		return &txnad.IsoAdapter{Cfg: txnad.Config{AdapterName: kind, Prop: o.attr("txn", "C18")}}
	}
}
