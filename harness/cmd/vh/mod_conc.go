package main

import (
	"encoding/json"
	"flag"
	"fmt"
	"math/rand"
	"os"
	"path/filepath"
	"strings"
	"sync"

	"verif/harness/conc"
)

// programs returns the concurrent programs of a tier.
func concPrograms(tier string, seed int64) []conc.Program {
	d1, d2 := []byte{7}, []byte{8, 9}
	opsFor := map[string][]conc.Op{
		"empty": {
			{Name: "mkdir", P: "a"}, {Name: "mkdirall", P: "a/c"}, {Name: "create", P: "a"}, {Name: "createexcl", P: "a"},
			{Name: "writefile", P: "a", Data: d1}, {Name: "writefile", P: "a", Data: d2}, {Name: "remove", P: "a"}, {Name: "stat", P: "a"},
			{Name: "readdir", P: "."}, {Name: "mkdir", P: "b"}, {Name: "rename", P: "a", Q: "b"},
		},
		"dir-a": {
			{Name: "mkdir", P: "a/c"}, {Name: "remove", P: "a"}, {Name: "removeall", P: "a"}, {Name: "rename", P: "a", Q: "b"},
			{Name: "writefile", P: "a/c", Data: d1}, {Name: "create", P: "a/c"}, {Name: "createexcl", P: "a/c"}, {Name: "mkdirall", P: "a/c/b"},
			{Name: "readdir", P: "a"}, {Name: "stat", P: "a/c"}, {Name: "mkdir", P: "b"}, {Name: "chmod", P: "a"},
		},
		"dir-a-file-a/c": {
			{Name: "remove", P: "a/c"}, {Name: "removeall", P: "a"}, {Name: "rename", P: "a/c", Q: "b"}, {Name: "rename", P: "a", Q: "b"},
			{Name: "writefile", P: "a/c", Data: d2}, {Name: "append", P: "a/c", Data: d1}, {Name: "append", P: "a/c", Data: d2},
			{Name: "readfile", P: "a/c"}, {Name: "stat", P: "a/c"}, {Name: "readdir", P: "a"}, {Name: "writefile", P: "b", Data: d1}, {Name: "remove", P: "a"},
			{Name: "rename", P: "a/c", Q: "a/b"},
		},
		"file-b": {
			{Name: "append", P: "b", Data: d1}, {Name: "append", P: "b", Data: d2}, {Name: "writefile", P: "b", Data: d1}, {Name: "remove", P: "b"},
			{Name: "rename", P: "b", Q: "a"}, {Name: "readfile", P: "b"}, {Name: "stat", P: "b"}, {Name: "mkdir", P: "a"}, {Name: "createexcl", P: "b"},
			{Name: "create", P: "a"}, {Name: "readdir", P: "."},
		},
	}
	var out []conc.Program
	for _, start := range []string{"empty", "dir-a", "dir-a-file-a/c", "file-b"} {
		ops := opsFor[start]
		for i := range ops {
			for j := i; j < len(ops); j++ {
				out = append(out, conc.Program{Start: start, Threads: [][]conc.Op{{ops[i]}, {ops[j]}}})
			}
		}
	}
	// a handle opened by one goroutine while the other replaces the file under the same name (remove + create, or a
	// rename onto it): the handle's later write must not bring the old file back
	out = append(out,
		conc.Program{Tag: "handle-vs-replace", Start: "file-b", Threads: [][]conc.Op{{{Name: "append", P: "b", Data: d1}}, {{Name: "remove", P: "b"}, {Name: "writefile", P: "b", Data: d2}}}},
		conc.Program{Tag: "handle-vs-replace", Start: "file-b", Threads: [][]conc.Op{{{Name: "append", P: "b", Data: d1}}, {{Name: "writefile", P: "a", Data: d2}, {Name: "rename", P: "a", Q: "b"}}}},
		conc.Program{Tag: "handle-vs-replace", Start: "dir-a-file-a/c", Threads: [][]conc.Op{{{Name: "append", P: "a/c", Data: d1}}, {{Name: "remove", P: "a/c"}, {Name: "writefile", P: "a/c", Data: d2}}}},
		// a handle that creates the name while the other goroutine renames a file onto it (the look-up of the new name and the
		// transaction that moves the file are separate): the creating handle's write must not replace the renamed file
		conc.Program{Tag: "handle-vs-replace", Start: "file-b", Threads: [][]conc.Op{{{Name: "createappend", P: "a", Data: d1}}, {{Name: "rename", P: "b", Q: "a"}}}},
	)
	if tier == "thorough" {
		rnd := rand.New(rand.NewSource(seed))
		for _, start := range []string{"empty", "dir-a", "dir-a-file-a/c", "file-b"} {
			ops := opsFor[start]
			pick := func() conc.Op { return ops[rnd.Intn(len(ops))] }
			for k := 0; k < 60; k++ { // three goroutines, one operation each
				out = append(out, conc.Program{Start: start, Threads: [][]conc.Op{{pick()}, {pick()}, {pick()}}})
			}
			for k := 0; k < 60; k++ { // two goroutines, two operations each
				out = append(out, conc.Program{Start: start, Threads: [][]conc.Op{{pick(), pick()}, {pick(), pick()}}})
			}
		}
	}
	return out
}

func init() {
	// conc-explore: enumerate the schedules of the tier's programs on the real code, write LinData.tla + meta.json
	commands["conc-explore"] = func(args []string) {
		fl := flag.NewFlagSet("conc-explore", flag.ExitOnError)
		tier := fl.String("tier", "quick", "")
		seed := fl.Int64("seed", 1, "")
		outDir := fl.String("out", ".", "directory for LinData.tla and conc-meta.json")
		maxPer := fl.Int("max-schedules", 400, "schedules per program")
		blobs := fl.Bool("gate-blobs", false, "blob operations are scheduling points too")
		txnops := fl.Bool("gate-txn-ops", false, "every Get/Set inside a store transaction is a scheduling point too")
		txnend := fl.Bool("gate-txn-end", false, "the return of every Commit is a scheduling point too")
		tagged := fl.Bool("tagged", false, "only the hand-picked (tagged) programs")
		par := fl.Int("par", 4, "programs explored in parallel")
		only := fl.String("only", "", "keep programs containing one of these operation kinds (comma separated)")
		_ = fl.Parse(args)
		progs := concPrograms(*tier, *seed)
		if *only != "" {
			var keep []conc.Program
			for _, p := range progs {
				has := false
				for _, t := range p.Threads {
					for _, op := range t {
						for _, k := range strings.Split(*only, ",") {
							if op.Name == k {
								has = true
							}
						}
					}
				}
				if has {
					keep = append(keep, p)
				}
			}
			progs = keep
		}
		if *tagged {
			var keep []conc.Program
			for _, p := range progs {
				if p.Tag != "" {
					keep = append(keep, p)
				}
			}
			progs = keep
		}
		opts := conc.Opts{GateBlobs: *blobs, GateTxnOps: *txnops, GateTxnEnd: *txnend}
		var outs []conc.Outcome
		truncated := 0
		// programs are explored in parallel (each execution has its own store); results keep program order
		perProg := make([][]conc.Outcome, len(progs))
		trunc := make([]bool, len(progs))
		var wg sync.WaitGroup
		sem := make(chan struct{}, *par)
		for i, p := range progs {
			wg.Add(1)
			sem <- struct{}{}
			go func(i int, p conc.Program) {
				defer wg.Done()
				defer func() { <-sem }()
				_, trunc[i] = conc.Explore(p, opts, *maxPer, func(o conc.Outcome) { perProg[i] = append(perProg[i], o) })
			}(i, p)
		}
		wg.Wait()
		for i := range progs {
			outs = append(outs, perProg[i]...)
			if trunc[i] {
				truncated++
			}
		}
		var b strings.Builder
		b.WriteString("------------------------------ MODULE LinData ------------------------------\n")
		b.WriteString("\\* generated by vh conc-explore: one record per distinct history\nEXTENDS Integers, TLC\nHistories == <<\n")
		n := 0
		idx := []int{}             // history number -> index of a representative outcome
		byText := map[string]int{} // distinct histories (results + real-time precedence + trees)
		histOf := make([]int, len(outs))
		for i, o := range outs {
			if o.Hang {
				continue
			}
			var ops []string
			for _, r := range o.Results {
				ops = append(ops, fmt.Sprintf("[c |-> %s, e |-> %q, o |-> %s]", conc.CallTLA(r.Op), r.Kind, r.Out))
			}
			var prec []string
			for j, rj := range o.Results {
				for k, rk := range o.Results {
					if j != k && rj.Ret < rk.Call {
						prec = append(prec, fmt.Sprintf("<<%d, %d>>", j+1, k+1))
					}
				}
			}
			text := fmt.Sprintf("  [init |-> %s, ops |-> <<%s>>, prec |-> {%s}, final |-> %s]", o.Init, strings.Join(ops, ", "), strings.Join(prec, ", "), o.Final)
			if hn, ok := byText[text]; ok {
				histOf[i] = hn
				continue
			}
			if n > 0 {
				b.WriteString(",\n")
			}
			n++
			byText[text] = n
			histOf[i] = n
			idx = append(idx, i)
			b.WriteString(text)
		}
		b.WriteString("\n>>\n=============================================================================\n")
		if err := os.WriteFile(filepath.Join(*outDir, "LinData.tla"), []byte(b.String()), 0644); err != nil {
			fatal(err)
		}
		// keep only what a replay needs
		type lite struct {
			Final    string       `json:"final"`
			Program  conc.Program `json:"program"`
			Schedule []int        `json:"schedule"`
			Steps    []string     `json:"steps"`
			Results  []string     `json:"results"`
			Hang     bool         `json:"hang"`
			History  int          `json:"history"`
		}
		var lites []lite
		for i, o := range outs {
			var rs []string
			for _, r := range o.Results {
				rs = append(rs, fmt.Sprintf("t%d %s => %s %s", r.Thread, r.Op, r.Kind, r.Out))
			}
			keep := o.Hang
			for _, j := range idx {
				if j == i {
					keep = true
				}
			}
			if keep {
				lites = append(lites, lite{o.Final, o.Program, o.Schedule, o.Steps, rs, o.Hang, histOf[i]})
			}
		}
		meta := map[string]any{"programs": len(progs), "schedules": len(outs), "truncated_programs": truncated, "histories": n, "gate_blobs": *blobs, "gate_txn_ops": *txnops, "outcomes": lites}
		mb, _ := json.Marshal(meta)
		if err := os.WriteFile(filepath.Join(*outDir, "conc-meta.json"), mb, 0644); err != nil {
			fatal(err)
		}
		fmt.Printf("programs=%d schedules=%d histories=%d truncated=%d\n", len(progs), len(outs), n, truncated)
	}
	// conc-stress: free-running goroutines on one mem.FS (built with -race by the driver)
	commands["conc-stress"] = func(args []string) {
		fl := flag.NewFlagSet("conc-stress", flag.ExitOnError)
		seconds := fl.Int("seconds", 5, "")
		seed := fl.Int64("seed", 1, "")
		_ = fl.Parse(args)
		runs, panics, hangs, msgs := conc.Stress(concPrograms("thorough", *seed), *seconds, *seed)
		for _, m := range msgs {
			fmt.Println("STRESS:", m)
		}
		fmt.Printf("runs=%d panics=%d hangs=%d\n", runs, panics, hangs)
		if panics+hangs > 0 {
			os.Exit(1)
		}
	}
	// conc-replay: run one program under one schedule again and print the outcome
	commands["conc-replay"] = func(args []string) {
		fl := flag.NewFlagSet("conc-replay", flag.ExitOnError)
		file := fl.String("file", "", "replay file")
		_ = fl.Parse(args)
		b, err := os.ReadFile(*file)
		if err != nil {
			fatal(err)
		}
		var outer struct {
			Conc struct {
				Program  conc.Program `json:"program"`
				Schedule []int        `json:"schedule"`
				Blobs    bool         `json:"gate_blobs"`
				TxnOps   bool         `json:"gate_txn_ops"`
				TxnEnd   bool         `json:"gate_txn_end"`
			} `json:"conc"`
		}
		if err := json.Unmarshal(b, &outer); err != nil {
			fatal(err)
		}
		rf := outer.Conc
		o, _ := conc.Run(rf.Program, rf.Schedule, conc.Opts{GateBlobs: rf.Blobs, GateTxnOps: rf.TxnOps, GateTxnEnd: rf.TxnEnd})
		ob, _ := json.MarshalIndent(o, "", " ")
		fmt.Println(string(ob))
	}
}
