package main

import (
	"strconv"

	"github.com/hack-pad/hackpadfs/keyvalue/blob"
	"verif/harness/blobad"
	"verif/harness/engine"
)

func init() {
	// Blob.tla: blobs as byte sequences (C19). Adapter kinds:
	//   bytes  - blob.Bytes created with blob.NewBytes, driven through the package-level helpers
	//   idb    - idbblob.Blob over a Uint8Array: js/wasm only, see blobad/idb_js_test.go and lib/checks_blob.py
	// (--opt hang-budget=N overrides the number of hangs tolerated per call shape)
	modules["blob"] = func(kind string, o *Opts) engine.Adapter {
		cfg := blobad.Config{AdapterName: kind, Prop: o.attr("blob", "C19")}
		switch kind {
		case "bytes":
			cfg.MkRoot = func(data []byte) blob.Blob { return blob.NewBytes(data) }
		case "idb", "idbread":
			fatal("the idb adapters (indexeddb/idbblob) exist only under js/wasm; replay with: cd harness && VERIF_BLOB_ADAPTER=" + kind + " VERIF_BLOB_REPLAY=<file> GOOS=js GOARCH=wasm go test -exec $(go env GOROOT)/misc/wasm/go_js_wasm_exec -run TestReplayFile -v ./blobad")
		default:
			fatal("unknown blob kind", kind)
		}
		if len(o.Extra) > len("hang-budget=") && o.Extra[:len("hang-budget=")] == "hang-budget=" {
			n, err := strconv.ParseInt(o.Extra[len("hang-budget="):], 10, 64)
			if err != nil {
				fatal("bad --opt", o.Extra)
			}
			cfg.HangBudget = n
		}
		return blobad.NewAdapter(cfg)
	}
}
