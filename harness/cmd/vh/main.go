// Command vh is the conformance harness: it replays what TLC prints into the real code.
package main

import (
	"encoding/json"
	"flag"
	"fmt"
	"os"
	"strings"

	"github.com/hack-pad/hackpadfs"
	"verif/harness/engine"
	"verif/harness/fsad"
)

// attr maps divergence classes to property ids, e.g. "state:C01,err:C05,wf:C03,list:C16"
var attr = map[string]string{"state": "C01", "err": "C05", "wf": "C03", "list": "C16"}

func parseAttr(s string) {
	for _, kv := range strings.Split(s, ",") {
		if i := strings.IndexByte(kv, ':'); i > 0 {
			attr[kv[:i]] = kv[i+1:]
		}
	}
}

func fsAdapter(kind string, names []string, depth int) engine.Adapter {
	cfg := fsad.Config{AdapterName: kind, PropState: attr["state"], PropErr: attr["err"], PropWF: attr["wf"], PropList: attr["list"], Names: names, Depth: depth}
	switch kind {
	case "mem":
		cfg.MkFS = fsad.MemFS
	case "kvplain":
		cfg.MkFS = fsad.KVPlainFS
	case "osref":
		cfg.MkFS = fsad.OSRefFS
		cfg.Reference = true
		cfg.PropState, cfg.PropErr, cfg.PropWF, cfg.PropList = "SPEC", "SPEC", "SPEC", "SPEC"
	default:
		fmt.Fprintln(os.Stderr, "unknown adapter", kind)
		os.Exit(2)
	}
	return &fsad.Adapter{Cfg: cfg}
}

type replayFile struct {
	Property string   `json:"property"`
	Sig      string   `json:"sig"`
	Module   string   `json:"module"`
	Adapter  string   `json:"adapter"`
	VhArgs   []string `json:"vh_args"`
	Init     string   `json:"init"`
	State    string   `json:"state"`
	History  []string `json:"history"`
	Call     string   `json:"call"`
	Expected string   `json:"expected"`
}

func mkfs(kind string) func() (hackpadfs.FS, func(), error) {
	switch kind {
	case "mem":
		return fsad.MemFS
	case "kvplain":
		return fsad.KVPlainFS
	case "osref":
		return fsad.OSRefFS
	}
	fmt.Fprintln(os.Stderr, "unknown fs kind", kind)
	os.Exit(2)
	return nil
}

func handlesAdapter(kind string) engine.Adapter {
	cfg := fsad.HConfig{AdapterName: kind, PropIO: "C02", PropClosed: "C17", MkFS: mkfs(kind)}
	if kind == "osref" {
		cfg.Reference = true
		cfg.PropIO, cfg.PropClosed = "SPEC", "SPEC"
	}
	return &fsad.HAdapter{Cfg: cfg}
}

func dirhAdapter(kind string) engine.Adapter {
	cfg := fsad.DConfig{AdapterName: kind, PropList: "C16", PropClosed: "C17", PropIO: "C02"}
	switch kind {
	case "mem", "kvplain", "osref":
		cfg.MkDirFS = fsad.Writable(mkfs(kind))
	default:
		fmt.Fprintln(os.Stderr, "unknown dirh adapter", kind)
		os.Exit(2)
	}
	if kind == "osref" {
		cfg.Reference = true
		cfg.PropList, cfg.PropClosed, cfg.PropIO = "SPEC", "SPEC", "SPEC"
	}
	return &fsad.DAdapter{Cfg: cfg}
}

func adaptersFor(module, adapter, names string, depth int) []engine.Adapter {
	var ads []engine.Adapter
	for _, a := range strings.Split(adapter, ",") {
		switch module {
		case "fscore":
			ads = append(ads, fsAdapter(a, strings.Split(names, ","), depth))
		case "handles":
			ads = append(ads, handlesAdapter(a))
		case "dirh":
			ads = append(ads, dirhAdapter(a))
		default:
			fmt.Fprintln(os.Stderr, "unknown module", module)
			os.Exit(2)
		}
	}
	return ads
}

func main() {
	if len(os.Args) < 2 {
		fmt.Fprintln(os.Stderr, "usage: vh replay-graph ...")
		os.Exit(2)
	}
	switch os.Args[1] {
	case "replay-graph":
		fl := flag.NewFlagSet("replay-graph", flag.ExitOnError)
		module := fl.String("module", "fscore", "specification module the stream comes from")
		adapter := fl.String("adapter", "mem", "real-code adapter")
		names := fl.String("names", "a,b", "element names of the model")
		depth := fl.Int("depth", 3, "closure depth of the projection")
		workers := fl.Int("workers", 16, "replay workers")
		sample := fl.Float64("sample", 1, "fraction of states whose transitions are replayed")
		seed := fl.Int64("seed", 1, "seed")
		maxStates := fl.Int64("max-states", 0, "stop after N states")
		out := fl.String("out", "", "write the JSON summary here (default stdout)")
		at := fl.String("attr", "", "attribution of divergence classes to properties")
		_ = fl.Parse(os.Args[2:])
		parseAttr(*at)
		ads := adaptersFor(*module, *adapter, *names, *depth)
		sum, err := engine.Run(os.Stdin, *module, ads, engine.Options{Workers: *workers, Sample: *sample, Seed: *seed, MaxStates: *maxStates, OutFile: *out})
		if err != nil {
			fmt.Fprintln(os.Stderr, err)
			os.Exit(2)
		}
		b, _ := json.MarshalIndent(sum, "", " ")
		if *out != "" {
			_ = os.WriteFile(*out, b, 0644)
		} else {
			fmt.Println(string(b))
		}
	case "replay-file":
		fl := flag.NewFlagSet("replay-file", flag.ExitOnError)
		file := fl.String("file", "", "replay file written by check")
		_ = fl.Parse(os.Args[2:])
		b, err := os.ReadFile(*file)
		if err != nil {
			fmt.Fprintln(os.Stderr, err)
			os.Exit(2)
		}
		var rf replayFile
		if err := json.Unmarshal(b, &rf); err != nil {
			fmt.Fprintln(os.Stderr, err)
			os.Exit(2)
		}
		fl2 := flag.NewFlagSet("args", flag.ContinueOnError)
		names := fl2.String("names", "a,b", "")
		depth := fl2.Int("depth", 3, "")
		at := fl2.String("attr", "", "")
		_ = fl2.Parse(rf.VhArgs)
		parseAttr(*at)
		ad := adaptersFor(rf.Module, rf.Adapter, *names, *depth)[0]
		obs, divs, err := engine.ReplayOne(ad, rf.Init, rf.State, rf.History, rf.Call, rf.Expected)
		if err != nil {
			fmt.Fprintln(os.Stderr, err)
			os.Exit(2)
		}
		fmt.Printf("history : %d calls\ncall    : %s\nexpected: %s\nobserved: %v\n", len(rf.History), rf.Call, rf.Expected, obs)
		hit := false
		for _, d := range divs {
			fmt.Printf("DIVERGENCE property=%s [%s] %s\n", d.Prop, d.Sig, d.Detail)
			if d.Prop == rf.Property && d.Sig == rf.Sig {
				hit = true
			}
		}
		if hit {
			fmt.Printf("REPRODUCED property=%s [%s]\n", rf.Property, rf.Sig)
			os.Exit(1)
		}
		fmt.Println("not reproduced")
	default:
		fmt.Fprintln(os.Stderr, "unknown command", os.Args[1])
		os.Exit(2)
	}
}
