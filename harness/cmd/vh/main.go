// Command vh is the conformance harness: it replays what TLC prints into the real code.
//
// Modules (one per TLA+ specification) register themselves in init() functions of mod_*.go:
//
//	modules["fscore"] = func(adapter string, o *Opts) engine.Adapter
//
// Extra sub-commands register in commands.
package main

import (
	"encoding/json"
	"flag"
	"fmt"
	"os"
	"strings"

	"verif/harness/engine"
)

// Opts are the module-independent options an adapter constructor may use.
type Opts struct {
	Names []string          // element names of the model
	Depth int               // closure depth of the projection
	Attr  map[string]string // divergence class -> property id
	Seed  int64
	Extra string // free-form module option (--opt)
}

func (o *Opts) attr(class, def string) string {
	if v, ok := o.Attr[class]; ok {
		return v
	}
	return def
}

var modules = map[string]func(adapter string, o *Opts) engine.Adapter{}
var commands = map[string]func(args []string){}

func fatal(a ...any) {
	fmt.Fprintln(os.Stderr, a...)
	os.Exit(2)
}

type replayFile struct {
	Property string   `json:"property"`
	Sig      string   `json:"sig"`
	Module   string   `json:"module"`
	Adapter  string   `json:"adapter"`
	VhArgs   []string `json:"vh_args"`
	Init     string   `json:"init"`
	State    string   `json:"state"`
	History  []string `json:"history"`
	Call     string   `json:"call"`
	Expected string   `json:"expected"`
}

type commonFlags struct {
	names, attr, extra *string
	depth, workers     *int
	seed               *int64
}

func addCommon(fl *flag.FlagSet) *commonFlags {
	return &commonFlags{
		names:   fl.String("names", "a,b", "element names of the model"),
		depth:   fl.Int("depth", 3, "closure depth of the projection"),
		attr:    fl.String("attr", "", "attribution of divergence classes to properties, e.g. state:C01,err:C05"),
		extra:   fl.String("opt", "", "module-specific option"),
		seed:    fl.Int64("seed", 1, "seed"),
		workers: fl.Int("workers", 16, "replay workers"),
	}
}

func (c *commonFlags) opts() *Opts {
	o := &Opts{Names: strings.Split(*c.names, ","), Depth: *c.depth, Attr: map[string]string{}, Seed: *c.seed, Extra: *c.extra}
	for _, kv := range strings.Split(*c.attr, ",") {
		if i := strings.IndexByte(kv, ':'); i > 0 {
			o.Attr[kv[:i]] = kv[i+1:]
		}
	}
	return o
}

func adaptersFor(module, adapter string, o *Opts) []engine.Adapter {
	mk, ok := modules[module]
	if !ok {
		fatal("unknown module", module)
	}
	var ads []engine.Adapter
	for _, a := range strings.Split(adapter, ",") {
		ads = append(ads, mk(a, o))
	}
	return ads
}

func main() {
	if len(os.Args) < 2 {
		fatal("usage: vh replay-graph|replay-file|... (see DESIGN.md)")
	}
	switch os.Args[1] {
	case "replay-graph":
		fl := flag.NewFlagSet("replay-graph", flag.ExitOnError)
		module := fl.String("module", "fscore", "specification module the stream comes from")
		adapter := fl.String("adapter", "mem", "real-code adapters, comma separated")
		sample := fl.Float64("sample", 1, "fraction of states whose transitions are replayed")
		maxStates := fl.Int64("max-states", 0, "stop after N states")
		out := fl.String("out", "", "write the JSON summary here (default stdout)")
		walks := fl.Int("walks", 0, "random walks over the model graph after the exhaustive replay")
		walkLen := fl.Int("walk-len", 200, "steps per random walk")
		avoid := fl.String("walk-avoid", "", "comma separated branch substrings the walks do not take")
		cf := addCommon(fl)
		_ = fl.Parse(os.Args[2:])
		o := cf.opts()
		ads := adaptersFor(*module, *adapter, o)
		sum, err := engine.Run(os.Stdin, *module, ads, engine.Options{Workers: *cf.workers, Sample: *sample, Seed: o.Seed, MaxStates: *maxStates, OutFile: *out, Walks: *walks, WalkLen: *walkLen, AvoidBranches: strings.Split(*avoid, ",")})
		if err != nil {
			fatal(err)
		}
		b, _ := json.MarshalIndent(sum, "", " ")
		if *out != "" {
			_ = os.WriteFile(*out, b, 0644)
		} else {
			fmt.Println(string(b))
		}
	case "replay-file":
		fl := flag.NewFlagSet("replay-file", flag.ExitOnError)
		file := fl.String("file", "", "replay file written by check")
		_ = fl.Parse(os.Args[2:])
		b, err := os.ReadFile(*file)
		if err != nil {
			fatal(err)
		}
		var rf replayFile
		if err := json.Unmarshal(b, &rf); err != nil {
			fatal(err)
		}
		fl2 := flag.NewFlagSet("args", flag.ContinueOnError)
		cf := addCommon(fl2)
		_ = fl2.Parse(rf.VhArgs)
		ad := adaptersFor(rf.Module, rf.Adapter, cf.opts())[0]
		obs, divs, err := engine.ReplayOne(ad, rf.Init, rf.State, rf.History, rf.Call, rf.Expected)
		if err != nil {
			fatal(err)
		}
		fmt.Printf("history : %d calls\ncall    : %s\nexpected: %s\nobserved: %v\n", len(rf.History), rf.Call, rf.Expected, obs)
		hit := false
		for _, d := range divs {
			fmt.Printf("DIVERGENCE property=%s [%s] %s\n", d.Prop, d.Sig, d.Detail)
			if (d.Prop == rf.Property && d.Sig == rf.Sig) || d.Sig+" (unbuilt-state)" == rf.Sig {
				hit = true
			}
		}
		if hit {
			fmt.Printf("REPRODUCED property=%s [%s]\n", rf.Property, rf.Sig)
			os.Exit(1)
		}
		fmt.Println("not reproduced")
	default:
		if c, ok := commands[os.Args[1]]; ok {
			c(os.Args[2:])
			return
		}
		fatal("unknown command", os.Args[1])
	}
}
