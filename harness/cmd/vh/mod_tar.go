package main

import (
	"encoding/json"
	"flag"
	"fmt"
	"os"
	"runtime/pprof"
	"time"

	"verif/harness/engine"
	"verif/harness/tarad"
)

func writeSummaries(out string, sums []*engine.Summary) {
	b, _ := json.MarshalIndent(sums, "", " ")
	if out != "" {
		_ = os.WriteFile(out, b, 0644)
	} else {
		os.Stdout.Write(append(b, '\n'))
	}
}

func init() {
	// Tar.tla SpecReq: one line per archive, call "unpack" (C12)
	modules["tarreq"] = func(kind string, o *Opts) engine.Adapter {
		if kind == "tar:poolgate" {
			return &tarad.PoolGateAdapter{Prop: o.attr("tar", "C12")}
		}
		if kind == "tar:memsched" {
			max := 400
			if o.Extra != "" {
				fmt.Sscan(o.Extra, &max)
			}
			return &tarad.MemSchedAdapter{Prop: o.attr("tar", "C12"), MaxSchedules: max}
		}
		return &tarad.ReqAdapter{Kind: kind, Prop: o.attr("tar", "C12"), Repeat: 3}
	}
	// Tar.tla SpecCut: stream cut / error / corrupt header / cancellation at every block boundary (C13)
	modules["tarcut"] = func(kind string, o *Opts) engine.Adapter {
		reps := 1
		if o.Extra != "" {
			fmt.Sscan(o.Extra, &reps)
		}
		return &tarad.CutAdapter{Prop: o.attr("tar", "C13"), Seed: o.Seed, Reps: reps}
	}
	// Tar.tla SpecGate: a stored history of gate-level transitions (replay files of tar-sched)
	modules["tarimpl"] = func(kind string, o *Opts) engine.Adapter {
		return &tarad.ImplAdapter{PropC12: o.attr("c12", "C12"), PropC13: o.attr("c13", "C13")}
	}
	// the real pubsub / bufferPool under seeded stress (replay files)
	modules["tarprims"] = func(kind string, o *Opts) engine.Adapter {
		return &tarad.PrimsAdapter{Prop: o.attr("tar", "C13")}
	}
	// vh tar-prims --n N: N seeded stress scenarios of the real pubsub and of the real bufferPool
	commands["tar-prims"] = func(args []string) {
		fl := flag.NewFlagSet("tar-prims", flag.ExitOnError)
		out := fl.String("out", "", "summary file")
		n := fl.Int("n", 300, "scenarios per primitive")
		cf := addCommon(fl)
		_ = fl.Parse(args)
		o := cf.opts()
		sum := tarad.RunPrims(&tarad.PrimsAdapter{Prop: o.attr("tar", "C13")}, o.Seed, *n)
		writeSummaries(*out, []*engine.Summary{sum})
	}
	// vh tar-sched: forces the gate-level graph of TarImpl (stdin: TLC's output) onto a gated tar.ReaderFS
	commands["tar-sched"] = func(args []string) {
		fl := flag.NewFlagSet("tar-sched", flag.ExitOnError)
		out := fl.String("out", "", "summary file")
		sample := fl.Float64("sample", 1, "fraction of states replayed")
		budget := fl.Duration("budget", 0, "stop handing out states after this long")
		raceReps := fl.Int("race-reps", 0, "repetitions of every transition with a race between internal steps")
		cf := addCommon(fl)
		_ = fl.Parse(args)
		o := cf.opts()
		ad := &tarad.ImplAdapter{PropC12: o.attr("c12", "C12"), PropC13: o.attr("c13", "C13"), StepTimeout: 3 * time.Second}
		if pf := os.Getenv("VERIF_TAR_PROF"); pf != "" {
			f, _ := os.Create(pf)
			_ = pprof.StartCPUProfile(f)
			defer pprof.StopCPUProfile()
		}
		sum, err := tarad.RunGraph(os.Stdin, ad, tarad.WalkOptions{Workers: *cf.workers, Sample: *sample, Seed: o.Seed, Budget: *budget, RaceReps: *raceReps})
		if err != nil {
			fatal(err)
		}
		writeSummaries(*out, []*engine.Summary{sum})
	}
}
