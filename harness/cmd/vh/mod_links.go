package main

import (
	"fmt"

	"verif/harness/engine"
	"verif/harness/fsad"
)

func init() {
	// Links.tla: symbolic links on hackpadfs os.FS through the package helpers (Stat, Lstat, LstatOrStat, Symlink ...),
	// directly, capability-masked, through the fallback Sub view and through mount.FS; reference: the os package
	modules["links"] = func(kind string, o *Opts) engine.Adapter {
		return &fsad.LinkAdapter{Cfg: fsad.LinkConfig{AdapterName: "links=" + kind, Kind: kind, PropHelper: o.attr("helper", "C08"), PropErr: o.attr("err", "C05")}}
	}
	// MountAdd.tla: concurrent AddMount forced through the hook points of mount.FS.addMount
	modules["mountadd"] = func(kind string, o *Opts) engine.Adapter {
		return &fsad.MountAddAdapter{AdapterName: "mountadd", Prop: o.attr("mount", "C06")}
	}
	commands["link-kinds"] = func([]string) {
		for _, k := range fsad.LinkKinds() {
			fmt.Println(k)
		}
	}
}
