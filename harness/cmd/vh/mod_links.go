package main

import (
	"fmt"

	"verif/harness/engine"
	"verif/harness/fsad"
)

func init() {
	// Links.tla: symbolic links on hackpadfs os.FS through the package helpers (Stat, Lstat, LstatOrStat, Symlink ...),
	// directly, capability-masked, through the fallback Sub view and through mount.FS; reference: the os package
	modules["links"] = func(kind string, o *Opts) engine.Adapter {
		return &fsad.LinkAdapter{Cfg: fsad.LinkConfig{AdapterName: "links=" + kind, Kind: kind, PropHelper: o.attr("helper", "C08"), PropErr: o.attr("err", "C05")}}
	}
	commands["link-kinds"] = func([]string) {
		for _, k := range fsad.LinkKinds() {
			fmt.Println(k)
		}
	}
}
