package main

import (
	"verif/harness/engine"
	"verif/harness/fsad"
)

func init() {
	// NameGate.tla: invalid names are refused everywhere and change nothing (C04)
	modules["namegate"] = func(kind string, o *Opts) engine.Adapter {
		cfg := fsad.Config{AdapterName: kind, PropState: o.attr("state", "C04"), PropErr: o.attr("err", "C04"), PropErrPath: o.attr("errpath", "C05"),
			PropWF: o.attr("wf", "C03"), PropList: o.attr("list", "C16"), Names: o.Names, Depth: o.Depth, RawNames: true}
		switch kind {
		case "mem", "kvplain":
			cfg.MkFS = mkfs(kind)
			cfg.CheckRootName = true
		case "nomkdirall":
			// mem.FS without MkdirAll / RemoveAll / WriteFile of its own: the package helpers take their fallback paths
			cfg.MkFS = fsad.MaskedMemFS("dir:Mkdir+Stat+Remove+ReadDir")
			cfg.CheckRootName = true
		case "oshp":
			cfg.MkFS = fsad.OSHackpadFS
			cfg.GateOnly = true
			cfg.PropWF = "-" // C03 is about the in-memory / key-value file systems and their compositions
		default:
			cfg.MkFSFrom = fsad.ComposeFrom(kind)
			cfg.GateOnly = true
			cfg.InvalidOnly = kind == "tarcut"
		}
		return &fsad.Adapter{Cfg: cfg}
	}
}
