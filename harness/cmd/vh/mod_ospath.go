package main

import (
	"verif/harness/engine"
	"verif/harness/ospad"
)

func init() {
	// OSPath.tla: name <-> OS path mapping of os.FS (pure functions) and the path fields of
	// errors coming back from real system calls
	modules["ospath"] = func(kind string, o *Opts) engine.Adapter {
		switch kind {
		case "ospath":
			return &ospad.Adapter{Prop: o.attr("map", "C09"), PropErr: o.attr("err", "C05")}
		case "oserr":
			return &ospad.OSAdapter{Prop: o.attr("map", "C09"), PropErr: o.attr("err", "C05")}
		case "oserr0":
			return &ospad.OSAdapter{Prop: o.attr("map", "C09"), PropErr: o.attr("err", "C05"), Unrooted: true}
		}
		fatal("unknown ospath adapter", kind)
		return nil
	}
}
