package main

import (
	"encoding/json"
	"flag"
	"fmt"
	"strings"

	"verif/harness/cachead"
	"verif/harness/engine"
)

func init() {
	// Cache.tla, Mode = "seq": cache.ReadOnlyFS against its source, call by call (C10).
	//   cache=<store>       store: mem (all interfaces of mem.FS) | min (Open+OpenFile+Mkdir only) | wb (min, commits on Close)
	//   cachefault=<store>  additionally a failure injected at every primitive call of every Open of an uncached file (C11)
	modules["cache"] = func(kind string, o *Opts) engine.Adapter {
		parts := strings.SplitN(kind, "=", 2)
		if len(parts) != 2 || (parts[0] != "cache" && parts[0] != "cachefault") {
			fatal("cache adapters: cache=<mem|min|wb> | cachefault=<mem|min|wb>; got", kind)
		}
		return &cachead.SeqAdapter{Cfg: cachead.SeqConfig{AdapterName: kind, Prop: o.attr("transparent", "C10"), PropFault: o.attr("fault", "C11"),
			StoreKind: parts[1], Faults: parts[0] == "cachefault"}}
	}
	// Cache.tla, Mode = "conc": goroutines opening one uncached name, released gate by gate (C11).
	//   conc=<store>
	modules["cacheconc"] = func(kind string, o *Opts) engine.Adapter {
		parts := strings.SplitN(kind, "=", 2)
		if len(parts) != 2 || parts[0] != "conc" {
			fatal("cacheconc adapters: conc=<mem|min|wb>; got", kind)
		}
		return &cachead.ConcAdapter{Cfg: cachead.ConcConfig{AdapterName: kind, Prop: o.attr("fill", "C11"), StoreKind: parts[1]}}
	}
	// vh cache-stress: free-running goroutines on one cache.ReadOnlyFS (build with -race); prints a JSON summary.
	commands["cache-stress"] = func(args []string) {
		fl := flag.NewFlagSet("cache-stress", flag.ExitOnError)
		seed := fl.Int64("seed", 1, "seed")
		rounds := fl.Int("rounds", 200, "rounds (fresh tree and cache each)")
		store := fl.String("store", "mem", "mem | min | wb")
		faults := fl.Bool("faults", false, "inject one failing primitive call in about half of the rounds")
		_ = fl.Parse(args)
		b, _ := json.Marshal(cachead.Stress(*seed, *rounds, *store, *faults))
		fmt.Println(string(b))
	}
}
