//go:build verif

package main

import (
	"bufio"
	"encoding/json"
	"flag"
	"fmt"
	"os"
	"strings"

	"verif/harness/conc"
	"verif/harness/tla"
)

// kvhandle: spec/KVHandle.tla (keyvalue.FS at store-transaction grain). TLC prints every complete behaviour of a
// two-goroutine program - schedule, scheduling-point labels, results, final contents -; each schedule is forced onto
// the real code through the controlled store (the same points: begin / txn / txn-end) and compared.
//
//	drift     the real code does not stop at the points the model predicts (a different transaction structure):
//	          the step model does not describe this code any more - specification error, not a violation
//	mismatch  same points, different results or final contents: the code does not do in that step what the model
//	          (checked by TLC: a write-back only ever replaces the handle's own file) says
func init() {
	progs := func() map[string]conc.Program {
		d1, d2 := []byte{7}, []byte{8, 9}
		return map[string]conc.Program{
			"p1": {Tag: "kvhandle", Start: "file-b", Threads: [][]conc.Op{{{Name: "append", P: "b", Data: d1}}, {{Name: "remove", P: "b"}, {Name: "writefile", P: "b", Data: d2}}}},
			"p2": {Tag: "kvhandle", Start: "file-b", Threads: [][]conc.Op{{{Name: "append", P: "b", Data: d1}}, {{Name: "writefile", P: "a", Data: d2}, {Name: "rename", P: "a", Q: "b"}}}},
			"p3": {Tag: "kvhandle", Start: "file-b", Threads: [][]conc.Op{{{Name: "createappend", P: "a", Data: d1}}, {{Name: "rename", P: "b", Q: "a"}}}},
			"p4": {Tag: "kvhandle", Start: "file-b", Threads: [][]conc.Op{{{Name: "append", P: "b", Data: d1}}, {{Name: "rename", P: "b", Q: "a"}}}},
			"p5": {Tag: "kvhandle", Start: "file-b", Threads: [][]conc.Op{{{Name: "append", P: "b", Data: d1}, {Name: "append", P: "b", Data: d2}}, {{Name: "remove", P: "b"}}}},
			"p6": {Tag: "kvhandle", Start: "file-b", Threads: [][]conc.Op{{{Name: "writefile", P: "b", Data: d1}}, {{Name: "writefile", P: "b", Data: d2}}}},
			"p8": {Tag: "kvhandle", Start: "file-b", Threads: [][]conc.Op{{{Name: "append", P: "b", Data: d1}}, {{Name: "readfile", P: "b"}, {Name: "readfile", P: "b"}}}},
			"p9": {Tag: "kvhandle", Start: "file-b", Threads: [][]conc.Op{{{Name: "writefile", P: "b", Data: d2}}, {{Name: "readfile", P: "b"}, {Name: "remove", P: "b"}}}},
			"p10": {Tag: "kvhandle", Start: "file-b", Threads: [][]conc.Op{{{Name: "mkdir", P: "a"}}, {{Name: "mkdir", P: "a"}, {Name: "stat", P: "a"}}}},
			"p11": {Tag: "kvhandle", Start: "file-b", Threads: [][]conc.Op{{{Name: "mkdir", P: "a"}}, {{Name: "rename", P: "b", Q: "a"}, {Name: "stat", P: "b"}}}},
			"p12": {Tag: "kvhandle", Start: "file-b", Threads: [][]conc.Op{{{Name: "append", P: "b", Data: d1}}, {{Name: "remove", P: "b"}, {Name: "mkdir", P: "b"}}}},
			"p13": {Tag: "kvhandle", Start: "file-b", Threads: [][]conc.Op{{{Name: "mkdir", P: "a"}, {Name: "rename", P: "a", Q: "b"}}, {{Name: "remove", P: "b"}}}},
			"p7": {Tag: "kvhandle", Start: "file-b", Threads: [][]conc.Op{{{Name: "writefile", P: "b", Data: d1}}, {{Name: "rename", P: "b", Q: "a"}, {Name: "append", P: "a", Data: d2}}}},
		}
	}
	commands["kvhandle"] = func(args []string) {
		fl := flag.NewFlagSet("kvhandle", flag.ExitOnError)
		name := fl.String("prog", "p1", "program (p1, p2, p3: the constants of MC_KVHandle.tla)")
		out := fl.String("out", "", "summary file")
		_ = fl.Parse(args)
		p, ok := progs()[*name]
		if !ok {
			fatal("unknown program", *name)
		}
		type example struct {
			Class    string       `json:"class"`
			Detail   string       `json:"detail"`
			Program  conc.Program `json:"program"`
			Schedule []int        `json:"schedule"`
		}
		sum := struct {
			Prog      string             `json:"prog"`
			Text      string             `json:"text"`
			Schedules int                `json:"schedules"`
			Steps     int                `json:"steps"`
			Counts    map[string]int     `json:"counts"`
			Examples  map[string]example `json:"examples"`
			TLCTail   string             `json:"tlc_tail"`
		}{Prog: *name, Text: p.String(), Counts: map[string]int{}, Examples: map[string]example{}}
		note := func(class, detail string, sched []int) {
			sum.Counts[class]++
			if _, ok := sum.Examples[class]; !ok {
				sum.Examples[class] = example{Class: class, Detail: detail, Program: p, Schedule: sched}
			}
		}
		rd := bufio.NewReaderSize(os.Stdin, 1<<20)
		var tail []string
		for {
			line, err := rd.ReadString('\n')
			if strings.HasPrefix(line, "\"[sched") {
				v, perr := tla.Parse(tla.Unquote(line))
				if perr != nil {
					note("unparsable", perr.Error(), nil)
				} else {
					var sched []int
					for _, e := range v.F("sched").E {
						sched = append(sched, int(e.I))
					}
					sum.Schedules++
					sum.Steps += len(sched)
					o, _ := conc.Run(p, sched, conc.Opts{GateTxnEnd: true})
					// (1) the same scheduling points in the same order
					drift := ""
					if o.Hang {
						drift = "the run did not finish under this schedule"
					} else if len(o.Schedule) != len(sched) {
						drift = fmt.Sprintf("the real run has %d scheduling points, the model %d: %v", len(o.Schedule), len(sched), o.Steps)
					} else {
						for i := range sched {
							want := fmt.Sprintf("t%d %s", sched[i], v.F("labels").E[i].S)
							got := o.Steps[i]
							if strings.HasPrefix(got, fmt.Sprintf("t%d begin ", sched[i])) {
								got = fmt.Sprintf("t%d begin", sched[i])
							}
							if got != want {
								drift = fmt.Sprintf("step %d: real %q, model %q (%v)", i, o.Steps[i], want, o.Steps)
								break
							}
						}
					}
					if drift != "" {
						note("drift", drift, sched)
					} else {
						// (2) results and final contents
						var bad []string
						for _, r := range o.Results {
							var exp *tla.Value
							v.F("res").Pairs(func(k, e *tla.Value) {
								if k.K == tla.Int && int(k.I) == r.Thread {
									exp = e
								}
							})
							k := 0
							for _, r2 := range o.Results {
								if r2.Thread == r.Thread && r2.Call < r.Call {
									k++
								}
							}
							switch {
							case exp == nil || k >= len(exp.E):
								bad = append(bad, fmt.Sprintf("result of %s: real %s, model has none", r.Op.String(), r.Kind))
							case exp.E[k].K == tla.Str && exp.E[k].S != r.Kind:
								bad = append(bad, fmt.Sprintf("result of %s: real %s, model %s", r.Op.String(), r.Kind, exp.E[k].S))
							case exp.E[k].K != tla.Str: // returned data
								got, perr := tla.Parse(r.Out)
								if r.Kind != "ok" || perr != nil || fmt.Sprint(got.Bytes()) != fmt.Sprint(exp.E[k].Bytes()) {
									bad = append(bad, fmt.Sprintf("result of %s: real %s %s, model %v", r.Op.String(), r.Kind, r.Out, exp.E[k].Bytes()))
								}
							}
						}
						ft, ferr := tla.Parse(o.Final)
						if ferr != nil {
							bad = append(bad, "final tree unparsable: "+ferr.Error())
						} else {
							real := map[string]string{"a": "none", "b": "none"}
							ft.Pairs(func(k, e *tla.Value) {
								if k.K == tla.Seq && len(k.E) == 1 {
									if e.F("k").S == "dir" {
										real[k.E[0].S] = "dir"
									} else {
										real[k.E[0].S] = fmt.Sprint(e.F("d").Bytes())
									}
								}
							})
							for _, n := range []string{"a", "b"} {
								m := v.F("final").F(n)
								want := m.S // "none" / "dir"
								if m.K != tla.Str {
									want = fmt.Sprint(m.Bytes())
								}
								if real[n] != want {
									bad = append(bad, fmt.Sprintf("final %s: real %s, model %s", n, real[n], want))
								}
							}
						}
						if len(bad) > 0 {
							class := "mismatch-final"
							if strings.HasPrefix(bad[0], "result") {
								class = "mismatch-result"
							}
							note(class, strings.Join(bad, "; ")+" | steps: "+strings.Join(o.Steps, ", "), sched)
						}
					}
				}
			} else if len(line) > 0 && !strings.HasPrefix(line, "\"") {
				tail = append(tail, strings.TrimRight(line, "\n"))
				if len(tail) > 60 {
					tail = tail[1:]
				}
			}
			if err != nil {
				break
			}
		}
		sum.TLCTail = strings.Join(tail, "\n")
		b, _ := json.Marshal(sum)
		if *out != "" {
			_ = os.WriteFile(*out, b, 0644)
		} else {
			fmt.Println(string(b))
		}
	}
}
