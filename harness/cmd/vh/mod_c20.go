package main

import (
	"fmt"
	"strings"

	"github.com/hack-pad/hackpadfs"
	"github.com/hack-pad/hackpadfs/mem"
	"verif/harness/c20"
)

// devFS returns a constructor of the C20 deviant wrapper "dev=<name>" around a fresh mem.FS.
func devFS(kind string) func() (hackpadfs.FS, func(), error) {
	name := strings.TrimPrefix(kind, "dev=")
	return func() (hackpadfs.FS, func(), error) {
		in, err := mem.NewFS()
		if err != nil {
			return nil, nil, err
		}
		return &c20.FS{In: in, D: name}, func() {}, nil
	}
}

func init() {
	commands["c20-deviants"] = func([]string) {
		for _, d := range c20.Deviants {
			fmt.Println(d)
		}
	}
}
