// Package tla parses values printed by TLC (ToString / PrintT output) into Go trees.
package tla

import (
	"fmt"
	"strconv"
	"strings"
)

type Kind uint8

const (
	Int Kind = iota
	Str
	Bool
	Ident // model value or other bare identifier
	Seq   // <<...>> (tuple / sequence / function over 1..n)
	Set   // {...}
	Rec   // [a |-> v, ...]
	Fun   // (k :> v @@ ...)
)

// Value is one parsed TLA+ value. Raw is the exact text it was parsed from; TLC prints
// values in a normal form, so Raw is usable as a canonical key.
type Value struct {
	K     Kind
	I     int64
	S     string
	B     bool
	E     []Value  // Seq, Set elements; Rec field values; Fun values
	Keys  []Value  // Fun keys
	Names []string // Rec field names
	Raw   string
}

type parser struct {
	s string
	i int
}

// Unquote strips the quoting PrintT(ToString(x)) adds around a line.
func Unquote(line string) string {
	line = strings.TrimSpace(line)
	if len(line) >= 2 && line[0] == '"' && line[len(line)-1] == '"' {
		line = line[1 : len(line)-1]
		if strings.IndexByte(line, '\\') >= 0 {
			var b strings.Builder
			b.Grow(len(line))
			for i := 0; i < len(line); i++ {
				if line[i] == '\\' && i+1 < len(line) {
					i++
					switch line[i] {
					case 'n':
						b.WriteByte('\n')
					case 't':
						b.WriteByte('\t')
					default:
						b.WriteByte(line[i])
					}
					continue
				}
				b.WriteByte(line[i])
			}
			line = b.String()
		}
	}
	return line
}

// Parse parses one complete value.
func Parse(s string) (v Value, err error) {
	defer func() {
		if r := recover(); r != nil {
			err = fmt.Errorf("tla parse: %v", r)
		}
	}()
	p := &parser{s: s}
	p.ws()
	v = p.value()
	p.ws()
	if p.i != len(p.s) {
		panic(fmt.Sprintf("trailing input at %d: %.40q", p.i, p.s[p.i:]))
	}
	return v, nil
}

func MustParse(s string) Value {
	v, err := Parse(s)
	if err != nil {
		panic(err)
	}
	return v
}

func (p *parser) ws() {
	for p.i < len(p.s) && (p.s[p.i] == ' ' || p.s[p.i] == '\n' || p.s[p.i] == '\t' || p.s[p.i] == '\r') {
		p.i++
	}
}

func (p *parser) has(tok string) bool {
	return strings.HasPrefix(p.s[p.i:], tok)
}

func (p *parser) eat(tok string) {
	if !p.has(tok) {
		panic(fmt.Sprintf("expected %q at %d: %.40q", tok, p.i, p.s[p.i:]))
	}
	p.i += len(tok)
}

func isIdent(c byte) bool {
	return c == '_' || (c >= '0' && c <= '9') || (c >= 'a' && c <= 'z') || (c >= 'A' && c <= 'Z')
}

func (p *parser) value() Value {
	start := p.i
	var v Value
	switch {
	case p.has("<<"):
		p.i += 2
		v.K = Seq
		v.E = p.list(">>")
	case p.has("{"):
		p.i++
		v.K = Set
		v.E = p.list("}")
	case p.has("["):
		p.i++
		v.K = Rec
		p.ws()
		for !p.has("]") {
			ns := p.i
			for p.i < len(p.s) && isIdent(p.s[p.i]) {
				p.i++
			}
			v.Names = append(v.Names, p.s[ns:p.i])
			p.ws()
			p.eat("|->")
			p.ws()
			v.E = append(v.E, p.value())
			p.ws()
			if p.has(",") {
				p.i++
				p.ws()
			}
		}
		p.i++
	case p.has("("):
		p.i++
		v.K = Fun
		p.ws()
		for !p.has(")") {
			v.Keys = append(v.Keys, p.value())
			p.ws()
			p.eat(":>")
			p.ws()
			v.E = append(v.E, p.value())
			p.ws()
			if p.has("@@") {
				p.i += 2
				p.ws()
			}
		}
		p.i++
	case p.has("\""):
		p.i++
		v.K = Str
		ss := p.i
		esc := false
		for p.s[p.i] != '"' {
			if p.s[p.i] == '\\' {
				esc = true
				p.i++
			}
			p.i++
		}
		v.S = p.s[ss:p.i]
		if esc {
			v.S = strings.NewReplacer(`\"`, `"`, `\\`, `\`).Replace(v.S)
		}
		p.i++
	case p.s[p.i] == '-' || (p.s[p.i] >= '0' && p.s[p.i] <= '9'):
		ns := p.i
		p.i++
		for p.i < len(p.s) && p.s[p.i] >= '0' && p.s[p.i] <= '9' {
			p.i++
		}
		n, err := strconv.ParseInt(p.s[ns:p.i], 10, 64)
		if err != nil {
			panic(err)
		}
		v.K = Int
		v.I = n
	default:
		ns := p.i
		for p.i < len(p.s) && isIdent(p.s[p.i]) {
			p.i++
		}
		if ns == p.i {
			panic(fmt.Sprintf("unexpected input at %d: %.40q", p.i, p.s[p.i:]))
		}
		id := p.s[ns:p.i]
		switch id {
		case "TRUE":
			v.K, v.B = Bool, true
		case "FALSE":
			v.K, v.B = Bool, false
		default:
			v.K, v.S = Ident, id
		}
	}
	v.Raw = p.s[start:p.i]
	return v
}

func (p *parser) list(end string) []Value {
	var out []Value
	p.ws()
	for !p.has(end) {
		out = append(out, p.value())
		p.ws()
		if p.has(",") {
			p.i++
			p.ws()
		}
	}
	p.i += len(end)
	return out
}

// ---- accessors ----

// F returns the record field (or function value for a string key) called name; panics when absent.
func (v *Value) F(name string) *Value {
	if f := v.Get(name); f != nil {
		return f
	}
	panic(fmt.Sprintf("no field %q in %.80s", name, v.Raw))
}

func (v *Value) Get(name string) *Value {
	switch v.K {
	case Rec:
		for i, n := range v.Names {
			if n == name {
				return &v.E[i]
			}
		}
	case Fun:
		for i := range v.Keys {
			if v.Keys[i].K == Str && v.Keys[i].S == name {
				return &v.E[i]
			}
		}
	}
	return nil
}

func (v *Value) IsStr(s string) bool { return v.K == Str && v.S == s }

// Strs returns the elements of a sequence/set of strings.
func (v *Value) Strs() []string {
	out := make([]string, len(v.E))
	for i := range v.E {
		out[i] = v.E[i].S
	}
	return out
}

// Ints returns the elements of a sequence/set of integers.
func (v *Value) Ints() []int64 {
	out := make([]int64, len(v.E))
	for i := range v.E {
		out[i] = v.E[i].I
	}
	return out
}

// Bytes interprets a sequence of small ints as bytes.
func (v *Value) Bytes() []byte {
	out := make([]byte, len(v.E))
	for i := range v.E {
		out[i] = byte(v.E[i].I)
	}
	return out
}

// Pairs iterates a function value (Fun, or Seq read as 1..n, or empty).
func (v *Value) Pairs(f func(k, val *Value)) {
	switch v.K {
	case Fun:
		for i := range v.Keys {
			f(&v.Keys[i], &v.E[i])
		}
	case Seq:
		for i := range v.E {
			k := Value{K: Int, I: int64(i + 1)}
			f(&k, &v.E[i])
		}
	case Rec:
		// TLC prints a function whose domain is a set of identifier-like strings as a record
		for i := range v.E {
			k := Value{K: Str, S: v.Names[i]}
			f(&k, &v.E[i])
		}
	}
}
