package cachead

import (
	"bytes"
	"errors"
	"fmt"
	"io"
	"os"
	"sort"
	"strings"
	"sync/atomic"

	"github.com/hack-pad/hackpadfs"
	"github.com/hack-pad/hackpadfs/cache"
	"github.com/hack-pad/hackpadfs/mem"
	"verif/harness/engine"
	"verif/harness/tla"
)

// SeqConfig binds Cache.tla (Mode = "seq") to a cache.ReadOnlyFS: every call runs on the cache file system
// AND directly on the (unwrapped) source, and both are compared with the model (C10).  With Faults, every
// Open of an uncached file is additionally re-run on fresh copies of the current state with a failure
// injected at every primitive call it makes (C11, first part).
type SeqConfig struct {
	AdapterName string
	Prop        string // C10
	PropFault   string // C11
	StoreKind   string // mem | min | wb
	Faults      bool
}

type SeqAdapter struct {
	Cfg       SeqConfig
	faultRuns atomic.Int64 // Opens executed with an injected failure
	faultOpen atomic.Int64 // Open transitions whose primitives were enumerated
}

// Counters are copied into the replay summary ("extra").
func (a *SeqAdapter) Counters() map[string]int64 {
	return map[string]int64{"fault_runs": a.faultRuns.Load(), "opens_enumerated": a.faultOpen.Load()}
}

func (a *SeqAdapter) Name() string { return a.Cfg.AdapterName }

func (a *SeqAdapter) New(init *tla.Value) (engine.Instance, error) {
	if init == nil {
		return nil, fmt.Errorf("cache adapter needs the initial model state")
	}
	return newSeq(a, init)
}

type SeqInst struct {
	ad       *SeqAdapter
	cfg      *SeqConfig
	init     *tla.Value
	static   *Static
	raw      *mem.FS // the source itself: twin of every call
	ctl      *Ctl
	cfs      *cache.ReadOnlyFS
	storeIn  *mem.FS
	hs, tw   []hackpadfs.File // cache handles and their twins on the raw source, by slot
	seen     []map[string]bool
	twSeen   []map[string]bool
	hname    []string
	hist     []*tla.Value
	state    *tla.Value
	faults   []string
	detail   string
	dirty    bool
	quiet    bool // replaying a history for a fault run: no enumeration
	diverged bool // some call of this instance's history answered differently on cache and source
}

func newSeq(a *SeqAdapter, init *tla.Value) (*SeqInst, error) {
	cfg := &a.Cfg
	in := &SeqInst{ad: a, cfg: cfg, init: init, static: ParseStatic(init), ctl: NewCtl()}
	raw, err := in.static.BuildSource()
	if err != nil {
		return nil, err
	}
	in.raw = raw
	store, storeIn, err := NewStore(cfg.StoreKind, in.ctl)
	if err != nil {
		return nil, err
	}
	in.storeIn = storeIn
	src := &SrcFS{In: raw, C: in.ctl, Seekable: in.static.Seekable, EOFLate: in.static.EOFLate}
	in.cfs, err = cache.NewReadOnlyFS(src, store, cache.ReadOnlyOptions{RetainData: in.static.Retain})
	if err != nil {
		return nil, err
	}
	nh := len(init.F("hs").E)
	in.hs, in.tw = make([]hackpadfs.File, nh+1), make([]hackpadfs.File, nh+1)
	in.seen, in.twSeen = make([]map[string]bool, nh+1), make([]map[string]bool, nh+1)
	in.hname = make([]string, nh+1)
	return in, nil
}

func (in *SeqInst) Dirty() bool           { return in.dirty }
func (in *SeqInst) SetState(s *tla.Value) { in.state = s }
func (in *SeqInst) Close() {
	for _, l := range [][]hackpadfs.File{in.hs, in.tw} {
		for _, h := range l {
			if h != nil {
				func() {
					defer func() { _ = recover() }()
					_ = h.Close()
				}()
			}
		}
	}
}

// EntObs is one listed directory entry.
type EntObs struct {
	Name  string
	IsDir bool
	Mode  hackpadfs.FileMode
	Size  int64
	Bad   string
}

// Res is what one call returned on one side (cache or source).
type Res struct {
	Err     error
	Panic   string
	Kind    string
	Size    int64
	Mode    hackpadfs.FileMode
	Name    string
	N       int
	Bytes   []byte
	Ret     int64
	Entries []EntObs
}

func (r Res) class() string {
	switch {
	case r.Panic != "":
		return "PANIC"
	case r.Err == nil:
		return "ok"
	case errors.Is(r.Err, io.EOF):
		return "EOF"
	case errors.Is(r.Err, hackpadfs.ErrNotExist):
		return "ENOENT"
	}
	return "FAIL"
}

func (r Res) String() string {
	if r.Panic != "" {
		return "PANIC " + r.Panic
	}
	out := fmt.Sprintf("{err=%v", r.Err)
	if r.Kind != "" {
		out += fmt.Sprintf(" %s %q size=%d mode=%v", r.Kind, r.Name, r.Size, r.Mode)
	}
	if r.N != 0 || len(r.Bytes) > 0 {
		b := r.Bytes
		if len(b) > 6 {
			b = b[:6]
		}
		out += fmt.Sprintf(" n=%d bytes=%v..", r.N, b)
	}
	if r.Ret != 0 {
		out += fmt.Sprintf(" ret=%d", r.Ret)
	}
	if r.Entries != nil {
		var names []string
		for _, e := range r.Entries {
			names = append(names, e.Name)
		}
		out += fmt.Sprintf(" entries=%v", names)
	}
	return out + "}"
}

// Obs is what one call returned on the cache and on the source, plus the source calls the cache made.
type Obs struct {
	C, T   Res
	So, Sr int
}

func (o Obs) String() string {
	return fmt.Sprintf("cache=%v source=%v source-opens=%d source-reads=%d", o.C, o.T, o.So, o.Sr)
}

func infoRes(r *Res, info hackpadfs.FileInfo) {
	r.Kind = "file"
	if info.IsDir() {
		r.Kind = "dir"
	}
	r.Size, r.Mode, r.Name = info.Size(), info.Mode(), info.Name()
}

func entries(ents []hackpadfs.DirEntry) []EntObs {
	var out []EntObs
	for _, e := range ents {
		o := EntObs{Name: e.Name(), IsDir: e.IsDir()}
		if e.Type().IsDir() != e.IsDir() {
			o.Bad = "type-disagrees"
		}
		if info, err := e.Info(); err != nil || info == nil {
			o.Bad = "info-error"
		} else {
			o.Mode, o.Size = info.Mode(), info.Size()
			if info.Name() != o.Name || info.IsDir() != o.IsDir {
				o.Bad = "info-disagrees"
			}
		}
		out = append(out, o)
	}
	return out
}

// do runs one call on one side. fs/handles select the side.
func do(fs hackpadfs.FS, hs []hackpadfs.File, call *tla.Value) (r Res) {
	defer func() {
		if p := recover(); p != nil {
			r.Panic = fmt.Sprint(p)
		}
	}()
	op := call.F("op").S
	h := int(call.F("h").I)
	var f hackpadfs.File
	if h > 0 && h < len(hs) {
		f = hs[h]
	}
	switch op {
	case "open":
		nf, err := fs.Open(call.F("name").S)
		r.Err = err
		if err == nil {
			hs[h] = nf
			if info, serr := nf.Stat(); serr != nil {
				r.Err = fmt.Errorf("stat of the opened handle: %w", serr)
			} else {
				infoRes(&r, info)
			}
		}
	case "stat":
		info, err := hackpadfs.Stat(fs, call.F("name").S)
		r.Err = err
		if err == nil {
			infoRes(&r, info)
		}
	case "list":
		ents, err := hackpadfs.ReadDir(fs, call.F("name").S)
		r.Err = err
		r.Entries = entries(ents)
	case "read":
		buf := bytes.Repeat([]byte{0xEE}, int(call.F("n").I))
		r.N, r.Err = f.Read(buf)
		if r.N >= 0 && r.N <= len(buf) {
			r.Bytes = buf[:r.N]
		}
	case "seek":
		r.Ret, r.Err = hackpadfs.SeekFile(f, call.F("off").I, int(call.F("wh").I))
	case "readdir":
		ents, err := hackpadfs.ReadDirFile(f, int(call.F("n").I))
		r.Err = err
		r.Entries = entries(ents)
	case "hstat":
		info, err := f.Stat()
		r.Err = err
		if err == nil {
			infoRes(&r, info)
		}
	case "close":
		r.Err = f.Close()
	default:
		panic("unknown cache op " + op)
	}
	return r
}

func (in *SeqInst) Apply(call *tla.Value) any {
	in.faults, in.detail = nil, ""
	// (vh replay-file gives no model state: VERIF_ENUMERATE=1 makes every Open of the stored history enumerate its faults)
	if in.cfg.Faults && !in.quiet && (in.state != nil || os.Getenv("VERIF_ENUMERATE") != "") && call.F("op").S == "open" {
		in.enumerate(call)
	}
	in.ctl.Reset()
	var o Obs
	o.C = do(in.cfs, in.hs, call)
	o.So, o.Sr = in.ctl.Count("src.open", ""), in.ctl.Count("src.read", "")
	o.T = do(in.raw, in.tw, call)
	if call.F("op").S == "open" {
		h := int(call.F("h").I)
		in.seen[h], in.twSeen[h] = map[string]bool{}, map[string]bool{}
		in.hname[h] = call.F("name").S
	}
	in.hist = append(in.hist, call)
	if !sameOutcome(o.C, o.T) {
		// cache and source disagree: whatever is built on top of this call is not the model's state
		in.diverged = true
	}
	return o
}

// sameOutcome: both sides succeeded or both failed, with the same amount of data.
func sameOutcome(c, t Res) bool {
	okc := c.Panic == "" && (c.Err == nil || (errors.Is(c.Err, io.EOF) && c.N > 0))
	okt := t.Panic == "" && (t.Err == nil || (errors.Is(t.Err, io.EOF) && t.N > 0))
	if c.Panic != "" || okc != okt {
		return false
	}
	return c.N == t.N && bytes.Equal(c.Bytes, t.Bytes) && c.Ret == t.Ret && len(c.Entries) == len(t.Entries)
}

func (in *SeqInst) sig(call, tr *tla.Value, what string) string {
	op, b := "-", "-"
	if call != nil {
		op = call.F("op").S
	}
	if tr != nil {
		if bv := tr.Get("b"); bv != nil {
			b = bv.S
		}
	}
	return fmt.Sprintf("%s %s %s %s", in.cfg.AdapterName, op, b, what)
}

// matches reports whether an observed class is what the model's result class allows.
func matches(exp string, r Res, may bool) bool {
	got := r.class()
	switch exp {
	case "ok":
		return got == "ok" || (got == "EOF" && may)
	case "EOF":
		return got == "EOF"
	case "ENOENT":
		return got == "ENOENT"
	case "FAIL":
		return got == "FAIL" || got == "ENOENT"
	case "FAILEOF":
		return got != "ok" && got != "PANIC"
	case "ZERO":
		return got != "PANIC" && r.N == 0
	}
	return false
}

func (in *SeqInst) CheckResult(call, tr *tla.Value, obsAny any) []engine.Div {
	o := obsAny.(Obs)
	var divs []engine.Div
	add := func(prop, what, detail string) {
		divs = append(divs, engine.Div{Prop: prop, Sig: in.sig(call, tr, what), Detail: detail})
		in.dirty = true
	}
	op, exp, may := call.F("op").S, tr.F("e").S, tr.F("may").B
	// the source itself must behave as the requirement part of the model says, else the model is wrong
	if !matches(exp, o.T, may) {
		add("SPEC", "source exp="+exp+" got="+o.T.class(), o.String())
	}
	if !matches(exp, o.C, may) {
		add(in.cfg.Prop, "exp="+exp+" got="+o.C.class(), o.String())
	} else if exp == "ok" || exp == "EOF" {
		for _, side := range []struct {
			prop string
			pre  string
			r    Res
			seen []map[string]bool
		}{{"SPEC", "source ", o.T, in.twSeen}, {in.cfg.Prop, "", o.C, in.seen}} {
			for _, p := range in.compare(call, tr, side.r, side.seen) {
				add(side.prop, side.pre+p, o.String())
			}
		}
		// cache against source, directly
		if o.C.Name != o.T.Name || o.C.Kind != o.T.Kind || o.C.Mode != o.T.Mode || (o.C.Kind == "file" && o.C.Size != o.T.Size) {
			add(in.cfg.Prop, "info-differs-from-source", o.String())
		}
		if !bytes.Equal(o.C.Bytes, o.T.Bytes) || o.C.Ret != o.T.Ret {
			add(in.cfg.Prop, "data-differs-from-source", o.String())
		}
	}
	// source calls: compared only where the model says "none" (a retained file is served without the source)
	if tr.F("so").I == 0 && o.So != 0 {
		add(in.cfg.Prop, "source-opened", o.String())
	}
	if tr.F("sr").I == 0 && o.Sr != 0 {
		add(in.cfg.Prop, "source-read", o.String())
	}
	sort.Strings(in.faults)
	last := ""
	for _, f := range in.faults {
		if f != last {
			add(in.cfg.PropFault, f, in.detail)
		}
		last = f
	}
	_ = op
	return divs
}

// compare checks the data of a successful call of one side against the model's transition.
func (in *SeqInst) compare(call, tr *tla.Value, r Res, seen []map[string]bool) (problems []string) {
	op := call.F("op").S
	h := int(call.F("h").I)
	switch op {
	case "open", "stat", "hstat":
		name := call.F("name").S
		if op == "hstat" {
			name = in.hname[h]
		}
		e := in.static.Lookup(name)
		if r.Kind != tr.F("k").S {
			problems = append(problems, "kind")
		}
		if e != nil && r.Kind == "file" && (r.Size != int64(Sizes[tr.F("z").I-1]) || r.Size != int64(e.Size())) {
			problems = append(problems, "size")
		}
		if r.Mode.Perm() != hackpadfs.FileMode(tr.F("m").I) || r.Mode.IsDir() != (tr.F("k").S == "dir") {
			problems = append(problems, "mode")
		}
		if e != nil && r.Name != baseName(e.Path) {
			problems = append(problems, "name")
		}
	case "read":
		if int64(r.N) != tr.F("cnt").I {
			problems = append(problems, "byte-count "+cmpClass(tr.F("cnt").I, int64(r.N)))
		} else if e := in.static.Lookup(in.hname[h]); e != nil && r.N > 0 {
			off := int(tr.F("off").I)
			want := Pattern(e.Path, e.Size())
			if off+r.N > len(want) || !bytes.Equal(r.Bytes, want[off:off+r.N]) {
				problems = append(problems, "bytes")
			}
		}
	case "seek":
		if r.Ret != tr.F("off").I {
			problems = append(problems, "offset")
		}
	case "readdir", "list":
		if int64(len(r.Entries)) != tr.F("cnt").I {
			problems = append(problems, "entry-count "+cmpClass(tr.F("cnt").I, int64(len(r.Entries))))
		}
		dir := call.F("name").S
		var sn map[string]bool
		if op == "readdir" {
			dir, sn = in.hname[h], seen[h]
		} else {
			sn = map[string]bool{}
		}
		prev := ""
		for i, ent := range r.Entries {
			p := ent.Name
			if dir != "." {
				p = dir + "/" + ent.Name
			}
			e := in.static.Lookup(p)
			switch {
			case e == nil || e.Parent != dir:
				problems = append(problems, "unknown-entry")
				continue
			case sn != nil && sn[ent.Name]:
				problems = append(problems, "duplicate-entry")
			case ent.Bad != "":
				problems = append(problems, "entry-"+ent.Bad)
			case ent.IsDir != (e.Kind == "dir") || ent.Mode.Perm() != e.Perm || (e.Kind == "file" && ent.Size != int64(e.Size())):
				problems = append(problems, "entry-info")
			}
			if sn != nil {
				sn[ent.Name] = true
			}
			if op == "list" && i > 0 && prev >= ent.Name {
				problems = append(problems, "unsorted")
			}
			prev = ent.Name
		}
	}
	sort.Strings(problems)
	out := problems[:0]
	for i, p := range problems {
		if i == 0 || p != problems[i-1] {
			out = append(out, p)
		}
	}
	return out
}

func cmpClass(want, got int64) string {
	switch {
	case got < want:
		return "got=fewer"
	case got > want:
		return "got=more"
	}
	return "got=same"
}

func baseName(p string) string {
	if i := strings.LastIndexByte(p, '/'); i >= 0 {
		return p[i+1:]
	}
	return p
}

// storeHolds classifies what the cache store holds for a file: "absent", "complete", "prefix:<n>", "other".
func storeHolds(store hackpadfs.FS, e *Entry) string {
	b, err := hackpadfs.ReadFile(store, e.Path)
	if err != nil {
		if errors.Is(err, hackpadfs.ErrNotExist) {
			return "absent"
		}
		return "unreadable"
	}
	return classify(b, Pattern(e.Path, e.Size()))
}

// classify compares served bytes with the complete content.
func classify(got, want []byte) string {
	switch {
	case bytes.Equal(got, want):
		return "complete"
	case len(got) < len(want) && bytes.Equal(got, want[:len(got)]):
		return "prefix"
	case len(got) > len(want) && bytes.Equal(got[:len(want)], want):
		return "longer"
	}
	return "mixed"
}

func (in *SeqInst) CheckState(exp *tla.Value, call, tr *tla.Value) []engine.Div {
	var divs []engine.Div
	add := func(what, detail string) {
		divs = append(divs, engine.Div{Prop: in.cfg.Prop, Sig: in.sig(call, tr, what), Detail: detail})
		in.dirty = true
	}
	defer func() {
		if r := recover(); r != nil {
			add("projection panic", fmt.Sprint(r))
		}
	}()
	if call == nil && in.diverged {
		// verification of a rebuilt state: a history through a call on which cache and source disagreed does not
		// establish the model state (the engine then tries another history or skips the state)
		add("state built-through-divergent-call", "")
		return divs
	}
	// cache store contents per file
	cs := exp.F("cs").E
	for i := range in.static.Src {
		e := &in.static.Src[i]
		if e.Kind != "file" {
			continue
		}
		got := storeHolds(in.storeIn, e)
		chunks := (e.Size() + 511) / 512
		want := "absent"
		switch k := int(cs[i].I); {
		case k == chunks:
			want = "complete"
		case k >= 0:
			want = "prefix"
		}
		if got != want {
			add("state store want="+want+" got="+got, fmt.Sprintf("%s: cache store holds %s, model %s", e.Path, got, want))
		}
	}
	// offsets of open file handles
	hs := exp.F("hs").E
	for i := range hs {
		if hs[i].F("s").S != "open" || hs[i].F("k").S != "file" || in.hs[i+1] == nil {
			continue
		}
		off, err := hackpadfs.SeekFile(in.hs[i+1], 0, io.SeekCurrent)
		if err != nil {
			if errors.Is(err, hackpadfs.ErrNotImplemented) && !in.static.Seekable {
				continue
			}
			add("state handle-unusable", fmt.Sprintf("handle %d: %v", i+1, err))
			continue
		}
		if off != hs[i].F("off").I {
			add("state offset", fmt.Sprintf("handle %d at %d, model %d", i+1, off, hs[i].F("off").I))
		}
	}
	return divs
}
