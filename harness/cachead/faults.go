package cachead

import (
	"fmt"
	"io"
	"strings"

	"github.com/hack-pad/hackpadfs"
	"verif/harness/tla"
)

// strictSites are the primitives the property names: when one of them fails during a fill, the Open must
// report an error.  A failure of any other primitive (closing the handle Stat used, the rewind that has a
// fall-back) must either surface or leave the outcome exactly as without the failure.
var strictSites = map[string]bool{"src.read": true, "store.openfile": true, "store.write": true, "store.close": true}

// fork returns a fresh instance brought to the current state by replaying this instance's own history.
func (in *SeqInst) fork() *SeqInst {
	x, err := newSeq(in.ad, in.init)
	if err != nil {
		panic(err)
	}
	x.quiet = true
	for _, c := range in.hist {
		x.Apply(c)
	}
	return x
}

// openAndRead opens name on the cache with a failure at the failAt-th primitive call of the Open (0 = none) and reads
// the returned handle to the end without faults: "error", or the class of the bytes served.
func openAndRead(x *SeqInst, e *Entry, failAt int64) (class string, openErr error, prims []string) {
	x.ctl.Reset()
	x.ctl.FailAt = failAt
	f, err := x.cfs.Open(e.Path)
	x.ctl.mu.Lock()
	x.ctl.FailAt = 0
	x.ctl.mu.Unlock()
	prims = x.ctl.LogCopy()
	if err != nil {
		return "error", err, prims
	}
	defer func() { _ = f.Close() }()
	b, rerr := io.ReadAll(f)
	c := classify(b, Pattern(e.Path, e.Size()))
	if rerr != nil {
		return "read-error", nil, prims
	}
	return c, nil, prims
}

// enumerate re-runs Open(name) of an uncached file once per primitive call it makes, on fresh copies of the
// current state, failing exactly that call; then opens the name twice more without faults.
func (in *SeqInst) enumerate(call *tla.Value) {
	name := call.F("name").S
	e := in.static.Lookup(name)
	if e == nil || e.Kind != "file" {
		return
	}
	idx := -1
	for i := range in.static.Src {
		if in.static.Src[i].Path == name {
			idx = i
		}
	}
	if in.state != nil && in.state.F("cs").E[idx].I >= 0 {
		return // already in the cache store: no fill
	}
	if in.state == nil && storeHolds(in.storeIn, e) != "absent" {
		return
	}
	in.ad.faultOpen.Add(1)
	base := in.fork()
	c0, _, log := openAndRead(base, e, 0)
	base.Close()
	if c0 != "complete" {
		in.faults = append(in.faults, "fault-free-open "+c0)
	}
	var notes []string
	for k := int64(1); k <= int64(len(log)); k++ {
		x := in.fork()
		got, oerr, _ := openAndRead(x, e, k)
		site, fired := x.ctl.What, x.ctl.Fired
		if !fired {
			x.Close()
			continue
		}
		in.ad.faultRuns.Add(1)
		switch {
		case got == "error":
			// reported
		case got == "complete" && strictSites[site]:
			in.faults = append(in.faults, "fault="+site+" open-reported-success")
		case got == "complete":
			// outcome as without the failure
		default:
			in.faults = append(in.faults, "fault="+site+" faulted-open-served-"+got)
		}
		left := storeHolds(x.storeIn, e)
		// what stays in a store that offers no Remove is not constrained (it can not be deleted); what is SERVED is
		if left != "absent" && left != "complete" && in.cfg.StoreKind == "mem" {
			in.faults = append(in.faults, "fault="+site+" store-left-"+left)
		}
		note := fmt.Sprintf("failure at primitive #%d (%s): open -> %s (err=%v), store then holds %s", k, site, got, oerr, left)
		bad := got != "error" && (got != "complete" || strictSites[site]) || (left != "absent" && left != "complete" && in.cfg.StoreKind == "mem")
		for j := 1; j <= 2; j++ {
			re, _, _ := openAndRead(x, e, 0)
			if re != "error" && re != "complete" {
				in.faults = append(in.faults, "fault="+site+" reopen-served-"+re)
				note += fmt.Sprintf("; fault-free re-open %d served %s", j, re)
				bad = true
			}
		}
		if bad && len(notes) < 8 {
			notes = append(notes, note)
		}
		x.Close()
	}
	in.detail = fmt.Sprintf("file %s (%d bytes), store %s; primitives of the fault-free open: %s; %s", name, e.Size(), in.cfg.StoreKind, strings.Join(log, ","), strings.Join(notes, " | "))
}

var _ = hackpadfs.ErrNotExist
