// Package cachead binds Cache.tla to cache.ReadOnlyFS (properties C10, C11): a source file system and a
// cache store built from the model's static tree, both behind harness-side wrappers that count, fail or
// gate every primitive call the cache makes.
package cachead

import (
	"errors"
	"fmt"
	"io"
	"sort"
	"sync"

	"github.com/hack-pad/hackpadfs"
	"github.com/hack-pad/hackpadfs/mem"
	"verif/harness/tla"
)

// Sizes maps the model's size classes (1-based index) to bytes; Cache.tla's Sz.
var Sizes = []int{0, 1, 511, 512, 513, 2100}

// Pattern returns the content of file 'name' with 'size' bytes: every byte depends on the name and on its
// position (period 251 does not divide the 512-byte copy buffer, and the block number is mixed in), so a
// chunk that is missing, repeated or from another file is visible.
func Pattern(name string, size int) []byte {
	seed := 7
	for i := 0; i < len(name); i++ {
		seed = seed*31 + int(name[i])
	}
	b := make([]byte, size)
	for i := range b {
		b[i] = byte((i%251)*3+(i/251)*17+seed) | 1
	}
	return b
}

// Entry is one node of the model's static source tree.
type Entry struct {
	Kind   string
	Perm   hackpadfs.FileMode
	Path   string
	Parent string
	Class  int
}

func (e Entry) Size() int {
	if e.Kind != "file" {
		return 0
	}
	return Sizes[e.Class-1]
}

// Static is the static part of a model state.
type Static struct {
	Src      []Entry
	EOFLate  bool
	Keep     map[string]bool
	Pol      string
	Seekable bool
	Target   string
}

func ParseStatic(st *tla.Value) *Static {
	s := &Static{Keep: map[string]bool{}}
	cfg := st.F("cfg")
	s.EOFLate = cfg.F("eof").S == "late"
	for _, k := range cfg.F("keep").E {
		s.Keep[k.S] = true
	}
	s.Pol = cfg.F("pol").S
	s.Seekable = cfg.F("seek").B
	s.Target = cfg.F("target").S
	for _, e := range st.F("src").E {
		s.Src = append(s.Src, Entry{Kind: e.F("k").S, Perm: hackpadfs.FileMode(e.F("m").I), Path: e.F("p").S, Parent: e.F("par").S, Class: int(e.F("z").I)})
	}
	return s
}

func (s *Static) Lookup(name string) *Entry {
	for i := range s.Src {
		if s.Src[i].Path == name {
			return &s.Src[i]
		}
	}
	return nil
}

func (s *Static) Children(dir string) []string {
	var out []string
	for _, e := range s.Src {
		if e.Parent == dir {
			out = append(out, e.Path)
		}
	}
	sort.Strings(out)
	return out
}

// Retain is the RetainData policy of the state.
func (s *Static) Retain(name string, info hackpadfs.FileInfo) bool {
	switch s.Pol {
	case "always":
		return true
	case "never":
		return false
	case "name":
		return s.Keep[name]
	case "size":
		return info.Size() <= 512
	}
	panic("unknown policy " + s.Pol)
}

// BuildSource creates the source tree in a fresh mem.FS.
func (s *Static) BuildSource() (*mem.FS, error) {
	fs, err := mem.NewFS()
	if err != nil {
		return nil, err
	}
	// parents first: entries are listed top-down in the model; sort by path length to be safe
	es := append([]Entry(nil), s.Src...)
	sort.SliceStable(es, func(i, j int) bool { return len(es[i].Path) < len(es[j].Path) })
	for _, e := range es {
		switch {
		case e.Path == ".":
			if err := fs.Chmod(".", hackpadfs.ModeDir|e.Perm); err != nil {
				return nil, err
			}
		case e.Kind == "dir":
			if err := fs.Mkdir(e.Path, e.Perm); err != nil {
				return nil, err
			}
		default:
			if err := hackpadfs.WriteFullFile(fs, e.Path, Pattern(e.Path, e.Size()), e.Perm); err != nil {
				return nil, err
			}
		}
	}
	return fs, nil
}

// ---------------------------------------------------------------------------------------------
// control block shared by the source and store wrappers of one cache instance

// ErrInjected is the failure injected into a primitive call.
var ErrInjected = errors.New("injected I/O failure")

// Ctl counts, fails and gates the primitive calls of the wrappers.
type Ctl struct {
	mu     sync.Mutex
	total  int64
	FailAt int64 // 1-based index (over all sites) of the call that fails; 0 = none
	Fired  bool
	What   string // site of the failed call
	Log    []string
	counts map[string]int // "site name" -> calls
	// Gate, when set, is called at the gated sites before the call happens; it returns an error to make the call fail.
	Gate func(site, name string) error
	// copies in progress in the store (files opened for writing and not yet closed), per name, and the maximum seen
	writing    map[string]int
	MaxWriting int
}

func NewCtl() *Ctl { return &Ctl{counts: map[string]int{}, writing: map[string]int{}} }

func (c *Ctl) hit(site, name string) error {
	c.mu.Lock()
	c.total++
	n := c.total
	c.counts[site+" "+name]++
	if len(c.Log) < 100 {
		c.Log = append(c.Log, site)
	}
	fail := n == c.FailAt
	if fail {
		c.Fired, c.What = true, site
	}
	gate := c.Gate
	c.mu.Unlock()
	if fail {
		return &hackpadfs.PathError{Op: site, Path: name, Err: ErrInjected}
	}
	if gate != nil {
		if err := gate(site, name); err != nil {
			return &hackpadfs.PathError{Op: site, Path: name, Err: err}
		}
	}
	return nil
}

// Reset clears counters and the fault before a call under observation.
func (c *Ctl) Reset() {
	c.mu.Lock()
	defer c.mu.Unlock()
	c.total, c.FailAt, c.Fired, c.What, c.Log = 0, 0, false, "", nil
	c.counts = map[string]int{}
}

func (c *Ctl) Total() int64 {
	c.mu.Lock()
	defer c.mu.Unlock()
	return c.total
}

// Count returns the number of calls at a site for one name ("" = all names).
func (c *Ctl) Count(site, name string) int {
	c.mu.Lock()
	defer c.mu.Unlock()
	if name != "" {
		return c.counts[site+" "+name]
	}
	n := 0
	for k, v := range c.counts {
		if len(k) > len(site) && k[:len(site)+1] == site+" " {
			n += v
		}
	}
	return n
}

func (c *Ctl) LogCopy() []string {
	c.mu.Lock()
	defer c.mu.Unlock()
	return append([]string(nil), c.Log...)
}

func (c *Ctl) writer(name string, d int) {
	c.mu.Lock()
	defer c.mu.Unlock()
	c.writing[name] += d
	if c.writing[name] > c.MaxWriting {
		c.MaxWriting = c.writing[name]
	}
}

// Writing returns the number of copies of name currently in progress in the store.
func (c *Ctl) Writing(name string) int {
	c.mu.Lock()
	defer c.mu.Unlock()
	return c.writing[name]
}

// ---------------------------------------------------------------------------------------------
// source wrapper: exposes Open only (what cache.ReadOnlyFS needs); files expose Read/Stat/Close/ReadDir and,
// for a seekable source, Seek.

type SrcFS struct {
	In       hackpadfs.FS
	C        *Ctl
	Seekable bool
	EOFLate  bool // report io.EOF by a separate (0, EOF) read instead of together with the last bytes
}

func (s *SrcFS) Open(name string) (hackpadfs.File, error) {
	if err := s.C.hit("src.open", name); err != nil {
		return nil, err
	}
	f, err := s.In.Open(name)
	if err != nil {
		return nil, err
	}
	sf := &srcFile{in: f, c: s.C, name: name, late: s.EOFLate}
	if s.Seekable {
		return &srcSeekFile{sf}, nil
	}
	return sf, nil
}

type srcFile struct {
	in   hackpadfs.File
	c    *Ctl
	name string
	late bool
}

func (f *srcFile) Read(p []byte) (int, error) {
	if err := f.c.hit("src.read", f.name); err != nil {
		return 0, err
	}
	n, err := f.in.Read(p)
	if f.late && n > 0 && errors.Is(err, io.EOF) {
		// the inner mem file reports io.EOF together with the last bytes; this source reports it by a separate read
		err = nil
	}
	return n, err
}
func (f *srcFile) Stat() (hackpadfs.FileInfo, error) {
	if err := f.c.hit("src.stat", f.name); err != nil {
		return nil, err
	}
	return f.in.Stat()
}
func (f *srcFile) Close() error {
	if err := f.c.hit("src.close", f.name); err != nil {
		_ = f.in.Close()
		return err
	}
	return f.in.Close()
}
func (f *srcFile) ReadDir(n int) ([]hackpadfs.DirEntry, error) {
	if err := f.c.hit("src.readdir", f.name); err != nil {
		return nil, err
	}
	return hackpadfs.ReadDirFile(f.in, n)
}

type srcSeekFile struct{ *srcFile }

func (f *srcSeekFile) Seek(off int64, whence int) (int64, error) {
	if err := f.c.hit("src.seek", f.name); err != nil {
		return 0, err
	}
	return hackpadfs.SeekFile(f.in, off, whence)
}

// ---------------------------------------------------------------------------------------------
// cache store wrappers

// Store is what cache.NewReadOnlyFS requires.
type Store interface {
	hackpadfs.FS
	hackpadfs.OpenFileFS
	hackpadfs.MkdirFS
}

// MinStore exposes exactly Open + OpenFile + Mkdir over a mem.FS, so every helper the cache calls takes its fallback path.
// WriteBack: bytes written through a handle reach the inner file when the handle is closed (a store that commits on Close).
type MinStore struct {
	In        *mem.FS
	C         *Ctl
	WriteBack bool
}

func (s *MinStore) Open(name string) (hackpadfs.File, error) {
	if err := s.C.hit("store.open", name); err != nil {
		return nil, err
	}
	f, err := s.In.Open(name)
	if err != nil {
		return nil, err
	}
	return &storeFile{in: f, c: s.C, name: name}, nil
}

func (s *MinStore) OpenFile(name string, flag int, perm hackpadfs.FileMode) (hackpadfs.File, error) {
	if err := s.C.hit("store.openfile", name); err != nil {
		return nil, err
	}
	f, err := s.In.OpenFile(name, flag, perm)
	if err != nil {
		return nil, err
	}
	sf := &storeFile{in: f, c: s.C, name: name, wb: s.WriteBack}
	if flag&(hackpadfs.FlagWriteOnly|hackpadfs.FlagReadWrite) != 0 {
		sf.writer = true
		s.C.writer(name, 1)
	}
	return sf, nil
}

func (s *MinStore) Mkdir(name string, perm hackpadfs.FileMode) error {
	if err := s.C.hit("store.mkdir", name); err != nil {
		return err
	}
	return s.In.Mkdir(name, perm)
}

// FullStore additionally exposes the other interfaces of mem.FS (MkdirAll, Stat, Remove, Rename, Chmod).
type FullStore struct{ MinStore }

func (s *FullStore) MkdirAll(name string, perm hackpadfs.FileMode) error {
	if err := s.C.hit("store.mkdirall", name); err != nil {
		return err
	}
	return s.In.MkdirAll(name, perm)
}
func (s *FullStore) Stat(name string) (hackpadfs.FileInfo, error) {
	if err := s.C.hit("store.stat", name); err != nil {
		return nil, err
	}
	return s.In.Stat(name)
}
func (s *FullStore) Remove(name string) error {
	if err := s.C.hit("store.remove", name); err != nil {
		return err
	}
	return s.In.Remove(name)
}
func (s *FullStore) Rename(oldname, newname string) error {
	if err := s.C.hit("store.rename", oldname); err != nil {
		return err
	}
	return s.In.Rename(oldname, newname)
}
func (s *FullStore) Chmod(name string, mode hackpadfs.FileMode) error {
	if err := s.C.hit("store.chmod", name); err != nil {
		return err
	}
	return s.In.Chmod(name, mode)
}

// NewStore returns a cache store of the given kind over a fresh mem.FS: mem (all of mem.FS's interfaces),
// min (Open+OpenFile+Mkdir only), wb (min, committing written bytes on Close).
func NewStore(kind string, c *Ctl) (Store, *mem.FS, error) {
	in, err := mem.NewFS()
	if err != nil {
		return nil, nil, err
	}
	switch kind {
	case "mem":
		return &FullStore{MinStore{In: in, C: c}}, in, nil
	case "min":
		return &MinStore{In: in, C: c}, in, nil
	case "wb":
		return &MinStore{In: in, C: c, WriteBack: true}, in, nil
	}
	return nil, nil, fmt.Errorf("unknown cache store kind %q", kind)
}

type storeFile struct {
	in     hackpadfs.File
	c      *Ctl
	name   string
	writer bool
	wb     bool
	buf    []byte
	closed bool
}

func (f *storeFile) Read(p []byte) (int, error) {
	if err := f.c.hit("store.read", f.name); err != nil {
		return 0, err
	}
	return f.in.Read(p)
}
func (f *storeFile) Write(p []byte) (int, error) {
	if err := f.c.hit("store.write", f.name); err != nil {
		return 0, err
	}
	if f.wb {
		if f.closed {
			return 0, hackpadfs.ErrClosed
		}
		f.buf = append(f.buf, p...)
		return len(p), nil
	}
	return hackpadfs.WriteFile(f.in, p)
}
func (f *storeFile) Stat() (hackpadfs.FileInfo, error) {
	if err := f.c.hit("store.fstat", f.name); err != nil {
		return nil, err
	}
	return f.in.Stat()
}
func (f *storeFile) Seek(off int64, whence int) (int64, error) {
	if err := f.c.hit("store.seek", f.name); err != nil {
		return 0, err
	}
	return hackpadfs.SeekFile(f.in, off, whence)
}
func (f *storeFile) ReadDir(n int) ([]hackpadfs.DirEntry, error) {
	if err := f.c.hit("store.readdir", f.name); err != nil {
		return nil, err
	}
	return hackpadfs.ReadDirFile(f.in, n)
}
func (f *storeFile) Close() error {
	site := "store.close-read"
	if f.writer {
		site = "store.close"
	}
	first := !f.closed
	f.closed = true
	if f.writer && first {
		defer f.c.writer(f.name, -1)
	}
	if err := f.c.hit(site, f.name); err != nil {
		// a failed Close of a write-back handle commits nothing
		_ = f.in.Close()
		return err
	}
	if f.wb && f.writer && first && len(f.buf) > 0 {
		if _, err := hackpadfs.WriteFile(f.in, f.buf); err != nil {
			_ = f.in.Close()
			return err
		}
	}
	return f.in.Close()
}
