package cachead

import (
	"bytes"
	"fmt"
	"io"
	"runtime"
	"strconv"
	"strings"
	"sync"
	"sync/atomic"
	"time"

	"github.com/hack-pad/hackpadfs"
	"github.com/hack-pad/hackpadfs/cache"
	"github.com/hack-pad/hackpadfs/mem"
	"verif/harness/engine"
	"verif/harness/tla"
)

// ConcConfig binds Cache.tla (Mode = "conc") to goroutines that open the same uncached name of one
// cache.ReadOnlyFS.  Every opener runs in its own goroutine; gates in the wrappers (source Open, source Read,
// store OpenFile(create), store Write) park it; a model call releases exactly one opener from its gate (or
// makes the gated primitive fail) and the harness waits until every opener is parked at a gate, blocked in
// pathlock.Mutex.Lock (seen in a stop-the-world stack snapshot) or has returned.
type ConcConfig struct {
	AdapterName string
	Prop        string // C11
	StoreKind   string
}

type ConcAdapter struct {
	Cfg       ConcConfig
	steps     atomic.Int64
	snapshots atomic.Int64
	blocked   atomic.Int64
	maxCopies atomic.Int64
}

func (a *ConcAdapter) Name() string { return a.Cfg.AdapterName }
func (a *ConcAdapter) Counters() map[string]int64 {
	return map[string]int64{"steps_forced": a.steps.Load(), "stack_snapshots": a.snapshots.Load(), "blocked_observed": a.blocked.Load(),
		"max_concurrent_copies_seen": a.maxCopies.Load()}
}

// Watchdog bounds the time the openers are given to settle after a step.
var Watchdog = 5 * time.Second

// SettleWait is how long the harness waits for a notification before it takes a stack snapshot.
var SettleWait = 300 * time.Microsecond

type opener struct {
	id       int
	goid     int64
	started  bool
	inOpen   bool
	at       string // gate the opener is parked at ("" = not parked)
	reads    int    // source reads gated so far (the one it is parked at included)
	writes   int
	blocked  bool // seen blocked in pathlock.Mutex.Lock in the last snapshot
	finished bool
	class    string // "error" or the class of the bytes read from the returned handle
	err      error
	release  chan error
}

type ConcInst struct {
	ad       *ConcAdapter
	cfg      *ConcConfig
	static   *Static
	target   *Entry
	raw      *mem.FS
	ctl      *Ctl
	cfs      *cache.ReadOnlyFS
	storeIn  *mem.FS
	mu       sync.Mutex
	th       []*opener // 1-based
	byGoid   map[int64]*opener
	notify   chan struct{}
	quit     chan struct{}
	free     atomic.Bool
	dead     bool
	dirty    bool
	hang     bool
	lastFin  int
	stackBuf []byte
}

func (a *ConcAdapter) New(init *tla.Value) (engine.Instance, error) {
	if init == nil {
		return nil, fmt.Errorf("cache adapter needs the initial model state")
	}
	in := &ConcInst{ad: a, cfg: &a.Cfg, static: ParseStatic(init), ctl: NewCtl(), byGoid: map[int64]*opener{}, notify: make(chan struct{}, 64), quit: make(chan struct{})}
	in.target = in.static.Lookup(in.static.Target)
	if in.target == nil {
		return nil, fmt.Errorf("conc: target %q not in the tree", in.static.Target)
	}
	raw, err := in.static.BuildSource()
	if err != nil {
		return nil, err
	}
	in.raw = raw
	store, storeIn, err := NewStore(a.Cfg.StoreKind, in.ctl)
	if err != nil {
		return nil, err
	}
	in.storeIn = storeIn
	in.ctl.Gate = in.gate
	src := &SrcFS{In: raw, C: in.ctl, Seekable: in.static.Seekable, EOFLate: in.static.EOFLate}
	in.cfs, err = cache.NewReadOnlyFS(src, store, cache.ReadOnlyOptions{RetainData: in.static.Retain})
	if err != nil {
		return nil, err
	}
	nt := len(init.F("th").E)
	in.th = make([]*opener, nt+1)
	for i := 1; i <= nt; i++ {
		in.th[i] = &opener{id: i, release: make(chan error, 1)}
	}
	return in, nil
}

func goid() int64 {
	var buf [64]byte
	n := runtime.Stack(buf[:], false)
	// "goroutine 123 [running]:"
	s := string(buf[:n])
	s = strings.TrimPrefix(s, "goroutine ")
	if i := strings.IndexByte(s, ' '); i > 0 {
		id, _ := strconv.ParseInt(s[:i], 10, 64)
		return id
	}
	return -1
}

var gatedSites = map[string]bool{"src.open": true, "store.openfile": true, "src.read": true, "store.write": true, "store.remove": true}

// inStat reports whether the caller runs below cache.(*ReadOnlyFS).Stat.
func inStat() bool {
	pcs := make([]uintptr, 24)
	n := runtime.Callers(2, pcs)
	fr := runtime.CallersFrames(pcs[:n])
	for {
		f, more := fr.Next()
		if strings.HasSuffix(f.Function, "cache.(*ReadOnlyFS).Stat") {
			return true
		}
		if !more {
			return false
		}
	}
}

// gate parks the calling opener before a gated primitive until the harness releases it.
func (in *ConcInst) gate(site, name string) error {
	if in.free.Load() || !gatedSites[site] || name != in.target.Path {
		return nil
	}
	id := goid()
	in.mu.Lock()
	t := in.byGoid[id]
	if t == nil || !t.inOpen {
		in.mu.Unlock()
		return nil
	}
	label := site
	switch site {
	case "src.open":
		if inStat() {
			label = "statopen"
		} else {
			label = "copyopen"
		}
	case "store.openfile":
		label = "create"
	case "src.read":
		t.reads++
		label = "read"
	case "store.write":
		t.writes++
		label = "write"
	case "store.remove":
		label = "cleanup" // the removal of a failed fill's partial copy
	}
	t.at = label
	in.mu.Unlock()
	in.ping()
	select {
	case err := <-t.release:
		return err
	case <-in.quit:
		return nil
	}
}

func (in *ConcInst) ping() {
	select {
	case in.notify <- struct{}{}:
	default:
	}
}

func (in *ConcInst) Dirty() bool { return in.dirty || in.dead }

// Close opens every gate for good; parked and blocked openers run to their end on their own.
func (in *ConcInst) Close() {
	if in.free.Swap(true) {
		return
	}
	close(in.quit)
	if m := int64(in.ctl.MaxWriting); m > in.ad.maxCopies.Load() {
		in.ad.maxCopies.Store(m)
	}
}

func (in *ConcInst) start(t *opener) {
	t.started = true
	want := Pattern(in.target.Path, in.target.Size())
	go func() {
		in.mu.Lock()
		t.goid = goid()
		in.byGoid[t.goid] = t
		t.inOpen = true
		in.mu.Unlock()
		var class string
		var oerr error
		func() {
			defer func() {
				if r := recover(); r != nil {
					class, oerr = "panic", fmt.Errorf("panic: %v", r)
				}
			}()
			f, err := in.cfs.Open(in.target.Path)
			in.mu.Lock()
			t.inOpen = false
			in.mu.Unlock()
			if err != nil {
				class, oerr = "error", err
				return
			}
			b, rerr := io.ReadAll(f)
			_ = f.Close()
			class = classify(b, want)
			if rerr != nil {
				class = "read-error"
			}
		}()
		in.mu.Lock()
		t.inOpen, t.finished, t.class, t.err, t.at = false, true, class, oerr, ""
		in.mu.Unlock()
		in.ping()
	}()
}

// blockedInLock returns the goroutine ids that a stop-the-world snapshot shows parked inside pathlock.(*Mutex).Lock.
func (in *ConcInst) blockedInLock() map[int64]bool {
	in.ad.snapshots.Add(1)
	buf := in.stackBuf
	if buf == nil {
		buf = make([]byte, 256<<10)
	}
	for {
		n := runtime.Stack(buf, true)
		if n < len(buf) {
			in.stackBuf = buf
			buf = buf[:n]
			break
		}
		buf = make([]byte, 2*len(buf))
	}
	out := map[int64]bool{}
	for _, sec := range bytes.Split(buf, []byte("\n\n")) {
		if !bytes.HasPrefix(sec, []byte("goroutine ")) || !bytes.Contains(sec, []byte("pathlock.(*Mutex).Lock")) {
			continue
		}
		head := sec[len("goroutine "):]
		sp := bytes.IndexByte(head, ' ')
		if sp < 0 {
			continue
		}
		id, err := strconv.ParseInt(string(head[:sp]), 10, 64)
		if err != nil {
			continue
		}
		// header: "goroutine 12 [sync.Mutex.Lock]:" (or "[semacquire]:" in older runtimes, possibly with ", N minutes")
		state := head[sp+1:]
		if nl := bytes.IndexByte(state, '\n'); nl >= 0 {
			state = state[:nl]
		}
		if bytes.Contains(state, []byte("sync.Mutex.Lock")) || bytes.Contains(state, []byte("semacquire")) {
			out[id] = true
		}
	}
	return out
}

// settle waits until every started opener is parked at a gate, blocked on the path lock, or has returned.
// An opener seen blocked stays blocked until some opener returns (only the end of the holder's Open releases the lock),
// so a snapshot is needed only when a new opener blocks or the lock changes hands.
func (in *ConcInst) settle() bool {
	deadline := time.Now().Add(Watchdog)
	for {
		pending, fin := 0, 0
		in.mu.Lock()
		for _, t := range in.th[1:] {
			if t.finished {
				fin++
			}
		}
		if fin != in.lastFin {
			in.lastFin = fin
			for _, t := range in.th[1:] {
				t.blocked = false
			}
		}
		for _, t := range in.th[1:] {
			if t.started && !t.finished && t.at == "" && !t.blocked {
				pending++
			}
		}
		in.mu.Unlock()
		if pending == 0 {
			return true
		}
		if time.Now().After(deadline) {
			return false
		}
		tm := time.NewTimer(SettleWait)
		select {
		case <-in.notify:
			tm.Stop()
			continue
		case <-tm.C:
		}
		// nothing moved: who is parked in Lock?  (a snapshot is consistent: the world is stopped)
		bl := in.blockedInLock()
		in.mu.Lock()
		// openers parked in Lock while nobody holds the lock at a gate are in transit (the lock is being handed over)
		holder := false
		for _, t := range in.th[1:] {
			if !t.finished && (t.at == "copyopen" || t.at == "create" || t.at == "read" || t.at == "write" || t.at == "cleanup") {
				holder = true
			}
		}
		if holder {
			for _, t := range in.th[1:] {
				if t.started && !t.finished && t.at == "" && bl[t.goid] {
					t.blocked = true
				}
			}
		}
		in.mu.Unlock()
		if !holder {
			time.Sleep(50 * time.Microsecond)
		}
	}
}

// ConcObs is the status of every opener after a step.
type ConcObs struct {
	Status []string // 1-based: idle | statopen | copyopen | create | read#c | write#c | waiting | done-<class>
	Errs   []string
	Hang   bool
	Dead   bool
	Copies int // maximum number of simultaneously open write handles of the target seen so far
}

func (o ConcObs) String() string {
	s := ""
	for i := 1; i < len(o.Status); i++ {
		s += fmt.Sprintf("T%d=%s", i, o.Status[i])
		if o.Errs[i] != "" {
			s += "(" + o.Errs[i] + ")"
		}
		s += " "
	}
	s += fmt.Sprintf("max-concurrent-copies=%d", o.Copies)
	if o.Hang {
		s += " HANG: openers did not settle"
	}
	return s
}

func (in *ConcInst) observe() ConcObs {
	o := ConcObs{Status: make([]string, len(in.th)), Errs: make([]string, len(in.th)), Hang: in.hang, Dead: in.dead}
	in.mu.Lock()
	defer in.mu.Unlock()
	for i, t := range in.th {
		if t == nil {
			continue
		}
		switch {
		case !t.started:
			o.Status[i] = "idle"
		case t.finished:
			o.Status[i] = "done-" + t.class
			if t.err != nil {
				o.Errs[i] = t.err.Error()
			}
		case t.at == "read":
			o.Status[i] = fmt.Sprintf("read#%d", t.reads)
		case t.at == "write":
			o.Status[i] = fmt.Sprintf("write#%d", t.writes)
		case t.at != "":
			o.Status[i] = t.at
		case t.blocked:
			o.Status[i] = "waiting"
		default:
			o.Status[i] = "running"
		}
	}
	o.Copies = in.ctl.MaxWriting
	return o
}

func (in *ConcInst) Apply(call *tla.Value) any {
	if in.dead {
		return in.observe()
	}
	op := call.F("op").S
	t := in.th[int(call.F("t").I)]
	in.ad.steps.Add(1)
	in.mu.Lock()
	started, at, fin := t.started, t.at, t.finished
	in.mu.Unlock()
	switch {
	case !started && op == "step":
		in.start(t)
	case at != "" && !fin:
		in.mu.Lock()
		t.at = ""
		in.mu.Unlock()
		if op == "fail" {
			t.release <- ErrInjected
		} else {
			t.release <- nil
		}
	default:
		// the model releases an opener that is not parked: the instance is not in the model's state
		in.dirty = true
		o := in.observe()
		o.Dead = true
		return o
	}
	if !in.settle() {
		in.hang, in.dead = true, true
	}
	o := in.observe()
	for _, s := range o.Status[1:] {
		if s == "waiting" {
			in.ad.blocked.Add(1)
		}
	}
	return o
}

func (in *ConcInst) sig(call, tr *tla.Value, what string) string {
	op, b := "-", "-"
	if call != nil {
		op = call.F("op").S
	}
	if tr != nil {
		if bv := tr.Get("b"); bv != nil {
			b = bv.S
		}
	}
	return fmt.Sprintf("%s %s %s %s", in.cfg.AdapterName, op, b, what)
}

// modelStatus renders the model's opener record the way observe() does.
func modelStatus(x *tla.Value) string {
	pc := x.F("pc").S
	switch pc {
	case "read", "write":
		return fmt.Sprintf("%s#%d", pc, x.F("c").I)
	case "done":
		switch x.F("res").S {
		case "err":
			return "done-error"
		default:
			return "done-complete"
		}
	}
	return pc
}

// coarse drops the chunk index (signatures carry no concrete values).
func coarse(s string) string {
	if i := strings.IndexByte(s, '#'); i >= 0 {
		return s[:i]
	}
	return s
}

func (in *ConcInst) CheckResult(call, tr *tla.Value, obsAny any) []engine.Div {
	o := obsAny.(ConcObs)
	var divs []engine.Div
	add := func(what string) {
		divs = append(divs, engine.Div{Prop: in.cfg.Prop, Sig: in.sig(call, tr, what), Detail: o.String()})
		in.dirty = true
	}
	if o.Hang {
		add("hang")
		return divs
	}
	if o.Dead {
		return nil
	}
	if o.Copies > 1 {
		add("more-than-one-copy-in-progress")
	}
	return divs
}

func (in *ConcInst) CheckState(exp *tla.Value, call, tr *tla.Value) []engine.Div {
	var divs []engine.Div
	o := in.observe()
	add := func(what, detail string) {
		divs = append(divs, engine.Div{Prop: in.cfg.Prop, Sig: in.sig(call, tr, what), Detail: detail + " | observed: " + o.String()})
		in.dirty = true
	}
	if in.dead {
		if call == nil {
			add("state lost", "instance lost")
		}
		return divs
	}
	ths := exp.F("th").E
	t := 0
	if call != nil {
		t = int(call.F("t").I)
	}
	for i := range ths {
		want, got := modelStatus(&ths[i]), o.Status[i+1]
		if want == got {
			continue
		}
		who := "other"
		if i+1 == t {
			who = "stepped"
		}
		add(fmt.Sprintf("%s-opener exp=%s got=%s", who, coarse(want), coarse(got)), fmt.Sprintf("opener T%d: model %s, observed %s", i+1, want, got))
	}
	// the cache store while everybody is parked: exactly the chunks the model says
	idx := -1
	for i := range in.static.Src {
		if in.static.Src[i].Path == in.target.Path {
			idx = i
		}
	}
	k := int(exp.F("cs").E[idx].I)
	want := "absent"
	full := Pattern(in.target.Path, in.target.Size())
	if k >= 0 {
		n := k * 512
		if n > len(full) {
			n = len(full)
		}
		want = fmt.Sprintf("bytes:%d", n)
	}
	got := "absent"
	if b, err := hackpadfs.ReadFile(in.storeIn, in.target.Path); err == nil {
		got = fmt.Sprintf("bytes:%d", len(b))
		if len(b) > len(full) || !bytes.Equal(b, full[:len(b)]) {
			got = "other-bytes"
		}
	}
	if in.cfg.StoreKind == "wb" && k >= 0 {
		// a write-back store shows nothing of the copy before its handle is closed
		for i := range ths {
			if pc := ths[i].F("pc").S; pc == "read" || pc == "write" {
				want = "bytes:0"
			}
		}
	}
	if want == "absent" && in.cfg.StoreKind != "mem" {
		// a store without Remove keeps what a failed fill wrote; only what is served is constrained
		got = want
	}
	if want != got {
		cls := func(s string) string {
			switch {
			case s == "absent" || s == "other-bytes":
				return s
			case s == fmt.Sprintf("bytes:%d", len(full)):
				return "complete"
			}
			return "partial"
		}
		add("state store exp="+cls(want)+" got="+cls(got), fmt.Sprintf("cache store holds %s of %s, model %s", got, in.target.Path, want))
	}
	return divs
}
