package cachead

import (
	"fmt"
	"io"
	"math/rand"
	"sort"
	"sync"

	"github.com/hack-pad/hackpadfs"
	"github.com/hack-pad/hackpadfs/cache"
)

// StressResult is the outcome of free-running goroutines opening files of one cache.ReadOnlyFS (no gates; meant to
// run in a -race build).  Violations are keyed by a stable class.
type StressResult struct {
	Rounds     int               `json:"rounds"`
	Opens      int               `json:"opens"`
	Errors     int               `json:"errors"`
	Faults     int               `json:"faults_injected"`
	MaxCopies  int               `json:"max_concurrent_copies_of_one_name"`
	Violations map[string]int    `json:"violations"`
	Examples   map[string]string `json:"examples"`
}

// Stress runs 'rounds' rounds: a fresh source tree and cache, 2..8 goroutines, each opening 3..6 names (mostly the same
// uncached ones) and reading them to the end.  With faults, one primitive call of the round (random index) fails.
// Every successful Open must serve the complete bytes; an error is acceptable only in a round with an injected fault.
func Stress(seed int64, rounds int, storeKind string, faults bool) StressResult {
	rnd := rand.New(rand.NewSource(seed))
	res := StressResult{Rounds: rounds, Violations: map[string]int{}, Examples: map[string]string{}}
	note := func(class, ex string) {
		res.Violations[class]++
		if _, ok := res.Examples[class]; !ok {
			res.Examples[class] = ex
		}
	}
	for r := 0; r < rounds; r++ {
		st := &Static{Keep: map[string]bool{"d/g": true}, Pol: []string{"always", "always", "size", "name", "never"}[rnd.Intn(5)], Seekable: rnd.Intn(3) > 0, EOFLate: rnd.Intn(2) == 0}
		st.Src = []Entry{{Kind: "dir", Perm: 0755, Path: ".", Parent: "", Class: 1}, {Kind: "file", Perm: 0644, Path: "f", Parent: ".", Class: 1 + rnd.Intn(6)},
			{Kind: "dir", Perm: 0700, Path: "d", Parent: ".", Class: 1}, {Kind: "file", Perm: 0600, Path: "d/g", Parent: "d", Class: 1 + rnd.Intn(6)},
			{Kind: "dir", Perm: 0755, Path: "d/e", Parent: "d", Class: 1}, {Kind: "file", Perm: 0644, Path: "d/e/h", Parent: "d/e", Class: 1 + rnd.Intn(6)}}
		raw, err := st.BuildSource()
		if err != nil {
			panic(err)
		}
		ctl := NewCtl()
		store, _, err := NewStore(storeKind, ctl)
		if err != nil {
			panic(err)
		}
		cfs, err := cache.NewReadOnlyFS(&SrcFS{In: raw, C: ctl, Seekable: st.Seekable, EOFLate: st.EOFLate}, store, cache.ReadOnlyOptions{RetainData: st.Retain})
		if err != nil {
			panic(err)
		}
		faulty := faults && rnd.Intn(2) == 0
		if faulty {
			ctl.FailAt = int64(1 + rnd.Intn(30))
		}
		files := []string{"f", "d/g", "d/e/h"}
		hot := files[rnd.Intn(3)]
		g := 2 + rnd.Intn(7)
		var wg sync.WaitGroup
		var mu sync.Mutex
		for i := 0; i < g; i++ {
			names := []string{hot}
			for k := 2 + rnd.Intn(4); k > 0; k-- {
				if rnd.Intn(3) == 0 {
					names = append(names, files[rnd.Intn(3)])
				} else {
					names = append(names, hot)
				}
			}
			wg.Add(1)
			go func(names []string) {
				defer wg.Done()
				for _, name := range names {
					e := st.Lookup(name)
					class, detail := "", ""
					func() {
						defer func() {
							if p := recover(); p != nil {
								class, detail = "panic", fmt.Sprint(p)
							}
						}()
						f, err := cfs.Open(name)
						if err != nil {
							class, detail = "error", err.Error()
							return
						}
						b, rerr := io.ReadAll(f)
						_ = f.Close()
						class = classify(b, Pattern(name, e.Size()))
						if rerr != nil {
							class, detail = "error", rerr.Error()
						}
					}()
					mu.Lock()
					res.Opens++
					switch {
					case class == "complete":
					case class == "error" && faulty:
						res.Errors++
					case class == "error":
						note("error-without-fault", fmt.Sprintf("seed %d round %d: Open(%s): %s", seed, r, name, detail))
					default:
						note("open-served-"+class, fmt.Sprintf("seed %d round %d (policy %s, store %s, fault at primitive %d fired=%v site=%s): Open(%s) of %d bytes served %s %s",
							seed, r, st.Pol, storeKind, ctl.FailAt, ctl.Fired, ctl.What, name, e.Size(), class, detail))
					}
					mu.Unlock()
				}
			}(names)
		}
		wg.Wait()
		if ctl.Fired {
			res.Faults++
		}
		if ctl.MaxWriting > res.MaxCopies {
			res.MaxCopies = ctl.MaxWriting
		}
		if ctl.MaxWriting > 1 {
			note("more-than-one-copy-in-progress", fmt.Sprintf("seed %d round %d: %d copies of one name at the same time", seed, r, ctl.MaxWriting))
		}
		// at rest, every retained file that is in the store must be complete there (a store without Remove may keep what a failed fill wrote, unserved)
		for _, name := range files {
			f, err := cfs.Open(name)
			if err != nil {
				if !faulty {
					note("error-without-fault", fmt.Sprintf("seed %d round %d: final Open(%s): %v", seed, r, name, err))
				}
				continue
			}
			b, _ := io.ReadAll(f)
			_ = f.Close()
			if c := classify(b, Pattern(name, st.Lookup(name).Size())); c != "complete" {
				note("final-open-served-"+c, fmt.Sprintf("seed %d round %d (fault site=%s): final Open(%s) served %s", seed, r, ctl.What, name, c))
			}
		}
	}
	return res
}

// Classes returns the violation classes in stable order.
func (r StressResult) Classes() []string {
	var out []string
	for k := range r.Violations {
		out = append(out, k)
	}
	sort.Strings(out)
	return out
}

var _ hackpadfs.FS = (*SrcFS)(nil)
