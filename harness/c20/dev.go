// Package c20 holds the deviant catalogue for property C20: single-deviation wrappers around mem.FS.
// The fstest conformance suite must accept the reference (and the identity wrapper) and report at
// least one failure for every deviant whose deviation its scenarios actually exercise.
package c20

import (
	"errors"
	"fmt"
	"io"
	"path"
	"sort"
	"strings"
	"sync"
	"sync/atomic"
	"time"

	"github.com/hack-pad/hackpadfs"
	"github.com/hack-pad/hackpadfs/mem"
)

// Deviants lists the catalogue: operation/deviation-kind.
var Deviants = []string{
	"identity",
	"mkdir-noop", "mkdir-wrong-perm", "mkdir-wrong-errkind", "mkdir-wrong-errpath",
	"mkdirall-noop", "mkdirall-partial", "mkdirall-wrong-perm",
	"create-wrong-perm", "create-noop", "open-wrong-errkind", "open-wrong-errpath", "open-trunc-ignored",
	"remove-noop", "remove-nonempty-ok", "remove-wrong-errkind", "remove-wrong-errpath",
	"rename-noop", "rename-leaves-old", "rename-drops-file", "rename-wrong-errkind", "rename-wrong-errpath",
	"stat-wrong-size", "stat-wrong-perm", "stat-wrong-name", "stat-wrong-kind", "stat-wrong-errkind", "stat-wrong-mtime",
	"chmod-noop", "chmod-wrong-bits", "chtimes-noop", "chtimes-wrong-time",
	"readdir-missing-entry", "readdir-duplicate-entry", "readdir-wrong-kind",
	"read-short", "read-wrong-bytes", "read-twice", "readat-missing-eof", "readat-wrong-offset",
	"write-noop", "write-twice", "write-wrong-count", "writeat-wrong-offset",
	"seek-wrong-offset", "seek-noop", "truncate-noop", "truncate-wrong-size",
	"close-twice-ok", "filestat-wrong-size",
	// deviations confined to one sub-case of an operation: each needs the scenario that reaches the sub-case
	"truncate-shrink-noop", "truncate-grow-noop", "truncate-zero-noop",
	"rename-dir-loses-children", "rename-overwrite-keeps-dest", "rename-dir-noop",
	"remove-dir-noop", "remove-file-noop", "mkdir-nested-noop",
	"write-at-offset-noop", "seek-end-wrong", "seek-current-wrong", "seek-start-wrong",
	"open-append-ignored", "open-excl-ignored", "chmod-file-noop", "chmod-dir-noop",
	"read-after-seek-wrong", "readdir-nested-missing-entry", "stat-dir-wrong-perm",
	// errors of the right kind and path that are not the typed error itself, wrong names on handles
	"open-err-wrapped", "mkdir-err-wrapped", "remove-err-wrapped", "rename-err-wrapped",
	"filestat-wrong-name", "filestat-wrong-name-nested", "filestat-wrong-kind", "filestat-wrong-perm",
	// entries of a paged directory read (ReadDir(n > 0) on a handle) whose own methods are wrong while Info() is right
	"readdir-paged-entry-wrong-kind", "readdir-paged-entry-wrong-name",
}

// Fired counts, per deviant, how often its deviation actually changed what a call did or returned.
var Fired sync.Map // name -> *int64

func fire(d string) {
	v, _ := Fired.LoadOrStore(d, new(int64))
	atomic.AddInt64(v.(*int64), 1)
}

// FiredCount reports the counter of a deviant.
func FiredCount(d string) int64 {
	if v, ok := Fired.Load(d); ok {
		return atomic.LoadInt64(v.(*int64))
	}
	return 0
}

// FS is mem.FS with exactly one deviation.
type FS struct {
	In *mem.FS
	D  string
}

func (f *FS) is(d string) bool { return f.D == d }

func flip(err error, from, to error, d string) error {
	if err == nil || !errors.Is(err, from) {
		return err
	}
	fire(d)
	switch e := err.(type) {
	case *hackpadfs.PathError:
		return &hackpadfs.PathError{Op: e.Op, Path: e.Path, Err: to}
	case *hackpadfs.LinkError:
		return &hackpadfs.LinkError{Op: e.Op, Old: e.Old, New: e.New, Err: to}
	}
	return to
}

// wrapped hides a typed error behind another error value (errors.Is / errors.As still reach it)
func wrapped(err error, d string) error {
	switch err.(type) {
	case *hackpadfs.PathError, *hackpadfs.LinkError:
		fire(d)
		return fmt.Errorf("deviant: %w", err)
	}
	return err
}

func badPath(err error, d string) error {
	switch e := err.(type) {
	case *hackpadfs.PathError:
		fire(d)
		return &hackpadfs.PathError{Op: e.Op, Path: e.Path + "x", Err: e.Err}
	case *hackpadfs.LinkError:
		fire(d)
		return &hackpadfs.LinkError{Op: e.Op, Old: e.Old + "x", New: e.New, Err: e.Err}
	}
	return err
}

func (f *FS) exists(name string) bool { _, err := f.In.Stat(name); return err == nil }

func (f *FS) Open(name string) (hackpadfs.File, error) {
	return f.OpenFile(name, hackpadfs.FlagReadOnly, 0)
}

func (f *FS) OpenFile(name string, flag int, perm hackpadfs.FileMode) (hackpadfs.File, error) {
	creating := flag&hackpadfs.FlagCreate != 0 && !f.exists(name)
	if creating && f.is("create-wrong-perm") {
		fire(f.D)
		perm ^= 0o111
	}
	if f.is("open-append-ignored") && flag&hackpadfs.FlagAppend != 0 {
		if info, err := f.In.Stat(name); err == nil && info.Size() > 0 {
			fire(f.D)
			flag &^= hackpadfs.FlagAppend
		}
	}
	if f.is("open-excl-ignored") && flag&hackpadfs.FlagExclusive != 0 && flag&hackpadfs.FlagCreate != 0 {
		if info, err := f.In.Stat(name); err == nil && !info.IsDir() {
			fire(f.D)
			flag &^= hackpadfs.FlagExclusive
		}
	}
	if f.is("open-trunc-ignored") && flag&hackpadfs.FlagTruncate != 0 && f.exists(name) {
		if info, err := f.In.Stat(name); err == nil && info.Size() > 0 {
			fire(f.D)
		}
		flag &^= hackpadfs.FlagTruncate
	}
	file, err := f.In.OpenFile(name, flag, perm)
	if creating && err == nil && f.is("create-noop") {
		fire(f.D)
		_ = f.In.Remove(name) // the handle works, but no entry was created
	}
	if f.is("open-wrong-errkind") {
		err = flip(err, hackpadfs.ErrNotExist, hackpadfs.ErrExist, f.D)
	}
	if f.is("open-err-wrapped") {
		err = wrapped(err, f.D)
	}
	if f.is("open-wrong-errpath") {
		err = badPath(err, f.D)
	}
	if file == nil {
		return nil, err
	}
	return &File{in: file, fs: f, name: name}, err
}

func (f *FS) Mkdir(name string, perm hackpadfs.FileMode) error {
	if f.is("mkdir-noop") {
		if _, err := f.In.Stat(name); errors.Is(err, hackpadfs.ErrNotExist) && f.exists(path.Dir(name)) {
			fire(f.D)
			return nil
		}
	}
	if f.is("mkdir-nested-noop") && path.Dir(name) != "." {
		if _, err := f.In.Stat(name); errors.Is(err, hackpadfs.ErrNotExist) {
			if info, perr := f.In.Stat(path.Dir(name)); perr == nil && info.IsDir() {
				fire(f.D)
				return nil
			}
		}
	}
	if f.is("mkdir-wrong-perm") && !f.exists(name) {
		fire(f.D)
		perm ^= 0o111
	}
	err := f.In.Mkdir(name, perm)
	if f.is("mkdir-wrong-errkind") {
		err = flip(err, hackpadfs.ErrExist, hackpadfs.ErrNotExist, f.D)
	}
	if f.is("mkdir-wrong-errpath") {
		err = badPath(err, f.D)
	}
	if f.is("mkdir-err-wrapped") {
		err = wrapped(err, f.D)
	}
	return err
}

func (f *FS) MkdirAll(name string, perm hackpadfs.FileMode) error {
	switch {
	case f.is("mkdirall-noop") && !f.exists(name):
		if f.In.MkdirAll(name, perm) == nil { // would succeed: undo it and still report success
			fire(f.D)
			for p := name; p != "." && p != "/"; p = path.Dir(p) {
				if f.In.Remove(p) != nil {
					break
				}
			}
		}
		return nil
	case f.is("mkdirall-partial") && !f.exists(name) && path.Dir(name) != "." && !f.exists(path.Dir(name)):
		fire(f.D)
		return f.In.MkdirAll(path.Dir(name), perm) // all but the last element
	case f.is("mkdirall-wrong-perm") && !f.exists(name):
		fire(f.D)
		perm ^= 0o111
	}
	return f.In.MkdirAll(name, perm)
}

func (f *FS) Remove(name string) error {
	if f.is("remove-noop") && f.exists(name) {
		if ents, err := hackpadfs.ReadDir(f.In, name); err != nil || len(ents) == 0 {
			fire(f.D)
			return nil
		}
	}
	if info, serr := f.In.Stat(name); serr == nil && ((f.is("remove-dir-noop") && info.IsDir()) || (f.is("remove-file-noop") && !info.IsDir())) {
		if ents, err := hackpadfs.ReadDir(f.In, name); err != nil || len(ents) == 0 {
			fire(f.D)
			return nil
		}
	}
	err := f.In.Remove(name)
	if f.is("remove-nonempty-ok") && errors.Is(err, hackpadfs.ErrNotEmpty) {
		fire(f.D)
		return hackpadfs.RemoveAll(f.In, name)
	}
	if f.is("remove-wrong-errkind") {
		err = flip(err, hackpadfs.ErrNotExist, hackpadfs.ErrExist, f.D)
	}
	if f.is("remove-wrong-errpath") {
		err = badPath(err, f.D)
	}
	if f.is("remove-err-wrapped") {
		err = wrapped(err, f.D)
	}
	return err
}

func (f *FS) Rename(oldname, newname string) error {
	switch {
	case f.is("rename-noop") && f.exists(oldname) && oldname != newname:
		probe := f.In.Rename(oldname, newname)
		if probe == nil {
			fire(f.D)
			_ = f.In.Rename(newname, oldname)
		}
		return probe
	case f.is("rename-leaves-old") && f.exists(oldname) && oldname != newname:
		info, _ := f.In.Stat(oldname)
		var data []byte
		if info != nil && !info.IsDir() {
			data, _ = hackpadfs.ReadFile(f.In, oldname)
		}
		err := f.In.Rename(oldname, newname)
		if err == nil && info != nil && !info.IsDir() {
			fire(f.D)
			_ = hackpadfs.WriteFullFile(f.In, oldname, data, info.Mode().Perm())
		}
		return err
	case (f.is("rename-dir-loses-children") || f.is("rename-dir-noop")) && f.exists(oldname) && oldname != newname:
		info, _ := f.In.Stat(oldname)
		err := f.In.Rename(oldname, newname)
		if err == nil && info != nil && info.IsDir() {
			if f.is("rename-dir-noop") {
				fire(f.D)
				_ = f.In.Rename(newname, oldname)
			} else if ents, rerr := hackpadfs.ReadDir(f.In, newname); rerr == nil && len(ents) > 0 {
				fire(f.D)
				for _, e := range ents {
					_ = hackpadfs.RemoveAll(f.In, path.Join(newname, e.Name()))
				}
			}
		}
		return err
	case f.is("rename-overwrite-keeps-dest") && f.exists(oldname) && oldname != newname:
		dinfo, derr := f.In.Stat(newname)
		var data []byte
		if derr == nil && !dinfo.IsDir() {
			data, _ = hackpadfs.ReadFile(f.In, newname)
		}
		sinfo, _ := f.In.Stat(oldname)
		err := f.In.Rename(oldname, newname)
		if err == nil && derr == nil && !dinfo.IsDir() && sinfo != nil && !sinfo.IsDir() {
			fire(f.D)
			_ = hackpadfs.WriteFullFile(f.In, newname, data, dinfo.Mode().Perm())
		}
		return err
	case f.is("rename-drops-file") && f.exists(oldname) && oldname != newname:
		err := f.In.Rename(oldname, newname)
		if err == nil {
			if info, serr := f.In.Stat(newname); serr == nil && !info.IsDir() {
				fire(f.D)
				_ = f.In.Remove(newname)
			}
		}
		return err
	}
	err := f.In.Rename(oldname, newname)
	if f.is("rename-wrong-errkind") {
		err = flip(err, hackpadfs.ErrNotExist, hackpadfs.ErrExist, f.D)
		err = flip(err, hackpadfs.ErrExist, hackpadfs.ErrNotEmpty, f.D)
	}
	if f.is("rename-wrong-errpath") {
		err = badPath(err, f.D)
	}
	if f.is("rename-err-wrapped") {
		err = wrapped(err, f.D)
	}
	return err
}

type info struct {
	hackpadfs.FileInfo
	size  *int64
	mode  *hackpadfs.FileMode
	name  *string
	mtime *time.Time
}

func (i info) Size() int64 {
	if i.size != nil {
		return *i.size
	}
	return i.FileInfo.Size()
}
func (i info) Mode() hackpadfs.FileMode {
	if i.mode != nil {
		return *i.mode
	}
	return i.FileInfo.Mode()
}
func (i info) IsDir() bool { return i.Mode().IsDir() }
func (i info) Name() string {
	if i.name != nil {
		return *i.name
	}
	return i.FileInfo.Name()
}
func (i info) ModTime() time.Time {
	if i.mtime != nil {
		return *i.mtime
	}
	return i.FileInfo.ModTime()
}

func (f *FS) devInfo(in hackpadfs.FileInfo) hackpadfs.FileInfo {
	switch f.D {
	case "stat-wrong-size":
		if !in.IsDir() {
			fire(f.D)
			s := in.Size() + 1
			return info{FileInfo: in, size: &s}
		}
	case "stat-wrong-perm":
		fire(f.D)
		m := in.Mode() ^ 0o111
		return info{FileInfo: in, mode: &m}
	case "stat-dir-wrong-perm":
		if in.IsDir() {
			fire(f.D)
			m := in.Mode() ^ 0o011
			return info{FileInfo: in, mode: &m}
		}
	case "stat-wrong-name":
		fire(f.D)
		n := in.Name() + "x"
		return info{FileInfo: in, name: &n}
	case "stat-wrong-kind":
		fire(f.D)
		m := in.Mode() ^ hackpadfs.ModeDir
		return info{FileInfo: in, mode: &m}
	case "stat-wrong-mtime":
		fire(f.D)
		t := in.ModTime().Add(-2 * time.Hour)
		return info{FileInfo: in, mtime: &t}
	}
	return in
}

func (f *FS) Stat(name string) (hackpadfs.FileInfo, error) {
	in, err := f.In.Stat(name)
	if f.is("stat-wrong-errkind") {
		err = flip(err, hackpadfs.ErrNotExist, hackpadfs.ErrExist, f.D)
	}
	if err != nil {
		return nil, err
	}
	return f.devInfo(in), nil
}

func (f *FS) Chmod(name string, mode hackpadfs.FileMode) error {
	if f.is("chmod-noop") {
		if in, err := f.In.Stat(name); err == nil && in.Mode().Perm() != mode.Perm() {
			fire(f.D)
			return nil
		}
	}
	if in, err := f.In.Stat(name); err == nil && in.Mode().Perm() != mode.Perm() && ((f.is("chmod-file-noop") && !in.IsDir()) || (f.is("chmod-dir-noop") && in.IsDir())) {
		fire(f.D)
		return nil
	}
	if f.is("chmod-wrong-bits") && f.exists(name) {
		fire(f.D)
		mode ^= 0o111
	}
	return f.In.Chmod(name, mode)
}

func (f *FS) Chtimes(name string, atime, mtime time.Time) error {
	if f.is("chtimes-noop") && f.exists(name) {
		fire(f.D)
		return nil
	}
	if f.is("chtimes-wrong-time") && f.exists(name) {
		fire(f.D)
		mtime = mtime.Add(time.Hour)
	}
	return f.In.Chtimes(name, atime, mtime)
}

// File wraps a handle of the inner FS. It exposes every optional file method through the helpers.
type File struct {
	in     hackpadfs.File
	fs     *FS
	name   string
	closed bool
}

func (f *File) is(d string) bool { return f.fs.D == d }

func (f *File) Read(p []byte) (int, error) {
	if f.is("read-short") && len(p) > 1 {
		n, err := f.in.Read(p[:len(p)-1])
		if n == len(p)-1 {
			fire(f.fs.D)
		}
		return n, err
	}
	if f.is("read-after-seek-wrong") && len(p) > 0 {
		if cur, serr := hackpadfs.SeekFile(f.in, 0, io.SeekCurrent); serr == nil && cur > 0 {
			if _, serr = hackpadfs.SeekFile(f.in, cur-1, io.SeekStart); serr == nil {
				fire(f.fs.D) // reads start one byte early
			}
		}
	}
	n, err := f.in.Read(p)
	if f.is("read-wrong-bytes") && n > 0 {
		fire(f.fs.D)
		p[0] ^= 0x20
	}
	if f.is("read-twice") && n > 0 {
		if _, serr := hackpadfs.SeekFile(f.in, -int64(n), io.SeekCurrent); serr == nil {
			fire(f.fs.D) // the same bytes will be delivered again
		}
	}
	return n, err
}

func (f *File) ReadAt(p []byte, off int64) (int, error) {
	if f.is("readat-wrong-offset") && off >= 0 {
		fire(f.fs.D)
		off++
	}
	n, err := hackpadfs.ReadAtFile(f.in, p, off)
	if f.is("readat-missing-eof") && err == io.EOF && n > 0 {
		fire(f.fs.D)
		err = nil
	}
	return n, err
}

func (f *File) Write(p []byte) (int, error) {
	switch {
	case f.is("write-noop") && len(p) > 0:
		if _, err := hackpadfs.WriteFile(f.in, nil); err == nil {
			fire(f.fs.D)
			return len(p), nil
		}
	case f.is("write-at-offset-noop") && len(p) > 0:
		if cur, serr := hackpadfs.SeekFile(f.in, 0, io.SeekCurrent); serr == nil && cur > 0 {
			if _, err := hackpadfs.WriteFile(f.in, nil); err == nil {
				fire(f.fs.D)
				return len(p), nil
			}
		}
	case f.is("write-twice") && len(p) > 0:
		n, err := hackpadfs.WriteFile(f.in, p)
		if err == nil {
			fire(f.fs.D)
			_, _ = hackpadfs.WriteFile(f.in, p)
		}
		return n, err
	case f.is("write-wrong-count") && len(p) > 0:
		n, err := hackpadfs.WriteFile(f.in, p)
		if err == nil {
			fire(f.fs.D)
			n--
		}
		return n, err
	}
	return hackpadfs.WriteFile(f.in, p)
}

func (f *File) WriteAt(p []byte, off int64) (int, error) {
	if f.is("writeat-wrong-offset") && off >= 0 && len(p) > 0 {
		n, err := hackpadfs.WriteAtFile(f.in, p, off+1)
		if err == nil {
			fire(f.fs.D)
		}
		return n, err
	}
	return hackpadfs.WriteAtFile(f.in, p, off)
}

func (f *File) Seek(offset int64, whence int) (int64, error) {
	if f.is("seek-noop") {
		cur, _ := hackpadfs.SeekFile(f.in, 0, io.SeekCurrent)
		want, err := hackpadfs.SeekFile(f.in, offset, whence)
		if err == nil && want != cur {
			fire(f.fs.D)
			_, _ = hackpadfs.SeekFile(f.in, cur, io.SeekStart)
		}
		return want, err
	}
	n, err := hackpadfs.SeekFile(f.in, offset, whence)
	if err == nil && ((f.is("seek-end-wrong") && whence == io.SeekEnd) || (f.is("seek-current-wrong") && whence == io.SeekCurrent && offset != 0) || (f.is("seek-start-wrong") && whence == io.SeekStart && offset > 0)) {
		// the file position really moves somewhere else, and the reported offset says so
		if m, serr := hackpadfs.SeekFile(f.in, n+1, io.SeekStart); serr == nil {
			fire(f.fs.D)
			return m, nil
		}
	}
	if f.is("seek-wrong-offset") && err == nil {
		fire(f.fs.D)
		n++
	}
	return n, err
}

func (f *File) Truncate(size int64) error {
	if f.is("truncate-noop") {
		if in, err := f.in.Stat(); err == nil && size >= 0 && in.Size() != size {
			if terr := hackpadfs.TruncateFile(f.in, in.Size()); terr == nil {
				fire(f.fs.D)
				return nil
			}
		}
	}
	if in, err := f.in.Stat(); err == nil && !in.IsDir() {
		cur := in.Size()
		if (f.is("truncate-shrink-noop") && size > 0 && size < cur) || (f.is("truncate-grow-noop") && size > cur) || (f.is("truncate-zero-noop") && size == 0 && cur > 0) {
			if terr := hackpadfs.TruncateFile(f.in, cur); terr == nil { // would the real call be accepted at all?
				fire(f.fs.D)
				return nil
			}
		}
	}
	if f.is("truncate-wrong-size") && size >= 0 {
		err := hackpadfs.TruncateFile(f.in, size+1)
		if err == nil {
			fire(f.fs.D)
		}
		return err
	}
	return hackpadfs.TruncateFile(f.in, size)
}

func (f *File) Stat() (hackpadfs.FileInfo, error) {
	in, err := f.in.Stat()
	if err == nil && f.is("filestat-wrong-size") && !in.IsDir() {
		fire(f.fs.D)
		s := in.Size() + 1
		return info{FileInfo: in, size: &s}, nil
	}
	if err == nil {
		switch {
		case f.is("filestat-wrong-name"):
			fire(f.fs.D)
			n := in.Name() + "x"
			return info{FileInfo: in, name: &n}, nil
		case f.is("filestat-wrong-name-nested") && strings.Contains(f.name, "/"):
			fire(f.fs.D)
			n := f.name // the whole path the handle was opened with, not its last element
			return info{FileInfo: in, name: &n}, nil
		case f.is("filestat-wrong-kind"):
			fire(f.fs.D)
			m := in.Mode() ^ hackpadfs.ModeDir
			return info{FileInfo: in, mode: &m}, nil
		case f.is("filestat-wrong-perm"):
			fire(f.fs.D)
			m := in.Mode() ^ 0o111
			return info{FileInfo: in, mode: &m}, nil
		}
	}
	return in, err
}

func (f *File) Chmod(mode hackpadfs.FileMode) error { return hackpadfs.ChmodFile(f.in, mode) }
func (f *File) Sync() error                         { return hackpadfs.SyncFile(f.in) }

func (f *File) Close() error {
	err := f.in.Close()
	if f.is("close-twice-ok") && f.closed && err != nil {
		fire(f.fs.D)
		return nil
	}
	f.closed = true
	return err
}

type dirEntry struct {
	hackpadfs.DirEntry
	dir bool
}

// namedEntry answers a wrong Name() while Info() still names the entry correctly
type namedEntry struct {
	hackpadfs.DirEntry
	name string
}

func (d namedEntry) Name() string { return d.name }

func (d dirEntry) IsDir() bool { return d.dir }
func (d dirEntry) Type() hackpadfs.FileMode {
	if d.dir {
		return hackpadfs.ModeDir
	}
	return 0
}

func (f *File) ReadDir(n int) ([]hackpadfs.DirEntry, error) {
	ents, err := hackpadfs.ReadDirFile(f.in, n)
	switch {
	case f.is("readdir-missing-entry") && len(ents) > 0:
		fire(f.fs.D)
		ents = ents[:len(ents)-1]
	case f.is("readdir-nested-missing-entry") && len(ents) > 0 && f.name != "." && f.name != "":
		fire(f.fs.D)
		ents = ents[:len(ents)-1]
	case f.is("readdir-duplicate-entry") && len(ents) > 0:
		fire(f.fs.D)
		ents = append(ents, ents[0])
	case f.is("readdir-unsorted") && len(ents) > 1:
		fire(f.fs.D)
		sort.Slice(ents, func(i, j int) bool { return ents[i].Name() > ents[j].Name() })
	case f.is("readdir-wrong-kind") && len(ents) > 0:
		fire(f.fs.D)
		ents[0] = dirEntry{ents[0], !ents[0].IsDir()}
	case f.is("readdir-paged-entry-wrong-kind") && n > 0 && len(ents) > 0:
		fire(f.fs.D)
		ents[0] = dirEntry{ents[0], !ents[0].IsDir()}
	case f.is("readdir-paged-entry-wrong-name") && n > 0 && len(ents) > 0:
		fire(f.fs.D)
		ents[0] = namedEntry{ents[0], ents[0].Name() + "x"}
	}
	return ents, err
}
