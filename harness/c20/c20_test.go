package c20

import (
	"encoding/json"
	"os"
	"strings"
	"syscall"
	"testing"

	"github.com/hack-pad/hackpadfs"
	"github.com/hack-pad/hackpadfs/fstest"
	"github.com/hack-pad/hackpadfs/mem"
	hpos "github.com/hack-pad/hackpadfs/os"
)

func TestMain(m *testing.M) {
	syscall.Umask(0) // as the repository's own os test does
	code := m.Run()
	if out := os.Getenv("VERIF_C20_OUT"); out != "" {
		fired := map[string]int64{}
		for _, d := range Deviants {
			fired[d] = FiredCount(d)
		}
		b, _ := json.Marshal(fired)
		_ = os.WriteFile(out, b, 0644)
	}
	os.Exit(code)
}

func memOptions(name string) fstest.FSOptions {
	return fstest.FSOptions{
		Name: name,
		TestFS: func(tb testing.TB) fstest.SetupFS {
			fs, err := mem.NewFS()
			if err != nil {
				tb.Fatal(err)
			}
			return fs
		},
	}
}

// the reference implementations must be accepted
func TestReference_mem(t *testing.T) {
	fstest.FS(t, memOptions("ref"))
	fstest.File(t, memOptions("ref"))
}

func TestReference_os(t *testing.T) {
	opts := fstest.FSOptions{
		Name: "ref",
		TestFS: func(tb testing.TB) fstest.SetupFS {
			sub, err := hpos.NewFS().Sub(strings.TrimPrefix(tb.TempDir(), "/"))
			if err != nil {
				tb.Fatal(err)
			}
			return sub.(*hpos.FS)
		},
	}
	fstest.FS(t, opts)
	fstest.File(t, opts)
}

// every deviant: the file system under test is the deviant wrapper, the set-up FS is the plain mem.FS below it
func TestDeviant(t *testing.T) {
	only := os.Getenv("VERIF_C20_ONLY")
	for _, d := range Deviants {
		d := d
		if only != "" && !strings.Contains(","+only+",", ","+d+",") {
			continue
		}
		t.Run(d, func(t *testing.T) {
			opts := fstest.FSOptions{
				Name: "dev",
				Setup: fstest.TestSetupFunc(func(tb testing.TB) (fstest.SetupFS, func() hackpadfs.FS) {
					in, err := mem.NewFS()
					if err != nil {
						tb.Fatal(err)
					}
					return in, func() hackpadfs.FS { return &FS{In: in, D: d} }
				}),
			}
			fstest.FS(t, opts)
			fstest.File(t, opts)
		})
	}
}
