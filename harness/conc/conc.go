// Package conc systematically enumerates the interleavings of small concurrent programs on one
// in-memory file system (property C15). Scheduling points are the store transactions and blob
// operations of the real code (kvctl gates); every schedule is executed on the real code and its
// history (operations, results, real-time order, final tree) is written as TLA+ data for Lin.tla,
// which decides linearizability against FSCore.
package conc

import (
	"fmt"
	"runtime"
	"strconv"
	"sort"
	"strings"
	"sync"
	"time"

	"github.com/hack-pad/hackpadfs"
	"github.com/hack-pad/hackpadfs/keyvalue"
	"github.com/hack-pad/hackpadfs/mem"
	"verif/harness/fsad"
	"verif/harness/kvctl"
)

// Op is one FS-level operation of the FSCore alphabet.
type Op struct {
	Name string `json:"op"`
	P    string `json:"p"`
	Q    string `json:"q,omitempty"`
	Data []byte `json:"d,omitempty"`
}

func (o Op) String() string {
	s := o.Name + "(" + o.P
	if o.Q != "" {
		s += "," + o.Q
	}
	if o.Data != nil {
		s += fmt.Sprintf(",%v", o.Data)
	}
	return s + ")"
}

// Program: a start fixture and one list of operations per goroutine.
type Program struct {
	Start   string `json:"start"`
	Threads [][]Op `json:"threads"`
	// Tag marks a hand-picked program: its rejected histories are identified one by one (program + results), not by
	// the pair of operation kinds
	Tag string `json:"tag,omitempty"`
}

func (p Program) String() string {
	var parts []string
	for _, t := range p.Threads {
		var ops []string
		for _, o := range t {
			ops = append(ops, o.String())
		}
		parts = append(parts, strings.Join(ops, ";"))
	}
	return p.Start + ": " + strings.Join(parts, " || ")
}

// Fixtures the programs start from.
var Fixtures = map[string]func(fs hackpadfs.FS) error{
	"empty": func(fs hackpadfs.FS) error { return nil },
	"dir-a": func(fs hackpadfs.FS) error { return hackpadfs.Mkdir(fs, "a", 0755) },
	"dir-a-file-a/c": func(fs hackpadfs.FS) error {
		if err := hackpadfs.Mkdir(fs, "a", 0755); err != nil {
			return err
		}
		return hackpadfs.WriteFullFile(fs, "a/c", []byte{1}, 0644)
	},
	"file-b": func(fs hackpadfs.FS) error { return hackpadfs.WriteFullFile(fs, "b", []byte{1, 2}, 0644) },
}

// OpResult is what one operation returned, with its place in real time.
type OpResult struct {
	Thread int    `json:"thread"`
	Op     Op     `json:"op"`
	Kind   string `json:"e"`
	Out    string `json:"o"` // TLA+ text of the returned data, "\"-\"" when none
	Call   int    `json:"call"`
	Ret    int    `json:"ret"`
	Panic  string `json:"panic,omitempty"`
}

// Outcome of one schedule.
type Outcome struct {
	Program  Program    `json:"program"`
	Schedule []int      `json:"schedule"`
	Results  []OpResult `json:"results"`
	Final    string     `json:"final"` // TLA+ text of the final tree
	Init     string     `json:"init"`
	Hang     bool       `json:"hang"`
	Steps    []string   `json:"steps"` // what each scheduled step was ("t0 txn", "t1 blob.grow" ...)
}

type choice struct {
	runnable []int
	chosen   int
}

type sched struct {
	mu      sync.Mutex
	atGate  map[int]chan struct{} // threads waiting at a gate
	what    map[int]string
	arrived chan int // a thread reached a gate or finished (-1-thread)
	clock   int
}

const closureDepth = 3

var closureNames = []string{"a", "b", "c"}

func closure() []string {
	out := []string{"."}
	level := []string{""}
	for d := 0; d < closureDepth; d++ {
		var next []string
		for _, p := range level {
			for _, n := range closureNames {
				q := n
				if p != "" {
					q = p + "/" + n
				}
				next = append(next, q)
			}
		}
		out = append(out, next...)
		level = next
	}
	return out
}

func goid() int64 {
	var buf [64]byte
	n := runtime.Stack(buf[:], false)
	f := strings.Fields(strings.TrimPrefix(string(buf[:n]), "goroutine "))
	if len(f) == 0 {
		return -1
	}
	id, _ := strconv.ParseInt(f[0], 10, 64)
	return id
}

// treeTLA renders a projection as the TLA+ function FSCore uses.
func treeTLA(tree map[string]*fsad.Entry) string {
	var ps []string
	for p := range tree {
		ps = append(ps, p)
	}
	sort.Slice(ps, func(i, j int) bool {
		di, dj := strings.Count(ps[i], "/"), strings.Count(ps[j], "/")
		if ps[i] == "." {
			di = -1
		}
		if ps[j] == "." {
			dj = -1
		}
		return di < dj || (di == dj && ps[i] < ps[j])
	})
	var parts []string
	for _, p := range ps {
		e := tree[p]
		perm := e.Perm
		if p == "." {
			perm = -1
		}
		parts = append(parts, fmt.Sprintf("%s :> [k |-> %q, perm |-> %d, mt |-> \"*\", d |-> %s]", pathTLA(p), e.Kind, perm, bytesTLA(e.Data)))
	}
	if len(parts) == 0 {
		return "<< >>"
	}
	return "(" + strings.Join(parts, " @@ ") + ")"
}

func pathTLA(p string) string {
	if p == "." || p == "" {
		return "<< >>"
	}
	parts := strings.Split(p, "/")
	for i := range parts {
		parts[i] = fmt.Sprintf("%q", parts[i])
	}
	return "<<" + strings.Join(parts, ", ") + ">>"
}

func bytesTLA(b []byte) string {
	if len(b) == 0 {
		return "<< >>"
	}
	parts := make([]string, len(b))
	for i, x := range b {
		parts[i] = fmt.Sprint(x)
	}
	return "<<" + strings.Join(parts, ", ") + ">>"
}

func outTLA(o fsad.Obs) string {
	switch v := o.Out.(type) {
	case fsad.StatOut:
		size := v.Size
		if v.Kind == "dir" {
			size = -1
		}
		return fmt.Sprintf("[k |-> %q, perm |-> %d, mt |-> \"*\", size |-> %d]", v.Kind, v.Perm, size)
	case []fsad.DirEnt:
		var parts []string
		for _, e := range v {
			parts = append(parts, fmt.Sprintf("[n |-> %q, k |-> %q]", e.Name, e.Kind))
		}
		return "{" + strings.Join(parts, ", ") + "}"
	case []byte:
		return bytesTLA(v)
	}
	return "\"-\""
}

// CallTLA renders an operation as FSCore's call record.
func CallTLA(o Op) string {
	flag := `[acc |-> "RO", c |-> FALSE, x |-> FALSE, tr |-> FALSE, ap |-> FALSE]`
	op := o.Name
	if o.Name == "create" {
		op = "open"
		flag = `[acc |-> "WO", c |-> TRUE, x |-> FALSE, tr |-> FALSE, ap |-> FALSE]`
	}
	if o.Name == "createexcl" {
		op = "open"
		flag = `[acc |-> "RW", c |-> TRUE, x |-> TRUE, tr |-> FALSE, ap |-> FALSE]`
	}
	return fmt.Sprintf("[op |-> %q, p |-> %s, q |-> %s, f |-> %s, perm |-> 420, d |-> %s, mt |-> \"\"]", op, pathTLA(o.P), pathTLA(o.Q), flag, bytesTLA(o.Data))
}

func doOp(fs hackpadfs.FS, o Op) fsad.Obs {
	switch o.Name {
	case "create":
		return fsad.Do(fs, "open", o.P, "", hackpadfs.FlagWriteOnly|hackpadfs.FlagCreate, 0644, nil, "")
	case "createexcl":
		return fsad.Do(fs, "open", o.P, "", hackpadfs.FlagReadWrite|hackpadfs.FlagCreate|hackpadfs.FlagExclusive, 0644, nil, "")
	case "append":
		return doAppend(fs, o, hackpadfs.FlagWriteOnly|hackpadfs.FlagAppend)
	case "createappend":
		return doAppend(fs, o, hackpadfs.FlagWriteOnly|hackpadfs.FlagAppend|hackpadfs.FlagCreate)
	}
	return fsad.Do(fs, o.Name, o.P, o.Q, 0, 0644, o.Data, "")
}

func doAppend(fs hackpadfs.FS, o Op, flag int) (obs fsad.Obs) {
	defer func() {
		if r := recover(); r != nil {
			obs.Panic = fmt.Sprint(r)
			obs.Kind = "PANIC"
		}
	}()
	f, err := hackpadfs.OpenFile(fs, o.P, flag, 0644)
	if err == nil {
		_, err = hackpadfs.WriteFile(f, o.Data)
		cerr := f.Close()
		if err == nil {
			err = cerr
		}
	}
	obs.Err = err
	obs.Kind = fsad.ErrKind(err)
	return obs
}

// Opts selects the scheduling points beyond whole store transactions.
type Opts struct {
	GateBlobs  bool `json:"gate_blobs"`   // blob operations of file records
	GateTxnOps bool `json:"gate_txn_ops"` // every Get/Set inside a store transaction
	GateTxnEnd bool `json:"gate_txn_end"` // the return of every Commit
}

// blockedAfter: a released thread that has not reached its next scheduling point after this long, while
// another thread waits at a gate inside an open store transaction, is taken to be blocked on the store.
const blockedAfter = 25 * time.Millisecond

// Run executes the program once, following the schedule prefix and then always releasing the lowest
// runnable thread; it returns the outcome and the choice points met.
func Run(p Program, prefix []int, opts Opts) (Outcome, []choice) {
	inner := mem.NewStoreForVerif()
	ctl := &kvctl.Ctl{GateBlobs: opts.GateBlobs, GateTxnOps: opts.GateTxnOps, GateTxnEnd: opts.GateTxnEnd}
	setupFS, err := keyvalue.NewFS(&kvctl.Txn{In: inner, C: ctl, Thread: -1})
	if err != nil {
		panic(err)
	}
	if err := Fixtures[p.Start](setupFS); err != nil {
		panic(err)
	}
	out := Outcome{Program: p}
	tree0, _ := fsad.Project(setupFS, closure())
	out.Init = treeTLA(tree0)

	n := len(p.Threads)
	// ONE file system object shared by all goroutines, as a mem.FS is (per-FS state such as the unlink counters of open
	// handles must be common to them); the scheduling thread is the calling goroutine's
	var gmu sync.Mutex
	threadOfGoroutine := map[int64]int{}
	ctl.ThreadOf = func() int {
		gmu.Lock()
		defer gmu.Unlock()
		if t, ok := threadOfGoroutine[goid()]; ok {
			return t
		}
		return -1
	}
	shared, err := keyvalue.NewFS(&kvctl.Txn{In: inner, C: ctl, Thread: kvctl.Dynamic})
	if err != nil {
		panic(err)
	}
	fss := make([]*keyvalue.FS, n)
	for i := range fss {
		fss[i] = shared
	}
	s := &sched{atGate: map[int]chan struct{}{}, what: map[int]string{}, arrived: make(chan int, 4*n)}
	ctl.Gate = func(thread int, what string) {
		if thread < 0 {
			return
		}
		ch := make(chan struct{})
		s.mu.Lock()
		s.atGate[thread] = ch
		s.what[thread] = what
		s.mu.Unlock()
		s.arrived <- thread
		<-ch
	}
	var resMu sync.Mutex
	done := make([]bool, n)
	for i := 0; i < n; i++ {
		go func(i int) {
			gmu.Lock()
			threadOfGoroutine[goid()] = i
			gmu.Unlock()
			for _, op := range p.Threads[i] {
				ctl.Gate(i, "begin "+op.Name) // operations are delimited by an explicit scheduling point
				s.mu.Lock()
				call := s.clock
				s.mu.Unlock()
				o := doOp(fss[i], op)
				s.mu.Lock()
				ret := s.clock
				s.mu.Unlock()
				resMu.Lock()
				out.Results = append(out.Results, OpResult{Thread: i, Op: op, Kind: o.Kind, Out: outTLA(o), Call: call, Ret: ret, Panic: o.Panic})
				resMu.Unlock()
			}
			s.arrived <- -1 - i
		}(i)
	}
	var choices []choice
	waiting := 0 // threads currently at a gate
	running := n // threads started and not yet at a gate / finished
	finished := 0
	step := 0
	blocked := map[int]bool{} // released threads presumed to wait for the store held by a gated thread
	isRunning := map[int]bool{}
	for i := 0; i < n; i++ {
		isRunning[i] = true
	}
	holderGated := func() bool {
		if !opts.GateTxnOps {
			return false
		}
		s.mu.Lock()
		defer s.mu.Unlock()
		for t := range s.atGate {
			if ctl.HasOpenTxn(t) {
				return true
			}
		}
		return false
	}
	for finished < n {
		// wait until every thread is at a gate, finished, or blocked behind a gated thread's open transaction
		for {
			hg := holderGated()
			if !hg {
				for t := range blocked {
					delete(blocked, t) // nobody at a gate holds the store: they will proceed
				}
			}
			if running-len(blocked) <= 0 {
				break
			}
			wait := 10 * time.Second
			if hg {
				wait = blockedAfter
			}
			select {
			case t := <-s.arrived:
				running--
				if t < 0 {
					done[-1-t] = true
					finished++
					delete(isRunning, -1-t)
					delete(blocked, -1-t)
				} else {
					waiting++
					delete(isRunning, t)
					delete(blocked, t)
				}
			case <-time.After(wait):
				if !hg {
					out.Hang = true
					return out, choices
				}
				for t := range isRunning {
					blocked[t] = true
				}
			}
		}
		if finished == n {
			break
		}
		s.mu.Lock()
		var runnable []int
		for t := range s.atGate {
			runnable = append(runnable, t)
		}
		s.mu.Unlock()
		sort.Ints(runnable)
		if len(runnable) == 0 {
			out.Hang = true
			return out, choices
		}
		pick := runnable[0]
		if step < len(prefix) {
			pick = prefix[step]
			ok := false
			for _, r := range runnable {
				if r == pick {
					ok = true
				}
			}
			if !ok {
				// the prefix does not apply to this run (real code took a different path): fall back
				pick = runnable[0]
			}
		}
		choices = append(choices, choice{runnable: runnable, chosen: pick})
		out.Schedule = append(out.Schedule, pick)
		s.mu.Lock()
		ch := s.atGate[pick]
		out.Steps = append(out.Steps, fmt.Sprintf("t%d %s", pick, s.what[pick]))
		delete(s.atGate, pick)
		s.clock++
		s.mu.Unlock()
		waiting--
		running++
		isRunning[pick] = true
		step++
		close(ch)
	}
	ctl.Gate = nil
	tree, _ := fsad.Project(setupFS, closure())
	out.Final = treeTLA(tree)
	sort.Slice(out.Results, func(i, j int) bool {
		if out.Results[i].Thread != out.Results[j].Thread {
			return out.Results[i].Thread < out.Results[j].Thread
		}
		return out.Results[i].Call < out.Results[j].Call
	})
	return out, choices
}

// Explore enumerates all schedules of p by depth-first search over the choice points (stateless: every
// schedule is a fresh execution), up to max schedules.
func Explore(p Program, opts Opts, max int, visit func(Outcome)) (count int, truncated bool) {
	var rec func(prefix []int)
	rec = func(prefix []int) {
		if count >= max {
			truncated = true
			return
		}
		out, choices := Run(p, prefix, opts)
		count++
		visit(out)
		for i := len(prefix); i < len(choices); i++ {
			for _, alt := range choices[i].runnable {
				if alt > choices[i].chosen {
					np := make([]int, 0, i+1)
					for j := 0; j < i; j++ {
						np = append(np, choices[j].chosen)
					}
					np = append(np, alt)
					rec(np)
				}
			}
		}
	}
	rec(nil)
	return count, truncated
}

// Stress runs the programs free-running (no gates), each goroutine with its own handles on one shared
// mem.FS, repeatedly for the given time; it counts executions, panics and hangs. Data races are
// reported by the race detector when the binary is built with -race.
func Stress(progs []Program, seconds int, seed int64) (runs, panics, hangs int, msgs []string) {
	deadline := time.Now().Add(time.Duration(seconds) * time.Second)
	for i := 0; time.Now().Before(deadline); i++ {
		p := progs[(int(seed)*7919+i)%len(progs)]
		fs, err := mem.NewFS()
		if err != nil {
			panic(err)
		}
		if err := Fixtures[p.Start](fs); err != nil {
			panic(err)
		}
		var wg sync.WaitGroup
		var mu sync.Mutex
		for rep := 0; rep < 4; rep++ { // several goroutines per program thread to provoke overlap
			for _, ops := range p.Threads {
				wg.Add(1)
				go func(ops []Op) {
					defer wg.Done()
					for _, op := range ops {
						if o := doOp(fs, op); o.Panic != "" {
							mu.Lock()
							panics++
							if len(msgs) < 5 {
								msgs = append(msgs, p.String()+": "+op.String()+": "+o.Panic)
							}
							mu.Unlock()
						}
					}
				}(ops)
			}
		}
		done := make(chan struct{})
		go func() { wg.Wait(); close(done) }()
		select {
		case <-done:
		case <-time.After(10 * time.Second):
			mu.Lock()
			hangs++
			msgs = append(msgs, "hang: "+p.String())
			r, pn, h, m := runs, panics, hangs, append([]string{}, msgs...)
			mu.Unlock()
			return r, pn, h, m
		}
		runs++
	}
	mu2.Lock()
	defer mu2.Unlock()
	return
}

var mu2 sync.Mutex
