//go:build js && wasm

package blobad

import (
	"syscall/js"

	"github.com/hack-pad/hackpadfs/indexeddb/idbblob"
	"github.com/hack-pad/hackpadfs/keyvalue/blob"
)

// IDBRoot builds an idbblob.Blob over a fresh Uint8Array holding data (js/wasm only).
func IDBRoot(data []byte) blob.Blob {
	arr := js.Global().Get("Uint8Array").New(len(data))
	js.CopyBytesToJS(arr, data)
	b, err := idbblob.New(arr)
	if err != nil {
		panic(err)
	}
	return b
}
