// Package blobad binds spec/Blob.tla (property C19) to real blob.Blob implementations.
//
// Every call on the real code runs in its own goroutine under recover() and a watchdog:
// a panic becomes the observation PANIC, a call that does not return within the timeout
// becomes the observation HANG. After either, the instance is abandoned (a panic inside
// blob.Bytes may leave its mutex locked, a hung goroutine still owns the blob): no further
// call is made on it and the engine rebuilds a fresh one.
package blobad

import (
	"bytes"
	"fmt"
	"sync"
	"sync/atomic"
	"time"

	"github.com/hack-pad/hackpadfs/keyvalue/blob"
	"verif/harness/engine"
	"verif/harness/tla"
)

// Config configures one adapter.
type Config struct {
	AdapterName string
	Prop        string                      // property the divergences belong to (C19)
	MkRoot      func(data []byte) blob.Blob // the implementation under test, holding data
	MkSrc       func(data []byte) blob.Blob // a fresh, unrelated source blob for Set
	OpTimeout   time.Duration               // watchdog per call (default 5 s)
	// ErrMayBeNoop: the property demands an error for bad arguments only from the byte-slice
	// implementation; for the typed-array one "no panic, nothing modified" suffices, so a call the
	// spec expects to fail may also succeed - the projection still has to show nothing changed.
	ErrMayBeNoop bool
	// HangBudget: a hung call costs OpTimeout of wall time and leaks a goroutine. After this many
	// hangs (default 2) of one call shape (operation, receiver kind, aliasing relation, argument
	// classes: as fine as the branches of Blob.tla, so every hanging branch is observed) further calls of
	// that shape are not executed any more; they are counted (Counters) and reported by the
	// driver as lost coverage. No observation is ever invented for them.
	HangBudget int64
	// ReadEachStep: Len() and Bytes() of every live blob are read after construction and after every call, as a
	// user who looks at the blobs between calls would (idbblob keeps a Go-side copy of the bytes from the first
	// Bytes() on; without this variant a rebuilt history reads only at its end, so the copy exists for one call).
	ReadEachStep bool
}

// Adapter implements engine.Adapter.
type Adapter struct {
	Cfg Config

	mu      sync.Mutex
	hangs   map[string]*int64
	counter map[string]*int64
}

// NewAdapter fills in the defaults.
func NewAdapter(cfg Config) *Adapter {
	if cfg.OpTimeout == 0 {
		cfg.OpTimeout = 5 * time.Second
	}
	if cfg.HangBudget == 0 {
		cfg.HangBudget = 2
	}
	if cfg.MkSrc == nil {
		cfg.MkSrc = cfg.MkRoot
	}
	return &Adapter{Cfg: cfg}
}

func (a *Adapter) Name() string { return a.Cfg.AdapterName }

func (a *Adapter) cell(m *map[string]*int64, k string) *int64 {
	a.mu.Lock()
	defer a.mu.Unlock()
	if *m == nil {
		*m = map[string]*int64{}
	}
	p, ok := (*m)[k]
	if !ok {
		p = new(int64)
		(*m)[k] = p
	}
	return p
}

// Counters is picked up by the engine (Summary.ExtraCounters).
func (a *Adapter) Counters() map[string]int64 {
	a.mu.Lock()
	defer a.mu.Unlock()
	out := map[string]int64{}
	for k, v := range a.counter {
		out[k] = atomic.LoadInt64(v)
	}
	for k, v := range a.hangs {
		out["hangs-observed: "+k] = atomic.LoadInt64(v)
	}
	return out
}

func (a *Adapter) New(init *tla.Value) (engine.Instance, error) {
	ns := 3
	var data []byte
	if init != nil {
		sl := init.F("sl").E
		ns = len(sl)
		data = sl[0].F("bs").Bytes()
	}
	in := &Inst{ad: a, slots: make([]blob.Blob, ns+1), root: make([]int, ns+1)}
	in.timer = time.NewTimer(time.Hour)
	if !in.timer.Stop() {
		<-in.timer.C
	}
	in.slots[1] = a.Cfg.MkRoot(append([]byte{}, data...))
	in.root[1] = 1
	in.readAll()
	return in, nil
}

// readAll is the ReadEachStep variant's look at the blobs; what it reads is not compared here (CheckState does that).
func (in *Inst) readAll() {
	if !in.ad.Cfg.ReadEachStep || in.abandoned {
		return
	}
	if msg, hung := in.guard(func() {
		for _, b := range in.slots {
			if b != nil {
				_ = b.Len()
				_ = b.Bytes()
			}
		}
	}); hung || msg != "" {
		in.dirty, in.abandoned = true, true
	}
}

// Inst is one family of live blobs.
type Inst struct {
	ad        *Adapter
	slots     []blob.Blob // 1..NS, nil = free
	root      []int       // harness bookkeeping: slot whose memory slot i may share (0 = free)
	timer     *time.Timer
	dirty     bool
	diverged  bool // CheckResult reported a divergence for the last call: the projection would only repeat it
	abandoned bool // after PANIC / HANG / not-run: no further calls on the real blobs
}

func (in *Inst) Dirty() bool { return in.dirty }
func (in *Inst) Close()      {}

// Obs is what one call showed.
type Obs struct {
	Class  string // ok ERR PANIC HANG NOTRUN
	Err    string
	N      int    // Set: count; Len: length; View/Slice: Len() of the returned blob
	Bytes  []byte // Bytes(): the copy; View/Slice: Bytes() of the returned blob
	Slot   int    // View/Slice: slot the returned blob was stored in (0 = none)
	NilRes bool   // View/Slice returned (nil, nil)
	Detail string
}

func (o Obs) String() string {
	switch o.Class {
	case "PANIC", "HANG", "NOTRUN":
		return o.Class + " " + o.Detail
	case "ERR":
		return "error: " + o.Err
	}
	return fmt.Sprintf("ok n=%d bytes=%v slot=%d", o.N, o.Bytes, o.Slot)
}

// guard runs fn on the real code in its own goroutine: ("", false) = returned normally.
func (in *Inst) guard(fn func()) (panicMsg string, hung bool) {
	done := make(chan string, 1)
	go func() {
		defer func() {
			if r := recover(); r != nil {
				done <- "panic: " + fmt.Sprint(r)
			}
		}()
		fn()
		done <- ""
	}()
	in.timer.Reset(in.ad.Cfg.OpTimeout)
	select {
	case m := <-done:
		if !in.timer.Stop() {
			<-in.timer.C
		}
		return m, false
	case <-in.timer.C:
		return "", true
	}
}

func (in *Inst) lowestFree() int {
	for i := 1; i < len(in.slots); i++ {
		if in.slots[i] == nil {
			return i
		}
	}
	return 0
}

func argClass(x, l int64) string {
	switch {
	case x < 0:
		return "negative"
	case x > l:
		return "past-end"
	}
	return "in-range"
}

// shape names the call shape the hang budget is kept for; it is computed from the harness's
// own bookkeeping and the real Len(), never from the specification's expectation.
func (in *Inst) shape(call *tla.Value) string {
	op := call.F("op").S
	b := int(call.F("b").I)
	if op != "set" {
		return op
	}
	src := int(call.F("src").I)
	rel := "fresh-source"
	switch {
	case src == b:
		rel = "source-is-receiver"
	case src != 0 && in.root[src] != 0 && in.root[src] == in.root[b]:
		rel = "source-shares-memory"
	case src != 0:
		rel = "unrelated-source"
	}
	kind := "own"
	if in.root[b] != b {
		kind = "view"
	}
	l, x := in.lenOf(b), call.F("x").I
	srcLen := int64(len(call.F("lit").E))
	if src != 0 {
		srcLen = in.lenOf(src)
	}
	off, fit := argClass(x, l), "fits"
	switch {
	case off != "in-range":
		fit = "-"
	case srcLen == 0:
		fit = "empty-source"
	case x == l:
		off = "at-end"
	case x+srcLen > l:
		fit = "partial"
	}
	return op + " " + kind + " " + rel + " offset-" + off + " " + fit
}

func (in *Inst) lenOf(i int) int64 {
	if i <= 0 || i >= len(in.slots) || in.slots[i] == nil {
		return 0
	}
	var n int64
	defer func() { _ = recover() }()
	n = int64(in.slots[i].Len()) // Len() is a plain atomic load in both implementations
	return n
}

func (in *Inst) Apply(call *tla.Value) any {
	if in.abandoned {
		return Obs{Class: "NOTRUN", Detail: "instance abandoned after an earlier panic / hang"}
	}
	op := call.F("op").S
	b := int(call.F("b").I)
	if op == "drop" {
		in.slots[b], in.root[b] = nil, 0
		return Obs{Class: "ok"}
	}
	shape := in.shape(call)
	hangs := in.ad.cell(&in.ad.hangs, shape)
	if atomic.LoadInt64(hangs) >= in.ad.Cfg.HangBudget {
		atomic.AddInt64(in.ad.cell(&in.ad.counter, "not-executed-after-hang-budget: "+shape), 1)
		in.dirty, in.abandoned = true, true
		return Obs{Class: "NOTRUN", Detail: "calls of shape [" + shape + "] hung " + fmt.Sprint(in.ad.Cfg.HangBudget) + " times; not executed"}
	}
	res := new(Obs) // written by the guarded goroutine only; read only if it returned
	x, y := call.F("x").I, call.F("y").I
	recv := in.slots[b]
	var newBlob blob.Blob
	fn := func() {
		switch op {
		case "view", "slice":
			var nb blob.Blob
			var err error
			if op == "view" {
				nb, err = blob.View(recv, x, y)
			} else {
				nb, err = blob.Slice(recv, x, y)
			}
			if err != nil {
				res.Class, res.Err = "ERR", err.Error()
				return
			}
			res.Class = "ok"
			if nb == nil {
				res.NilRes = true
				return
			}
			newBlob = nb
			res.N = nb.Len()
			res.Bytes = nb.Bytes()
		case "set":
			var src blob.Blob
			if s := int(call.F("src").I); s != 0 {
				src = in.slots[s]
			} else {
				src = in.ad.Cfg.MkSrc(call.F("lit").Bytes())
			}
			n, err := blob.Set(recv, src, x)
			res.N = n
			if err != nil {
				res.Class, res.Err = "ERR", err.Error()
				return
			}
			res.Class = "ok"
		case "grow":
			if err := blob.Grow(recv, x); err != nil {
				res.Class, res.Err = "ERR", err.Error()
				return
			}
			res.Class = "ok"
		case "truncate":
			if err := blob.Truncate(recv, x); err != nil {
				res.Class, res.Err = "ERR", err.Error()
				return
			}
			res.Class = "ok"
		case "len":
			res.N = recv.Len()
			res.Class = "ok"
		case "bytes":
			got := recv.Bytes()
			res.Bytes = append([]byte{}, got...)
			res.N = len(got)
			// Bytes() promises a copy: scribble over it; the projection that follows must not see it
			for i := range got {
				got[i] ^= 0xFF
			}
			res.Class = "ok"
		default:
			panic("blobad: unknown op " + op)
		}
	}
	msg, hung := in.guard(fn)
	switch {
	case hung:
		atomic.AddInt64(hangs, 1)
		in.dirty, in.abandoned = true, true
		return Obs{Class: "HANG", Detail: fmt.Sprintf("no return within %v", in.ad.Cfg.OpTimeout)}
	case msg != "":
		in.dirty, in.abandoned = true, true
		return Obs{Class: "PANIC", Detail: msg}
	}
	if (op == "view" || op == "slice") && newBlob != nil {
		if f := in.lowestFree(); f != 0 {
			in.slots[f] = newBlob
			in.root[f] = f
			if op == "view" {
				in.root[f] = in.root[b]
			}
			res.Slot = f
		}
	}
	in.readAll()
	return *res
}

// forget drops a blob a call returned although the specification expected none.
func (in *Inst) forget(slot int) {
	if slot > 0 && slot < len(in.slots) {
		in.slots[slot], in.root[slot] = nil, 0
	}
}

func (in *Inst) sig(call, tr *tla.Value, exp, got string) string {
	op, b := "-", "-"
	if call != nil {
		op = call.F("op").S
	}
	if tr != nil {
		if bv := tr.Get("b"); bv != nil {
			b = bv.S
		}
	}
	return fmt.Sprintf("%s %s %s exp=%s got=%s", in.ad.Cfg.AdapterName, op, b, exp, got)
}

func (in *Inst) CheckResult(call, tr *tla.Value, obsAny any) []engine.Div {
	o := obsAny.(Obs)
	exp := tr.F("e").S
	op := call.F("op").S
	var divs []engine.Div
	add := func(got, detail string) {
		divs = append(divs, engine.Div{Prop: in.ad.Cfg.Prop, Sig: in.sig(call, tr, exp, got), Detail: detail})
		in.dirty, in.diverged = true, true
	}
	switch o.Class {
	case "NOTRUN":
		return nil
	case "PANIC", "HANG":
		add(o.Class, o.String())
		return divs
	}
	if op == "drop" {
		return nil
	}
	switch exp {
	case "ANY":
		// (U1)/(U2) of Blob.tla: ok or error, both fine; the successor state says what is still compared
		return nil
	case "ERR":
		if o.Class != "ERR" && !in.ad.Cfg.ErrMayBeNoop {
			add(o.Class, o.String())
		}
		in.forget(o.Slot)
		return divs
	case "NOOP":
		// (U3): an error, or success that transferred nothing
		if o.Class == "ok" && op == "set" && o.N != 0 {
			add("count", o.String())
		}
		return divs
	case "ok":
		if o.Class != "ok" {
			add(o.Class, o.String())
			return divs
		}
	default:
		divs = append(divs, engine.Div{Prop: "SPEC", Sig: in.sig(call, tr, exp, "unknown-class"), Detail: "adapter does not know expectation class " + exp})
		return divs
	}
	wantLen := int(tr.F("len").I)
	switch op {
	case "view", "slice":
		switch {
		case o.NilRes:
			add("nil-blob", "returned (nil, nil)")
		case o.Slot != int(tr.F("slot").I):
			divs = append(divs, engine.Div{Prop: "SPEC", Sig: in.sig(call, tr, exp, "slot"), Detail: fmt.Sprintf("adapter stored the result in slot %d, spec in %d", o.Slot, tr.F("slot").I)})
			in.dirty, in.diverged = true, true
		case o.N != wantLen:
			add("len", fmt.Sprintf("%s want len=%d", o.String(), wantLen))
		case !bytes.Equal(o.Bytes, tr.F("bs").Bytes()):
			add("bytes", fmt.Sprintf("%s want %s", o.String(), tr.F("bs").Raw))
		}
	case "set":
		if o.N != wantLen {
			add("count", fmt.Sprintf("%s want n=%d", o.String(), wantLen))
		}
	case "len":
		if o.N != wantLen {
			add("len", fmt.Sprintf("%s want len=%d", o.String(), wantLen))
		}
	case "bytes":
		if !bytes.Equal(o.Bytes, tr.F("bs").Bytes()) {
			add("bytes", fmt.Sprintf("%s want %s", o.String(), tr.F("bs").Raw))
		}
	}
	return divs
}

// modelBytes is Obs(s, i) of Blob.tla.
func modelBytes(sl []tla.Value, i int) []byte {
	s := &sl[i]
	if s.F("k").S == "view" {
		p := sl[int(s.F("par").I)-1].F("bs").Bytes()
		return p[s.F("lo").I:s.F("hi").I]
	}
	return s.F("bs").Bytes()
}

func modelRoot(sl []tla.Value, i int) int {
	if sl[i].F("k").S == "view" {
		return int(sl[i].F("par").I)
	}
	return i + 1
}

// CheckState projects every live slot (Len and Bytes) and compares with the model state.
func (in *Inst) CheckState(exp *tla.Value, call, tr *tla.Value) []engine.Div {
	if in.abandoned {
		if call == nil {
			return []engine.Div{{Prop: in.ad.Cfg.Prop, Sig: in.sig(nil, nil, "state", "abandoned"), Detail: "history contains a call that panicked, hung or was not executed"}}
		}
		return nil // the call's own divergence has been reported by CheckResult
	}
	if in.diverged && call != nil {
		return nil // the engine discards this instance; its state after a wrong result is noise
	}
	sl := exp.F("sl").E
	type proj struct {
		n  int
		bs []byte
	}
	got := make([]proj, len(sl))
	msg, hung := in.guard(func() {
		for i := range sl {
			if k := sl[i].F("k").S; k == "free" || in.slots[i+1] == nil {
				continue
			}
			got[i].n = in.slots[i+1].Len()
			got[i].bs = in.slots[i+1].Bytes()
		}
	})
	var divs []engine.Div
	add := func(what, detail string) {
		divs = append(divs, engine.Div{Prop: in.ad.Cfg.Prop, Sig: in.sig(call, tr, "state", what), Detail: detail})
		in.dirty = true
	}
	if hung {
		in.abandoned = true
		add("HANG", fmt.Sprintf("Len()/Bytes() of the live blobs did not return within %v", in.ad.Cfg.OpTimeout))
		return divs
	}
	if msg != "" {
		in.abandoned = true
		add("PANIC", "Len()/Bytes() of the live blobs: "+msg)
		return divs
	}
	// which blob disagrees, relative to the call: the receiver, the returned blob, an alias of the
	// receiver (same family in the model), or an independent copy
	recv, recvRoot, res := 0, 0, 0
	if call != nil {
		recv = int(call.F("b").I)
		if call.F("op").S != "drop" && tr != nil {
			if s := tr.Get("slot"); s != nil {
				res = int(s.I)
			}
		}
	}
	for i := range sl {
		k := sl[i].F("k").S
		if k == "free" || k == "stale" {
			continue
		}
		if recv != 0 && i+1 == recv {
			recvRoot = modelRoot(sl, i)
		}
	}
	for i := range sl {
		k := sl[i].F("k").S
		if k == "free" || k == "stale" { // stale: content unconstrained, (U1)/(U2) of Blob.tla
			continue
		}
		who := "independent-blob"
		switch {
		case i+1 == res:
			who = "result"
		case i+1 == recv:
			who = "receiver"
		case recvRoot != 0 && modelRoot(sl, i) == recvRoot:
			who = "alias"
		}
		if in.slots[i+1] == nil {
			add("missing-"+who, fmt.Sprintf("slot %d holds no blob, model: %s", i+1, sl[i].Raw))
			continue
		}
		want := modelBytes(sl, i)
		switch {
		case got[i].n != len(want):
			add("len-of-"+who, fmt.Sprintf("slot %d: Len()=%d Bytes()=%v, model %v", i+1, got[i].n, got[i].bs, want))
		case !bytes.Equal(got[i].bs, want):
			add("bytes-of-"+who, fmt.Sprintf("slot %d: Bytes()=%v, model %v", i+1, got[i].bs, want))
		}
	}
	return divs
}
