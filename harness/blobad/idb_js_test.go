//go:build js && wasm

package blobad

import (
	"encoding/json"
	"os"
	"testing"
	"time"

	"verif/harness/engine"
)

// TestReplayStream is the js/wasm leg of C19: it replays a transition stream TLC wrote to a file
// into idbblob.Blob. Run by lib/checks_blob.py as
//
//	GOOS=js GOARCH=wasm go test -exec $(go env GOROOT)/misc/wasm/go_js_wasm_exec -run TestReplayStream ./blobad
//
// with VERIF_BLOB_STREAM (input) and VERIF_BLOB_OUT (summary JSON).
func TestReplayStream(t *testing.T) {
	in, out := os.Getenv("VERIF_BLOB_STREAM"), os.Getenv("VERIF_BLOB_OUT")
	if in == "" || out == "" {
		t.Skip("VERIF_BLOB_STREAM / VERIF_BLOB_OUT not set")
	}
	f, err := os.Open(in)
	if err != nil {
		t.Fatal(err)
	}
	defer f.Close()
	ad := NewAdapter(Config{AdapterName: "idb", Prop: "C19", MkRoot: IDBRoot, ErrMayBeNoop: true, OpTimeout: 5 * time.Second, HangBudget: 1})
	adr := NewAdapter(Config{AdapterName: "idbread", Prop: "C19", MkRoot: IDBRoot, ErrMayBeNoop: true, OpTimeout: 5 * time.Second, HangBudget: 1, ReadEachStep: true})
	sums, err := engine.Run(f, "blob", []engine.Adapter{ad, adr}, engine.Options{Workers: 1, OutFile: out})
	if err != nil {
		t.Fatal(err)
	}
	b, _ := json.Marshal(sums)
	if err := os.WriteFile(out, b, 0644); err != nil {
		t.Fatal(err)
	}
}

// TestReplayFile re-executes one replay file written by ./check (VERIF_BLOB_REPLAY) on idbblob.Blob.
func TestReplayFile(t *testing.T) {
	p := os.Getenv("VERIF_BLOB_REPLAY")
	if p == "" {
		t.Skip("VERIF_BLOB_REPLAY not set")
	}
	raw, err := os.ReadFile(p)
	if err != nil {
		t.Fatal(err)
	}
	var rf struct {
		Property, Sig, Init, State, Call, Expected string
		History                                    []string
	}
	if err := json.Unmarshal(raw, &rf); err != nil {
		t.Fatal(err)
	}
	ad := NewAdapter(Config{AdapterName: "idb", Prop: "C19", MkRoot: IDBRoot, ErrMayBeNoop: true, ReadEachStep: os.Getenv("VERIF_BLOB_ADAPTER") == "idbread"})
	obs, divs, err := engine.ReplayOne(ad, rf.Init, rf.State, rf.History, rf.Call, rf.Expected)
	if err != nil {
		t.Fatal(err)
	}
	t.Logf("history: %v\ncall: %s\nexpected: %s\nobserved: %v", rf.History, rf.Call, rf.Expected, obs)
	for _, d := range divs {
		t.Logf("DIVERGENCE property=%s [%s] %s", d.Prop, d.Sig, d.Detail)
		if d.Prop == rf.Property && d.Sig == rf.Sig {
			t.Errorf("REPRODUCED property=%s [%s]", d.Prop, d.Sig)
		}
	}
}
