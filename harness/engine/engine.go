// Package engine replays the transition relation printed by TLC (mechanism A of DESIGN.md)
// against real code: every state is rebuilt on a fresh instance through the BFS parent chain,
// every transition out of it is applied, and result and projected state are compared.
package engine

import (
	"bufio"
	"encoding/json"
	"fmt"
	"io"
	"os"
	"runtime/debug"
	"sort"
	"strings"
	"sync"
	"sync/atomic"
	"time"

	"verif/harness/tla"
)

// Div is one disagreement between the specification and the real code.
type Div struct {
	Prop   string // property the disagreement is attributed to
	Sig    string // stable identity: adapter, action, spec branch, expected class, observed class
	Detail string
}

// Instance is one live object of the real code under replay.
type Instance interface {
	// Apply performs the call on the real code and returns what was observed.
	Apply(call *tla.Value) any
	// CheckResult compares the observation with the transition the spec printed.
	CheckResult(call, exp *tla.Value, obs any) []Div
	// CheckState projects the real state and compares it with the model state.
	CheckState(exp *tla.Value, call, tr *tla.Value) []Div
	// Dirty reports that the instance can no longer be assumed to be in the model state.
	Dirty() bool
	Close()
}

// StateAware is implemented by instances that want to know the model state they are in before each call
// (e.g. to enumerate faults on fresh copies of that state).
type StateAware interface{ SetState(*tla.Value) }

// HeaderAware is implemented by adapters that read constants of the model from the header line (the record with the
// call alphabet) TLC prints first.
type HeaderAware interface{ SetHeader(*tla.Value) }

// Adapter builds instances in a given initial model state.
type Adapter interface {
	Name() string
	New(init *tla.Value) (Instance, error)
}

type Example struct {
	Init     string   `json:"init,omitempty"`  // initial model state of this history
	State    string   `json:"state,omitempty"` // model state before the call
	History  []string `json:"history"`
	Call     string   `json:"call"`
	Expected string   `json:"expected"`
	Detail   string   `json:"detail"`
}

type DivSummary struct {
	Prop    string  `json:"prop"`
	Sig     string  `json:"sig"`
	Count   int64   `json:"count"`
	Example Example `json:"example"`
}

type Summary struct {
	Module           string           `json:"module"`
	Adapter          string           `json:"adapter"`
	Init             string           `json:"init"`
	States           int64            `json:"states"`
	Transitions      int64            `json:"transitions"`
	Replayed         int64            `json:"replayed"`
	Skipped          int64            `json:"skipped"`
	StateChanging    int64            `json:"state_changing"`
	Unbuildable      int64            `json:"unbuildable_states"`
	WalkSteps        int64            `json:"walk_steps"`
	UnbuildableEx    []string         `json:"unbuildable_examples,omitempty"`
	Divs             []DivSummary     `json:"divs"`
	Branches         map[string]int64 `json:"branches"`
	Samples          []Example        `json:"samples"`
	Hang             bool             `json:"hang"`
	WallS            float64          `json:"wall_s"`
	SampledFraction  float64          `json:"sampled_fraction"`
	ParseErrors      int64            `json:"parse_errors"`
	CallsInAlphabet  int              `json:"calls_in_alphabet"`
	MaxChain         int              `json:"max_chain"`
	TlcTail          string           `json:"tlc_tail"`
	ExtraCounters    map[string]int64 `json:"extra,omitempty"`
	InconclusiveNote string           `json:"inconclusive_note,omitempty"`
}

type parent struct {
	key  string
	call int
}

type job struct {
	state  tla.Value
	trs    []tla.Value
	chains [][]int // candidate call-index chains from the initial state
	init   *tla.Value
}

type Options struct {
	Workers int
	// Sample: replay only this fraction of non-initial states' transitions (seeded); 1 = all.
	Sample float64
	Seed   int64
	// MaxStates stops reading after that many state lines (0 = all).
	MaxStates int64
	OpTimeout time.Duration
	OnHang    func([]*Summary)
	// Walks: after the exhaustive replay, that many random walks of WalkLen steps over the model's graph are run on one
	// long-lived instance each (histories much longer than the BFS chains), comparing result and state at every step.
	Walks   int
	WalkLen int
	// AvoidBranches: walks do not take transitions whose branch label contains one of these (known findings would end them)
	AvoidBranches []string
	OutFile       string // where a hang dumps the partial summaries before exiting with status 3
}

type collector struct {
	mu       sync.Mutex
	divs     map[string]*DivSummary
	branches map[string]int64
	samples  []Example
}

func (c *collector) add(d Div, ex Example) {
	c.mu.Lock()
	defer c.mu.Unlock()
	k := d.Prop + " " + d.Sig
	if s, ok := c.divs[k]; ok {
		s.Count++
		if len(ex.History) < len(s.Example.History) {
			s.Example = ex
		}
		return
	}
	c.divs[k] = &DivSummary{Prop: d.Prop, Sig: d.Sig, Count: 1, Example: ex}
}

// Run reads TLC's stdout from r and replays it through the adapter.
func Run(r io.Reader, module string, ads []Adapter, opt Options) ([]*Summary, error) {
	debug.SetMaxStack(256 << 20)
	start := time.Now()
	if opt.Workers <= 0 {
		opt.Workers = 8
	}
	if opt.OpTimeout == 0 {
		opt.OpTimeout = 20 * time.Second
	}
	if opt.Sample <= 0 || opt.Sample > 1 {
		opt.Sample = 1
	}
	sum := &Summary{Module: module, Branches: map[string]int64{}, SampledFraction: opt.Sample, ExtraCounters: map[string]int64{}}
	cols := make([]*collector, len(ads))
	cnt := make([]*counters, len(ads))
	for i := range ads {
		cols[i] = &collector{divs: map[string]*DivSummary{}, branches: map[string]int64{}}
		cnt[i] = &counters{}
	}

	var calls []tla.Value
	parents := map[string][]parent{}
	inits := map[string]*tla.Value{}  // initial states (states nobody discovered), by key
	graph := map[string]string{} // state key -> text of its transitions (kept only when random walks are requested; parsed per walk step: the parsed graph of a thorough model took tens of GB)
	states := map[string]*tla.Value{}

	jobs := make(chan *job, opt.Workers*2)
	var wg sync.WaitGroup
	var unbuildMu sync.Mutex
	results := func() []*Summary {
		out := make([]*Summary, len(ads))
		for i, ad := range ads {
			cp := *sum
			cp.Adapter = ad.Name()
			cp.Branches = map[string]int64{}
			cp.UnbuildableEx = cnt[i].unbuildEx
			cp.ExtraCounters = map[string]int64{}
			if c, ok := ad.(interface{ Counters() map[string]int64 }); ok {
				// adapter-specific counters (e.g. calls not executed after a hang budget was spent)
				cp.ExtraCounters = c.Counters()
			}
			finish(&cp, cols[i], start, cnt[i])
			out[i] = &cp
		}
		return out
	}
	var hang int32

	// watchdog slots
	type slot struct {
		since atomic.Int64
		what  atomic.Value
	}
	slots := make([]*slot, opt.Workers)
	for i := range slots {
		slots[i] = &slot{}
	}
	stopWatch := make(chan struct{})
	go func() {
		t := time.NewTicker(time.Second)
		defer t.Stop()
		for {
			select {
			case <-stopWatch:
				return
			case <-t.C:
				now := time.Now().UnixNano()
				for _, s := range slots {
					if b := s.since.Load(); b != 0 && now-b > int64(opt.OpTimeout) {
						atomic.StoreInt32(&hang, 1)
						w, _ := s.what.Load().(hangInfo)
						cols[w.ad].add(Div{Prop: "HANG", Sig: ads[w.ad].Name() + " hang", Detail: "operation did not return"}, w.ex)
						// cannot recover a stuck goroutine: emit what we have and stop
						res := results()
						res[w.ad].Hang = true
						if opt.OnHang != nil {
							opt.OnHang(res)
						}
						b, _ := json.Marshal(res)
						if opt.OutFile != "" {
							_ = os.WriteFile(opt.OutFile, b, 0644)
						} else {
							fmt.Println(string(b))
						}
						os.Exit(3)
					}
				}
			}
		}
	}()

	for w := 0; w < opt.Workers; w++ {
		wg.Add(1)
		go func(w int) {
			defer wg.Done()
			sl := slots[w]
			for jb := range jobs {
				for ai, ad := range ads {
					ai := ai
					wk := &worker{ad: ad, calls: calls, col: cols[ai], sl: func(ex Example, on bool) {
						if on {
							sl.what.Store(hangInfo{ai, ex})
							sl.since.Store(time.Now().UnixNano())
						} else {
							sl.since.Store(0)
						}
					}}
					rp, sk, ch, ok := wk.process(jb)
					atomic.AddInt64(&cnt[ai].replayed, rp)
					atomic.AddInt64(&cnt[ai].skipped, sk)
					atomic.AddInt64(&cnt[ai].changing, ch)
					if !ok {
						atomic.AddInt64(&cnt[ai].unbuildable, 1)
						unbuildMu.Lock()
						if len(cnt[ai].unbuildEx) < 5 {
							cnt[ai].unbuildEx = append(cnt[ai].unbuildEx, jb.state.Raw)
						}
						unbuildMu.Unlock()
					}
				}
			}
		}(w)
	}

	rd := bufio.NewReaderSize(r, 1<<20)
	rng := newRng(opt.Seed)
	var tail []string
	for {
		line, err := rd.ReadString('\n')
		if len(line) > 0 {
			if !strings.HasPrefix(line, "\"[") {
				if len(tail) < 400 {
					tail = append(tail, strings.TrimRight(line, "\n"))
				} else {
					tail = append(tail[1:], strings.TrimRight(line, "\n"))
				}
			} else {
				txt := tla.Unquote(line)
				v, perr := tla.Parse(txt)
				if perr != nil {
					sum.ParseErrors++
				} else if c := v.Get("calls"); c != nil {
					if calls == nil {
						calls = c.E
						sum.CallsInAlphabet = len(calls)
						// further fields of the header line are constants of the model an adapter may need
						hv := v
						for _, ad := range ads {
							if ha, ok := ad.(HeaderAware); ok {
								ha.SetHeader(&hv)
							}
						}
					}
				} else if s := v.Get("s"); s != nil {
					if opt.MaxStates > 0 && sum.States >= opt.MaxStates {
						goto next
					}
					sum.States++
					trs := v.F("r").E
					sum.Transitions += int64(len(trs))
					key := s.Raw
					if _, ok := parents[key]; !ok {
						// a state nobody discovered: an initial state
						parents[key] = nil
						cp := *s
						inits[key] = &cp
						if sum.Init == "" {
							sum.Init = key
						}
					}
					for i := range trs {
						n := trs[i].F("n")
						if n.K == tla.Str {
							continue
						}
						ps, seen := parents[n.Raw]
						if !seen || (ps != nil && len(ps) < 4) {
							if n.Raw != key {
								parents[n.Raw] = append(ps, parent{key, i})
							}
						}
					}
					if opt.Sample < 1 && parents[key] != nil && rng.Float64() >= opt.Sample {
						goto next
					}
					if opt.Walks > 0 {
						graph[key] = strings.Clone(v.F("r").Raw)
						cp := *s
						states[key] = &cp
					}
					jb := &job{state: *s, trs: trs}
					var root string
					jb.chains, root = chainsOf(parents, key)
					jb.init = inits[root]
					for _, c := range jb.chains {
						if len(c) > sum.MaxChain {
							sum.MaxChain = len(c)
						}
					}
					jobs <- jb
				}
			}
		}
	next:
		if err != nil {
			break
		}
	}
	close(jobs)
	wg.Wait()
	if opt.Walks > 0 && len(inits) > 0 {
		runWalks(ads, calls, graph, states, inits, cols, cnt, opt, slots[0].what.Store, func(on bool) {
			if on {
				slots[0].since.Store(time.Now().UnixNano())
			} else {
				slots[0].since.Store(0)
			}
		})
	}
	close(stopWatch)
	sum.TlcTail = strings.Join(tail, "\n")
	return results(), nil
}

type counters struct {
	replayed, skipped, changing, unbuildable, walkSteps int64
	unbuildEx                                           []string
}

type hangInfo struct {
	ad int
	ex Example
}

func finish(sum *Summary, col *collector, start time.Time, c *counters) {
	col.mu.Lock()
	defer col.mu.Unlock()
	sum.WalkSteps = atomic.LoadInt64(&c.walkSteps)
	sum.Replayed, sum.Skipped, sum.StateChanging, sum.Unbuildable = atomic.LoadInt64(&c.replayed), atomic.LoadInt64(&c.skipped), atomic.LoadInt64(&c.changing), atomic.LoadInt64(&c.unbuildable)
	sum.Divs = nil
	for _, d := range col.divs {
		sum.Divs = append(sum.Divs, *d)
	}
	sort.Slice(sum.Divs, func(i, j int) bool { return sum.Divs[i].Prop+sum.Divs[i].Sig < sum.Divs[j].Prop+sum.Divs[j].Sig })
	for k, v := range col.branches {
		sum.Branches[k] = v
	}
	sum.Samples = col.samples
	sum.WallS = time.Since(start).Seconds()
}

// chainsOf returns candidate call-index chains leading from an initial state to key:
// the primary BFS chain, and variants using an alternative last hop.
func chainsOf(parents map[string][]parent, key string) ([][]int, string) {
	root := key
	primary := func(k string) []int {
		var rev []int
		for {
			ps := parents[k]
			if len(ps) == 0 {
				root = k
				break
			}
			rev = append(rev, ps[0].call)
			k = ps[0].key
			if len(rev) > 200 {
				break
			}
		}
		for i, j := 0, len(rev)-1; i < j; i, j = i+1, j-1 {
			rev[i], rev[j] = rev[j], rev[i]
		}
		return rev
	}
	ps := parents[key]
	if len(ps) == 0 {
		return [][]int{{}}, key
	}
	// all candidate chains must start from the same initial state: keep those sharing the first root
	var out [][]int
	first := ""
	for _, p := range ps {
		c := append(primary(p.key), p.call)
		if first == "" {
			first = root
		}
		if root == first {
			out = append(out, c)
		}
	}
	return out, first
}

type worker struct {
	ad    Adapter
	calls []tla.Value
	col   *collector
	sl    func(Example, bool)
}

func (w *worker) build(jb *job, chain []int) (Instance, error) {
	inst, err := w.ad.New(jb.init)
	if err != nil {
		return nil, err
	}
	for _, ci := range chain {
		w.sl(Example{History: w.hist(chain), Call: w.calls[ci].Raw}, true)
		inst.Apply(&w.calls[ci])
		w.sl(Example{}, false)
	}
	return inst, nil
}

func (w *worker) hist(chain []int) []string {
	h := make([]string, len(chain))
	for i, ci := range chain {
		h[i] = w.calls[ci].Raw
	}
	return h
}

// process replays all transitions of one state. ok=false when the state could not be built.
func (w *worker) process(jb *job) (replayed, skipped, changing int64, ok bool) {
	var inst Instance
	var chain []int
	for _, c := range jb.chains {
		in, err := w.build(jb, c)
		if err != nil {
			// the real code refuses to construct the model's initial state (e.g. AddMount of a valid mount point fails):
			// a disagreement of its own, reported once per state so that nothing passes for lack of a fixture
			initRaw := ""
			if jb.init != nil {
				initRaw = jb.init.Raw
			}
			w.col.add(Div{Prop: "FIXTURE", Sig: w.ad.Name() + " fixture-construction-failed", Detail: err.Error()},
				Example{Init: initRaw, State: jb.state.Raw, History: []string{}, Call: "(initial state)", Expected: jb.state.Raw, Detail: err.Error()})
			return 0, int64(len(jb.trs)), 0, false
		}
		d := in.CheckState(&jb.state, nil, nil)
		if len(d) == 0 {
			inst, chain = in, c
			break
		}
		if len(c) == 0 {
			// an initial state: no call has been made yet, so the fixture as the real code holds it does not match the
			// model's initial state. That is a disagreement of its own (every later state would be unbuildable and unchecked)
			initRaw := ""
			if jb.init != nil {
				initRaw = jb.init.Raw
			}
			for _, dv := range d {
				w.col.add(dv, Example{Init: initRaw, State: jb.state.Raw, History: []string{}, Call: "(initial state)", Expected: jb.state.Raw, Detail: dv.Detail})
			}
		}
		in.Close()
	}
	if inst == nil {
		// no history the model knows leads the real code into this state: the real code disagrees with the model at the
		// end of that history, and none of this state's transitions can be checked. Reported as a divergence of its
		// own (the driver attributes it to the property being checked; aspect and property of the first mismatch are
		// kept in Prop / Sig) so that lost coverage is never silent.
		if len(jb.chains) > 0 && len(jb.chains[0]) > 0 {
			if in, err := w.build(jb, jb.chains[0]); err == nil {
				if d := in.CheckState(&jb.state, nil, nil); len(d) > 0 {
					initRaw := ""
					if jb.init != nil {
						initRaw = jb.init.Raw
					}
					w.col.add(Div{Prop: "UNBUILT:" + d[0].Prop, Sig: d[0].Sig + " (unbuilt-state)", Detail: d[0].Detail},
						Example{Init: initRaw, State: jb.state.Raw, History: w.hist(jb.chains[0]), Call: "(rebuild)", Expected: jb.state.Raw, Detail: d[0].Detail})
				}
				in.Close()
			}
		}
		return 0, int64(len(jb.trs)), 0, false
	}
	base := w.hist(chain)
	hist := base
	// calls applied on this instance since it was last rebuilt (self-loops): part of the real history
	var since []string
	alive := true
	rebuild := func() {
		// rebuild and verify: a construction that does not reproduce the model state (non-deterministic
		// real code) must not be blamed on the next transition
		for try := 0; try < 3; try++ {
			inst.Close()
			nin, err := w.build(jb, chain)
			if err != nil {
				alive = false // (inst stays the closed instance: Close is idempotent for every adapter)
				return
			}
			inst = nin
			if d := inst.CheckState(&jb.state, nil, nil); len(d) == 0 {
				since = nil
				hist = base
				return
			}
		}
		alive = false
	}
	sampled := false
	one := func(i int, expState *tla.Value) {
		tr := &jb.trs[i]
		call := &w.calls[i]
		if sa, ok := inst.(StateAware); ok {
			sa.SetState(&jb.state)
		}
		ex := Example{State: jb.state.Raw, History: hist, Call: call.Raw, Expected: trRaw(tr)}
		if jb.init != nil {
			ex.Init = jb.init.Raw
		}
		w.sl(ex, true)
		obs := inst.Apply(call)
		w.sl(ex, false)
		divs := inst.CheckResult(call, tr, obs)
		divs = append(divs, inst.CheckState(expState, call, tr)...)
		if b := tr.Get("b"); b != nil {
			w.col.mu.Lock()
			w.col.branches[b.S]++
			if !sampled && len(w.col.samples) < 3 && len(hist) >= 2 {
				sampled = true
				ex2 := ex
				ex2.Detail = fmt.Sprintf("observed: %v", obs)
				w.col.samples = append(w.col.samples, ex2)
			}
			w.col.mu.Unlock()
		}
		for _, d := range divs {
			e := ex
			e.Detail = d.Detail
			w.col.add(d, e)
		}
		replayed++
		if len(divs) > 0 || inst.Dirty() {
			rebuild()
		} else if len(since) < 64 {
			since = append(since, call.Raw)
			hist = append(append(make([]string, 0, len(base)+len(since)), base...), since...)
		}
	}
	var chg []int
	for i := range jb.trs {
		if !alive {
			break
		}
		n := jb.trs[i].F("n")
		switch {
		case n.IsStr("skip"):
			skipped++
		case n.IsStr("="):
			one(i, &jb.state)
		default:
			chg = append(chg, i)
		}
	}
	for _, i := range chg {
		if !alive {
			break
		}
		changing++
		one(i, jb.trs[i].F("n"))
		if alive {
			rebuild()
		}
	}
	inst.Close()
	return replayed, skipped, changing, alive
}

func trRaw(tr *tla.Value) string {
	// the expected transition without the (possibly large) successor state
	var b strings.Builder
	b.WriteString("[")
	first := true
	for i, n := range tr.Names {
		if n == "n" && tr.E[i].K != tla.Str {
			continue
		}
		if !first {
			b.WriteString(", ")
		}
		first = false
		b.WriteString(n + " |-> " + tr.E[i].Raw)
	}
	if n := tr.Get("n"); n != nil && n.K != tla.Str {
		b.WriteString(", n |-> " + n.Raw)
	}
	b.WriteString("]")
	return b.String()
}

type rng struct{ s uint64 }

func newRng(seed int64) *rng { return &rng{uint64(seed)*2654435761 + 0x9E3779B97F4A7C15} }
func (r *rng) next() uint64 {
	r.s ^= r.s << 13
	r.s ^= r.s >> 7
	r.s ^= r.s << 17
	return r.s
}
func (r *rng) Float64() float64 { return float64(r.next()>>11) / float64(1<<53) }

// ReplayOne re-executes one stored history + call on a fresh instance and reports what the
// comparison yields now.
func ReplayOne(ad Adapter, initRaw, stateRaw string, history []string, callRaw, expectedRaw string) (obs any, divs []Div, err error) {
	var init *tla.Value
	if initRaw != "" {
		v, e := tla.Parse(initRaw)
		if e != nil {
			return nil, nil, e
		}
		init = &v
	}
	inst, err := ad.New(init)
	if err != nil {
		return nil, nil, err
	}
	defer inst.Close()
	for _, h := range history {
		c, e := tla.Parse(h)
		if e != nil {
			return nil, nil, e
		}
		inst.Apply(&c)
	}
	if strings.HasPrefix(callRaw, "(") {
		// "(initial state)" / "(rebuild)": the history alone must lead to the model state
		st, e := tla.Parse(stateRaw)
		if e != nil {
			return nil, nil, e
		}
		return "(state after the history)", inst.CheckState(&st, nil, nil), nil
	}
	call, e := tla.Parse(callRaw)
	if e != nil {
		return nil, nil, e
	}
	tr, e := tla.Parse(expectedRaw)
	if e != nil {
		return nil, nil, e
	}
	if sa, ok := inst.(StateAware); ok && stateRaw != "" {
		if st, e := tla.Parse(stateRaw); e == nil {
			sa.SetState(&st)
		}
	}
	obs = inst.Apply(&call)
	divs = inst.CheckResult(&call, &tr, obs)
	n := tr.Get("n")
	var exp *tla.Value
	if n != nil && n.K != tla.Str {
		exp = n
	} else if stateRaw != "" {
		st, e := tla.Parse(stateRaw)
		if e != nil {
			return nil, nil, e
		}
		exp = &st
	}
	if exp != nil {
		divs = append(divs, inst.CheckState(exp, &call, &tr)...)
	}
	return obs, divs, nil
}

// runWalks performs random walks over the model graph on long-lived instances.
func runWalks(ads []Adapter, calls []tla.Value, graph map[string]string, states, inits map[string]*tla.Value,
	cols []*collector, cnt []*counters, opt Options, setWhat func(any), setBusy func(bool)) {
	var initKeys []string
	for k := range inits {
		initKeys = append(initKeys, k)
	}
	sort.Strings(initKeys)
	var wg sync.WaitGroup
	sem := make(chan struct{}, opt.Workers)
	for w := 0; w < opt.Walks; w++ {
		for ai, ad := range ads {
			wg.Add(1)
			sem <- struct{}{}
			go func(w, ai int, ad Adapter) {
				defer wg.Done()
				defer func() { <-sem }()
				r := newRng(opt.Seed*1000003 + int64(w)*7919 + int64(ai))
				key := initKeys[int(r.next()%uint64(len(initKeys)))]
				init := inits[key]
				inst, err := ad.New(init)
				if err != nil {
					return
				}
				defer func() { inst.Close() }()
				var hist []string
				for step := 0; step < opt.WalkLen; step++ {
					var trs []tla.Value
					if raw := graph[key]; raw != "" {
						if pv, perr := tla.Parse(raw); perr == nil {
							trs = pv.E
						}
					}
					if len(trs) == 0 {
						break // frontier state: never expanded by the model
					}
					// prefer state-changing transitions half of the time so the walk moves
					var i int
					for try := 0; try < 8; try++ {
						i = int(r.next() % uint64(len(trs)))
						n := trs[i].F("n")
						if n.IsStr("skip") {
							continue
						}
						if n.K != tla.Str || try >= 3 {
							break
						}
					}
					tr := &trs[i]
					n := tr.F("n")
					if n.IsStr("skip") {
						continue
					}
					if b := tr.Get("b"); b != nil && avoided(b.S, opt.AvoidBranches) {
						continue
					}
					call := &calls[i]
					if sa, ok := inst.(StateAware); ok {
						sa.SetState(states[key])
					}
					exp := states[key]
					next := key
					if n.K != tla.Str {
						exp, next = n, n.Raw
					}
					obs := inst.Apply(call)
					divs := inst.CheckResult(call, tr, obs)
					divs = append(divs, inst.CheckState(exp, call, tr)...)
					atomic.AddInt64(&cnt[ai].replayed, 1)
					atomic.AddInt64(&cnt[ai].walkSteps, 1)
					if len(divs) > 0 || inst.Dirty() {
						ex := Example{Init: init.Raw, State: states[key].Raw, History: append([]string{}, hist...), Call: call.Raw, Expected: trRaw(tr)}
						for _, d := range divs {
							e := ex
							e.Detail = d.Detail
							cols[ai].add(d, e)
						}
						break // this instance is off the model; the walk ends here
					}
					hist = append(hist, call.Raw)
					if _, ok := graph[next]; !ok && n.K != tla.Str {
						break
					}
					key = next
				}
			}(w, ai, ad)
		}
	}
	wg.Wait()
}

func avoided(b string, avoid []string) bool {
	for _, a := range avoid {
		if a != "" && strings.Contains(b, a) {
			return true
		}
	}
	return false
}
